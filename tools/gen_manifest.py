#!/venv/bin/python
"""Generates /verif/MANIFEST.json from the table below (kept in one place so
the manifest is always schema-valid and in step with the rule modules)."""

import json
import os
import sys

HERE = os.path.dirname(os.path.dirname(os.path.abspath(__file__)))
sys.path.insert(0, HERE)

BASELINE = ("cd /repo && /venv/bin/python -m pytest -ra -q -p no:cacheprovider --timeout=900 "
            "--continue-on-collection-errors test")

# property -> (category, technique, text, note, design_ref)
CLAIMS = {}
NOT_APPLICABLE = {}


def claim(pid, category, technique, text, note, ref):
    CLAIMS[pid] = dict(category=category, technique=technique, text=text, note=note, ref=ref)


def na(pid, reason):
    NOT_APPLICABLE[pid] = reason


# ---------------------------------------------------------------------------
from manifest_table import fill  # noqa: E402

fill(claim, na)


def main():
    both = set(CLAIMS) & set(NOT_APPLICABLE)
    if both:
        raise SystemExit(f"properties both claimed and not applicable: {sorted(both)}")
    checks = []
    for pid in sorted(CLAIMS):
        c = CLAIMS[pid]
        checks.append({
            "property_id": pid,
            "quick_cmd": f"/venv/bin/python -m kverif check {pid} --tier quick",
            "thorough_cmd": f"/venv/bin/python -m kverif check {pid} --tier thorough",
            "evidence_file": f"/verif/evidence/{pid}.json",
            "replay_cmd_template": "/venv/bin/python -m kverif replay {path}",
            "engine": "kverif",
            "level_claimed": {"category": c["category"], "text": c["text"], "design_ref": c["ref"]},
            "level_note": c["note"],
            "technique": c["technique"],
        })
    man = {
        "version": 1,
        "setup_cmd": "/venv/bin/python -m compileall -q kverif",
        "hooks": {
            "guard": "KNEELIVERSE_VERIF",
            "enable": "none needed: the checks read /repo's source text and never execute kneeliverse; no hook commits exist",
            "baseline_off_cmd": BASELINE,
            "source_commits": [],
            "add_only": True,
        },
        "engines": [{
            "name": "kverif",
            "path": "/verif/kverif",
            "serves_properties": sorted(CLAIMS),
            "kind_free_text": "repository-specific static analyser over ast: resolver/linker, CFG + dataflow "
                              "(definite assignment, reaching definitions, alias/mutation), gated value numbering "
                              "into an exact rational normal form, comparator accept-sets, event counting, "
                              "work-stack/loop-variant rules, sibling alignment",
        }],
        "checks": checks,
        "notes": "Static analysis only: every verdict is computed from /repo's current source text with /venv/bin/python "
                 "(stdlib ast) and the installed dependencies' symbol tables; kneeliverse is never imported or executed. "
                 "Exit 0 ok / 1 VIOLATION / 2 ANALYSIS-ERROR (anchor gone, shape not recognised). Known findings: "
                 "/verif/known_findings.json.",
        "not_applicable": [{"property_id": k, "reason": v} for k, v in sorted(NOT_APPLICABLE.items())],
    }
    with open(os.path.join(HERE, "MANIFEST.json"), "w") as fh:
        json.dump(man, fh, indent=1)
    # validate when jsonschema is around (tooling venv); otherwise structural check only
    try:
        import jsonschema  # type: ignore
        with open("/root/.vp/MANIFEST.schema.json") as fh:
            jsonschema.validate(man, json.load(fh))
        print("MANIFEST.json written and validated:", len(checks), "checks,", len(NOT_APPLICABLE), "not applicable")
    except ImportError:
        print("MANIFEST.json written (jsonschema not available here):", len(checks), "checks")


if __name__ == "__main__":
    main()
