#!/venv/bin/python
"""Run the relevant checks against behaviour-preserving patches (must all stay silent: exit 0).
  tools/check_benign.py <dir-with-patch_*.diff or patch.diff> [...]"""
import glob, os, re, subprocess, sys
from concurrent.futures import ThreadPoolExecutor
FILE_PROPS = {
 "clustering.py": ["C11"], "knee_ranking.py": ["C12", "C13", "C17"], "convex_hull.py": ["C18", "C12", "C08"],
 "rdp.py": ["C01", "C04", "C05", "C06", "C07"], "postprocessing.py": ["C08", "C12", "C13", "C14"],
 "evaluation.py": ["C15", "C19", "C06"], "metrics.py": ["C16", "C15", "C04"], "linear_fit.py": ["C16", "C17", "C01", "C04", "C05", "C15"],
 "multi_knee.py": ["C02"], "curvature.py": ["C02", "C09"], "dfdt.py": ["C02", "C09"], "menger.py": ["C02", "C09", "C17"],
 "lmethod.py": ["C02", "C09"], "kneedle.py": ["C02", "C08", "C11"], "zmethod.py": ["C10"],
}
patches = []
for d in sys.argv[1:]:
    if os.path.isdir(d):
        patches += sorted(glob.glob(os.path.join(d, "patch*.diff")))
    else:
        patches.append(d)
def one(p):
    txt = open(p).read()
    files = sorted({os.path.basename(l[6:]) for l in txt.splitlines() if l.startswith("+++ b/")})
    props = sorted({q for f in files for q in FILE_PROPS.get(f, [])} | {"C20"})
    r = subprocess.run(["/venv/bin/python", "/verif/tools/variant.py", "--patch", p] + props, cwd="/verif", capture_output=True, text=True)
    res = {}
    cur = None
    detail = {}
    for l in r.stdout.splitlines():
        m = re.match(r"--- (C\d+): exit (\d+)", l)
        if m:
            cur = m.group(1); res[cur] = int(m.group(2)); detail[cur] = []
        elif cur and ("] " in l and ("src/" in l or "demos/" in l) or "ANALYSIS-ERROR" in l):
            detail[cur].append(l[:260])
    return p, files, res, detail
with ThreadPoolExecutor(6) as ex:
    rows = list(ex.map(one, patches))
nbad = 0
for p, files, res, detail in rows:
    bad = {k: v for k, v in res.items() if v != 0}
    nbad += 1 if bad else 0
    print(("ALARM " if bad else "ok    ") + os.path.relpath(p, "/") + " " + ",".join(files) + " -> " + (" ".join(f"{k}={v}" for k, v in bad.items()) if bad else "all silent (" + " ".join(res) + ")"))
    for k in bad:
        for l in detail[k][:3]:
            print("        ", l)
print("patches with an alarm:", nbad, "of", len(rows))
