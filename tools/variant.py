#!/venv/bin/python
"""Run kverif checks against a scratch variant of /repo.

  tools/variant.py --revert <commit> [--revert <commit> ...] C20 C01 ...
  tools/variant.py --patch seeded/x/patch.diff C05

Copies the working tree of /repo (source dirs only) to a temp dir outside
/repo and /verif, applies the reverse of the given commits and/or the given
patches, runs the listed checks with KVERIF_REPO pointing there (evidence is
written to a temp evidence dir, not /verif/evidence), prints the exit codes,
and removes the copy.
"""

import argparse
import os
import shutil
import subprocess
import sys
import tempfile

HERE = os.path.dirname(os.path.dirname(os.path.abspath(__file__)))
REPO = "/repo"


def make_copy() -> str:
    d = tempfile.mkdtemp(prefix="kverif-variant-")
    for sub in ("src", "demos", "examples", "test"):
        s = os.path.join(REPO, sub)
        if os.path.isdir(s):
            shutil.copytree(s, os.path.join(d, sub), ignore=shutil.ignore_patterns("__pycache__", "*.pyc", "*.egg-info"))
    for f in ("setup.cfg", "pyproject.toml", "requirements.txt"):
        if os.path.exists(os.path.join(REPO, f)):
            shutil.copy(os.path.join(REPO, f), d)
    return d


def main():
    ap = argparse.ArgumentParser()
    ap.add_argument("--revert", action="append", default=[])
    ap.add_argument("--patch", action="append", default=[])
    ap.add_argument("--sub", action="append", default=[], help="relpath@@@old@@@new")
    ap.add_argument("--tier", default="quick")
    ap.add_argument("--keep", action="store_true")
    ap.add_argument("props", nargs="+")
    a = ap.parse_args()
    d = make_copy()
    try:
        for c in a.revert:
            diff = subprocess.run(["git", "-C", REPO, "diff", f"{c}^", c], capture_output=True, text=True, check=True).stdout
            r = subprocess.run(["patch", "-R", "-p1", "-d", d, "--no-backup-if-mismatch", "-s"], input=diff, text=True)
            if r.returncode != 0:
                print("could not revert", c)
                return 3
        for p in a.patch:
            with open(p) as fh:
                r = subprocess.run(["patch", "-p1", "-d", d, "--no-backup-if-mismatch", "-s"], stdin=fh)
            if r.returncode != 0:
                print("could not apply", p)
                return 3
        for sub in a.sub:
            parts = sub.split("@@@")
            rel, old, new = parts[0], parts[1], parts[2]
            path = os.path.join(d, rel if "/" in rel else os.path.join("src/kneeliverse", rel))
            src = open(path).read()
            cnt = src.count(old)
            want = int(parts[3]) if len(parts) > 3 else 1
            if cnt < 1 or (want == 1 and cnt != 1):
                print(f"substitution matched {cnt} times in {rel}: {old!r}")
                return 3
            src = src.replace(old, new) if want != 1 else src.replace(old, new, 1)
            open(path, "w").write(src)
            import py_compile
            py_compile.compile(path, doraise=True)
        env = dict(os.environ)
        env["KVERIF_REPO"] = d
        env["KVERIF_EVIDENCE_DIR"] = os.path.join(d, "_evidence")
        worst = 0
        for p in a.props:
            r = subprocess.run(["/venv/bin/python", "-m", "kverif", "check", p, "--tier", a.tier], cwd=HERE, env=env,
                               capture_output=True, text=True)
            out = r.stdout.replace(d + "/", "")
            print(f"--- {p}: exit {r.returncode}")
            print(out.strip())
            if r.stderr.strip():
                print(r.stderr.strip()[-2000:])
            worst = max(worst, r.returncode)
        return worst
    finally:
        if not a.keep:
            shutil.rmtree(d, ignore_errors=True)
        else:
            print("kept", d)


if __name__ == "__main__":
    sys.exit(main())
