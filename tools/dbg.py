"""Debug helper: python tools/dbg.py <module.function> [sym=kind ...] - evaluates a function with symbolic arguments and prints its returns.
kinds: p (array of points), a (array), s (scalar, default)."""
import sys
sys.path.insert(0, '/verif')
from kverif.engine import Context
from kverif.rules.common import RuleCtx
from kverif.anf import sym


def main():
    q = sys.argv[1]
    root = next((a.split("=",1)[1] for a in sys.argv if a.startswith("--root=")), None)
    ctx = Context("C20", "quick", 0, root)
    rc = RuleCtx(ctx)
    fi = rc.func(q)
    ev = rc.new_eval()
    if "--summ" in sys.argv:
        ev.summarise_loops = True
    kinds = dict(a.split("=") for a in sys.argv[2:] if "=" in a and not a.startswith("--"))
    args = {}
    for a in fi.node.args.args:
        k = kinds.get(a.arg, "s")
        if k == "p":
            args[a.arg] = ev.point(a.arg, True)
            ev.len_map[a.arg] = sym("n_" + a.arg)
        elif k == "a":
            args[a.arg] = ev.symbol(a.arg, True)
            ev.len_map[a.arg] = sym("n_" + a.arg)
        else:
            args[a.arg] = ev.symbol(a.arg)
    out = ev.eval_function(fi, args)
    for g, v in out.returns:
        print("RETURN under", str(g)[:300], "\n   ", str(v)[:600])
    for e in out.events[:40]:
        print("EVENT", e.kind, e.target, str(e.guard)[:80], [str(x)[:80] for x in e.args])
    for n in ev.notes[:20]:
        print("NOTE", n[:200])
    print("SUMMARY LOG", ev.summary_log[:10])


main()
