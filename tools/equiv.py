#!/venv/bin/python
"""tools/equiv.py <transform|all> <props...> : run the checks on one equivalence-preserving rewrite of the tree."""
import sys, os
sys.path.insert(0, os.path.dirname(os.path.dirname(os.path.abspath(__file__))))
from kverif import selftest, repo_root
which = sys.argv[1]
for prop in sys.argv[2:]:
    for name, edits in selftest.equivalence_variants(prop, repo_root()):
        if which != "all" and name != which:
            continue
        code, lines = selftest.run_variant(prop, repo_root(), edits)
        print(f"--- {prop} {name}: exit {code}")
        if code != 0:
            for l in lines:
                if "KNOWN" in l:
                    continue
                print("   ", l[:400])
