#!/venv/bin/python
"""Confirm a seeded change produced by a sub-agent and store it under /verif/seeded/<name>/.

  tools/confirm_seed.py <worktree> <name> <property> [checks...]

Confirms, in the agent's own scratch worktree: (1) the patch is non-empty and touches only the library/demos,
(2) the existing test-suite still passes with the change, (3) the demonstration fails with the change and
passes without it.  Then runs the given kverif checks against the patch (scratch copy) and records everything
in meta.json.  The worktree is left in place (remove it afterwards with git worktree remove --force).
"""
import json, os, shutil, subprocess, sys

wt, name, prop = sys.argv[1], sys.argv[2], sys.argv[3]
checks = sys.argv[4:] or [prop]
env = dict(os.environ, PYTHONPATH=os.path.join(wt, "src"))
def run(cmd, **kw):
    return subprocess.run(cmd, capture_output=True, text=True, **kw)
diff = run(["git", "-C", wt, "diff"]).stdout
assert diff.strip(), "empty diff"
files = [l[6:] for l in diff.splitlines() if l.startswith("+++ b/")]
assert all(f.startswith(("src/kneeliverse/", "demos/")) for f in files), files
t = run(["/venv/bin/python", "-m", "pytest", "-q", "-p", "no:cacheprovider", "test"], cwd=wt, env=env)
tests_line = t.stdout.strip().splitlines()[-1]
assert " passed" in tests_line and "failed" not in tests_line, tests_line
demo = os.path.join(wt, "_seed", "demo.py")
d1 = run(["/venv/bin/python", demo], cwd=wt, env=env, timeout=900)
# NB: `git stash` is shared by all worktrees of a repository -- revert / re-apply the patch instead
patch_file = os.path.join(wt, "_seed", "_confirm.diff")
open(patch_file, "w").write(diff)
r_ = run(["git", "-C", wt, "apply", "-R", patch_file])
assert r_.returncode == 0, r_.stderr
try:
    assert not run(["git", "-C", wt, "diff"]).stdout.strip()
    d0 = run(["/venv/bin/python", demo], cwd=wt, env=env, timeout=900)
finally:
    r_ = run(["git", "-C", wt, "apply", patch_file])
    assert r_.returncode == 0, r_.stderr
    os.remove(patch_file)
assert d1.returncode != 0, "demo does not fail with the change"
assert d0.returncode == 0, "demo does not pass without the change: " + d0.stdout[-300:] + d0.stderr[-300:]
out = os.path.join("/verif/seeded", name)
os.makedirs(out, exist_ok=True)
open(os.path.join(out, "patch.diff"), "w").write(diff)
shutil.copy(demo, os.path.join(out, "demo.py"))
agent_meta = {}
try:
    agent_meta = json.load(open(os.path.join(wt, "_seed", "meta.json")))
except Exception:
    pass
results = {}
for c in checks:
    r = run(["/venv/bin/python", "/verif/tools/variant.py", "--patch", os.path.join(out, "patch.diff"), c], cwd="/verif")
    lines = [l for l in r.stdout.splitlines() if "] " in l and ("src/" in l or "demos/" in l)]
    code = [l for l in r.stdout.splitlines() if l.startswith("--- ")]
    results[c] = {"exit": code[0].split("exit")[-1].strip() if code else "?", "reported": [l[:300] for l in lines[:6]]}
meta = {
    "property": prop,
    "summary": agent_meta.get("summary", ""),
    "needs": agent_meta.get("needs", ""),
    "files": files,
    "confirmed": {
        "tests_with_change": tests_line,
        "demo_with_change": {"exit": d1.returncode, "tail": (d1.stdout.strip().splitlines() or [""])[-1][:300]},
        "demo_without_change": {"exit": d0.returncode, "tail": (d0.stdout.strip().splitlines() or [""])[-1][:300]},
        "commands": ["PYTHONPATH=<wt>/src /venv/bin/python -m pytest -q -p no:cacheprovider test", "PYTHONPATH=<wt>/src /venv/bin/python _seed/demo.py (with / without the change via git stash)"],
    },
    "kverif": results,
}
json.dump(meta, open(os.path.join(out, "meta.json"), "w"), indent=1)
print(name, prop, tests_line, "| demo with:", d1.returncode, "without:", d0.returncode, "|", {c: results[c]["exit"] for c in results})
