#!/bin/bash
# usage: tools/try_seed.sh <worktree-dir> <props...>   -- runs the given checks against a seeded worktree's patch
wt=$1; shift
/venv/bin/python /verif/tools/variant.py --patch $wt/_seed/patch.diff "$@" | grep -v "^KNOWN" | cut -c1-330
