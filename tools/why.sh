#!/bin/bash
# usage: tools/why.sh <patch> <props...> -- applies the patch to /repo, prints the first error and the second-reading note of each check, undoes the patch
p=$1; shift
git -C /repo apply "$p" || exit 1
for id in "$@"; do
  /venv/bin/python -m kverif check $id 2>&1 | grep -v "^KNOWN" | cut -c1-400 | tail -3
  python3 -c "
import json; d=json.load(open('/verif/evidence/$id.json')); [print('   NOTE', n[:500]) for n in d['coverage']['notes'] if 'second reading' in n or 'first reading' in n]"
done
git -C /repo checkout -- .
