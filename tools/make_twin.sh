#!/bin/bash
# usage: tools/make_twin.sh <seed patch.diff> <X-name> <file under src/kneeliverse> <python-regex-old> <new> <note>
# builds refactors/<X-name>/patch_1.diff = seed patch with one line corrected; runs the test suite on it and the benign check
set -e
patch=$1; name=$2; file=$3; old=$4; new=$5; note=$6
d=$(mktemp -d /tmp/tw.XXXX); cp -r /repo/src $d/; cd $d; git init -q .; git add -A; git -c user.email=a@b -c user.name=x commit -qm base
patch -p1 -s < $patch
/venv/bin/python - "$file" "$old" "$new" <<'PY'
import sys,re
f,old,new=sys.argv[1:4]
p='src/kneeliverse/'+f
s=open(p).read()
n=len(re.findall(old,s))
assert n==1, f"pattern matches {n} times"
open(p,'w').write(re.sub(old,lambda m:new,s,count=1))
PY
mkdir -p /verif/refactors/$name; git diff > /verif/refactors/$name/patch_1.diff; cd /verif; rm -rf $d
/venv/bin/python - "$name" "$note" <<'PY'
import json,sys
json.dump({"kind":"hand-made benign twin","note":sys.argv[2]},open(f"/verif/refactors/{sys.argv[1]}/meta.json","w"))
PY
(cd /repo && git apply /verif/refactors/$name/patch_1.diff && /venv/bin/python -m pytest -q -p no:cacheprovider test 2>&1 | tail -1; git -C /repo checkout -- .)
/venv/bin/python tools/check_benign.py refactors/$name 2>&1 | tail -6 | cut -c1-420
