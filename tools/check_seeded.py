#!/venv/bin/python
"""Run every stored seeded change (/verif/seeded/*/patch.diff) against the check of the property it breaks
(and optionally all checks) and print a table.  Expected: exit 1 for the broken property."""
import json, os, subprocess, sys
from concurrent.futures import ThreadPoolExecutor
base = "/verif/seeded"
names = sorted(d for d in os.listdir(base) if os.path.exists(os.path.join(base, d, "patch.diff")))
def one(n):
    meta = json.load(open(os.path.join(base, n, "meta.json")))
    prop = meta["property"]
    expect = meta.get("expect", "violation")
    check = meta.get("caught_by", prop)        # indirect changes: reported by the check that owns the edited helper
    r = subprocess.run(["/venv/bin/python", "/verif/tools/variant.py", "--patch", os.path.join(base, n, "patch.diff"), check], cwd="/verif", capture_output=True, text=True)
    code = [l for l in r.stdout.splitlines() if l.startswith("--- ")]
    ex = code[0].split("exit")[-1].strip() if code else "?"
    rules = sorted({l.split("[")[1].split("]")[0] for l in r.stdout.splitlines() if "] " in l and "[" in l and ("src/" in l or "demos/" in l)})
    return n, prop if check == prop else f'{prop}>{check}', expect, ex, rules
with ThreadPoolExecutor(8) as ex:
    rows = list(ex.map(one, names))
bad = 0
for n, prop, expect, exv, rules in rows:
    if expect == "missed":
        # a recorded miss (DESIGN.md 10.6): listed, not counted; it stops being one when the check starts to report it
        print(f"{'rec.' if exv != '1' else 'NOW '} {n:12s} {prop} expect={expect:9s} exit={exv} rules={rules}")
        continue
    ok = (exv == "1") if expect == "violation" else (exv == "0")
    bad += 0 if ok else 1
    print(f"{'ok  ' if ok else 'MISS'} {n:12s} {prop} expect={expect:9s} exit={exv} rules={rules}")
print("misses:", bad)
sys.exit(1 if bad else 0)
