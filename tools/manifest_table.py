"""Per-property claims.  Edited whenever a rule module is completed."""

PENDING = "check under construction in this build round - not claimed until its rule module is complete (DESIGN.md appendix B)"


def fill(claim, na):
    na("C03", "numerical theorem about argmax/argmin on exact two-slope elbows (values of uts.gradient / isodata, "
              "floating-point exactness of dyadic slopes); no clause of its own is visible in the shape of the code - "
              "every structural fact it needs is decided under C02/C09/C17/C20 with its own necessity argument")
    claim("C20", "other", "custom ast resolver/linker + CFG definite-assignment + alias/mutation dataflow + API ban",
          "Decides the static clause for all inputs/paths: every name, every attribute of an imported module and every "
          "intra-package call signature (incl. dispatch tables and function-pointer slots) resolves against the package "
          "source and the installed dependencies on every path; no public function writes an array/list argument; no "
          "nondeterminism source is reachable. Layout/dtype independence is not decided (API ban only).",
          "Trusted: Python scoping rules as modelled (no global/nonlocal/star-import/getattr in the package - fails closed "
          "otherwise); installed numpy/uts/numba/math symbol tables; parameter annotations only used to report definite "
          "attribute errors; view/copy classification table of numpy operations.",
          "DESIGN.md 3/C20")
    for pid in ["C01", "C02", "C04", "C05", "C06", "C07", "C08", "C09", "C10", "C11", "C12", "C13", "C14", "C15",
                "C16", "C17", "C18", "C19"]:
        na(pid, PENDING)
