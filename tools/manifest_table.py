"""Per-property claims.  Edited whenever a rule module is completed."""

PENDING = "check under construction in this build round - not claimed until its rule module is complete (DESIGN.md appendix B)"


def fill(claim, na):
    na("C03", "numerical theorem about argmax/argmin on exact two-slope elbows (values of uts.gradient / isodata, "
              "floating-point exactness of dyadic slopes); no clause of its own is visible in the shape of the code - "
              "every structural fact it needs is decided under C02/C09/C17/C20 with its own necessity argument")
    claim("C20", "other", "custom ast resolver/linker + CFG definite-assignment + alias/mutation dataflow + API ban",
          "Decides the static clause for all inputs/paths: every name, every attribute of an imported module and every "
          "intra-package call signature (incl. dispatch tables and function-pointer slots) resolves against the package "
          "source and the installed dependencies on every path; no public function writes an array/list argument; no "
          "nondeterminism source is reachable and no call (module level included) resolves to a process-wide state setter "
          "(numpy.seterr, warnings filters, ...: D-procstate). Layout/dtype independence is not decided (API ban only).",
          "Trusted: Python scoping rules as modelled (no global/nonlocal/star-import/getattr in the package - fails closed "
          "otherwise); installed numpy/uts/numba/math symbol tables; parameter annotations only used to report definite "
          "attribute errors; view/copy classification table of numpy operations.",
          "DESIGN.md 3/C20")
    claim("C11", "proof", "gated value numbering of the loop body (transfer function) + guard partition by finite sign enumeration + normal-form equality",
          "For all inputs: one label per point, first label 0, label step in {0,1} (append guards partition every iteration; "
          "appended value equals the carried label); the increment guard is exactly distance >= t (sign set {0,+}, ties "
          "included); distance and carried state (anchor / running centroid / member window) equal the stated linkage "
          "definition normalised by x_last - x_first, as exact rational-function identities.",
          "Real-number reading of the centroid recurrence; x strictly increasing; the loop is the repo's single-pass for-loop "
          "(any other shape fails closed); numpy/math vocabulary per kverif.npmodel.",
          "DESIGN.md 3/C11")
    claim("C16", "translation_validation", "abstraction of each function body to an exact rational normal form (gated value numbering) compared with reference formulas",
          "Each metric (r2 classic/adjusted, rmse, rmsle, rmspe, rpd, residuals, smape) and each linear_fit wrapper is proved "
          "equal to its textbook formula as a real rational-function identity with eps / R2-variant kept symbolic (a dropped "
          "parameter is a mismatch); the endpoint fit is proved to interpolate both end points whenever x0 != xn; best-fit R2 is "
          "corrcoef[0,1]^2 with the (n-1)/(n-2) correction.",
          "Real-number reading (rounding outside the claim); numpy element-wise semantics per kverif.npmodel; @jit preserves "
          "Python meaning (the one way found to break that from outside the body - an Enum selector with a str/int mix-in, "
          "typed by numba as the mix-in - is decided by M-enum on the class statement); equal-length arrays. An equivalent reformulation the algebra cannot normalise is reported as "
          "INCONCLUSIVE (exit 2), never as a pass.",
          "DESIGN.md 3/C16")
    claim("C17", "translation_validation", "normal-form equality against geometric definitions + symbol-substitution symmetry check + dependency-API link rule",
          "shortest/perpendicular distance primitives, IoU, Menger curvature, distances, triangle area, similarity, rect are "
          "proved equal to their geometric definitions as exact identities; Menger's normal form is invariant under all 6 "
          "argument permutations; the sub-range variant measures exactly points[l:r+1]; rank is the argsort scatter; no "
          "perpendicular primitive reaches numpy.cross on 2-vectors (rejected by the installed numpy).",
          "Real-number reading; points are (x, y) rows; degenerate denominators not decided.",
          "DESIGN.md 3/C17")
    claim("C13", "proof", "gated value numbering of the filter loop bodies + normal-form equality with the IoU definition + guard partition by finite sign enumeration",
          "For all curves, knee lists and thresholds: filter_worst_knees is exactly the running-minimum automaton (first kept, keep iff "
          "h <= h_min with ties kept, h_min updated exactly on keep); corner filter and selector use the same IoU predicate on "
          "points[idx-1..idx+1] with complementary comparators and the filter keeps end knees; exactly one of the two keep-guards "
          "holds for every knee, so the outputs partition the input; every emitted value is knees[i] in ascending position order.",
          "Real-number reading of the IoU; knees ascending valid indices; sign facts of distinct quantities treated as independent "
          "(over-approximation, can only fail closed).",
          "DESIGN.md 3/C13")
    claim("C19", "proof", "gated value numbering of the matching loop (event guards, counter updates) + rational identities + decision-table comparison",
          "For all inputs: exactly one of tp/fn is incremented per expected point and tp only when a not-yet-used nearest knee within "
          "t is claimed (TP+FN=|E|, TP<=|K|); fp = max(|K|-tp,0) and tp+fp+fn+tn = n as an identity; accuracy/F1/MCC equal their "
          "formulas on the matrix layout cm() returns; rmse = sqrt(mse(same args)); mae/mse/rmspe use the Euclidean argmin, the "
          "stated error term and divisor; the three Strategy tables agree and are the stated ones.",
          "Real-number reading; numpy reductions per kverif.npmodel; argmin returns an index of the minimum.",
          "DESIGN.md 3/C19")
    claim("C15", "proof", "def-use closure of cached values over the loop transfer function + normal-form equality of partial/finalise formulas + E3 purity summaries",
          "For all curves, breakpoint sets and query histories sharing a cache: every cached value is a function of its key, "
          "`points` and the metric only, stored only when absent and read under the same key, by pure callees (so a shared cache "
          "is transparent); <=2-point segments store the literal 0; the divisor is len(points)+#segments-1; the result is clipped "
          "at 0; for each metric finalise(sum partial) is the metric's formula over the concatenated segments with endpoint-line "
          "predictions; global RMSE and MIP/MAD have their stated forms.",
          "Real-number reading; one cache serves one metric and one curve; breakpoints ascending valid indices.",
          "DESIGN.md 3/C15")
    claim("C01", "other", "work-stack rule over the loop transfer functions: symbolic index intervals + linear range obligations, event counting, guard implication, callee link/shape rules",
          "Decides, for all inputs, the structural part: every range pushed by rdp/_rdp_fixed/_grdp is a non-empty strict "
          "sub-range of the popped one (split index proved in [1, L-2]); every poppable range has L >= 3 (push guards, guarded "
          "seeds, accepting literal for <= 2 points under t>0); exactly one retained index per step, seeds [0,n-1], final n-1; "
          "ascending output by push order / sort; removed-row arithmetic agrees between rdp() and compute_removed_points(); every "
          "Distance choice resolves to a 3-argument callee returning one distance per point and never reaching numpy.cross. "
          "The linear iteration bound follows from these facts by a recorded paper argument; numerical clauses are not decided.",
          "t>0 (t<=1 for R2), n>=2; integer index arithmetic; interval idioms table (argmax over d[a:-b]+a, int(L/2)); the distance "
          "callee returns one value per row (checked on both callees' bodies).",
          "DESIGN.md 3/C01")
    claim("C04", "other", "guard normalisation to sign sets over the loop transfer function + normal-form equality of the dispatch table entries",
          "Decides the structural part for all inputs: on ranges with interior points rdp() splits iff the endpoint-line cost of "
          "exactly the popped range is on the rejecting side of t (r < t for R2, r >= t otherwise) and retains otherwise; the "
          "Metrics dispatch table is total and each entry equals the homonymous metric on (y, m*x+b); the split index is the "
          "argmax over the interior of distance_points(pt, pt[0], pt[-1]); the children share the split point.",
          "Real-number reading of the metric formulas; 'beyond rounding noise' is not decided.",
          "DESIGN.md 3/C04")
    claim("C05", "other", "event counting and ordering over the loop transfer function + def-use of the budget + normal-form equality of the scorers + E3 purity",
          "Decides the structural part for all inputs: one insertion and one budget decrement per iteration, loop test "
          "`length > 0 and stack`, budget length-2 on a 2-element seed, budget unused by the refinement (nesting), child priority = "
          "pure scorer(pt, index)[side], ascending sort on the priority then pop from the end, Order dispatch total with each "
          "scorer equal to its definition, children pushed only with an interior point, split index interior and farthest.",
          "Integer indices; ties among equal priorities and rounding-noise clause not decided.",
          "DESIGN.md 3/C05")
    claim("C06", "other", "sibling alignment of the two loop transfer functions + guard normalisation + event ordering + call-argument flow",
          "Decides the structural part for all inputs: the _grdp step equals the _rdp_fixed step (same split, pushes, priorities, "
          "retained index, priority sort) apart from the budget counter and the global-cost statements, so both generate the same "
          "refinement sequence; the continuation test is 'cost < t' (R2) / 'cost >= t' identically before the loop and after each "
          "insertion; the cost is evaluated on the inserted, sorted set with one per-call cache; mp_grdp continues with budget "
          "min_points - len(reduced) on the same stack/reduced iff the result is too short; min_point_rdp visits thresholds in "
          "descending order, returns the first result with >= min_points, falls back to rdp_fixed(points, min_points).",
          "Equality with an independently computed S_k on concrete curves is behavioural and not decided.",
          "DESIGN.md 3/C06")
    claim("C07", "other", "gated value numbering of the nested mapping loops (guards, carried-state updates, emission) + linear-form agreement of the two removed-table builders",
          "Decides the structural part for all inputs: mapping() consumes rows strictly before reduced[i], accumulates their "
          "dropped counts in a sum carried across queries, emits int(i + count) once per query; sorted=False permutes rows by "
          "argsort of the left column; rdp() and compute_removed_points() build rows with the same linear form next-left-1. "
          "mapping(I) == reduced[I] then follows by a recorded induction; it is not itself decided.",
          "Positions ascending; rows cover consecutive retained pairs.",
          "DESIGN.md 3/C07")
    claim("C02", "other", "work-stack rule over the recursion's transfer function + detector return-interval rules (idiom table) + slot/link resolution",
          "Decides the structural part for all inputs: size gate len > t2; straightness gate SMAPE >= t1 (R2 < t1) of the endpoint "
          "line on the popped range; children (left,k+1),(k+1,right) with k = detector(pt)+left; one retained absolute index per "
          "step; sort before return; None tested before use; each of the five detectors bound to the slot returns None or an "
          "index in [0, len-2] (interior argmax/argmin offsets, padded argmax, candidate range, dependency contract read from the "
          "installed uts source); all five entry points link. Termination follows (children strictly shorter). The union formula "
          "itself is a recorded induction over these facts, not decided.",
          "t2 >= detector minimum; uts.gradient/peak_detection contracts as tabled.",
          "DESIGN.md 3/C02")
    claim("C09", "other", "normal-form equality of each detector's criterion + interval idioms + loop-variant idioms (strict progress, visited state)",
          "Decides the structural part for all inputs: curvature maximises |csd|/(1+cfd^2)^(3/2) over interior points; the DFDT "
          "step is the interior argmin of |g - isodata(g)| and the refinement recurrence is the stated one; Menger maximises the "
          "curvature of consecutive triples with zero padding; the L-method minimises the stated length-weighted two-line error "
          "(4 Fit x Cost cases) over candidates 2..n-3 and forwards `fit`; the DFDT loop has a strict-progress variant and the "
          "L-method loop a visited-state variant covering every loop-carried variable.",
          "Dependency contracts for uts.gradient / isodata; optimality over competing indices follows from argmax/argmin and is "
          "not separately decided.",
          "DESIGN.md 3/C09")
    claim("C18", "other", "E1 link + orientation polynomial identity + guard normalisation of the popping predicates + dominance of stack subscripts by a length test",
          "Decides the structural part for all inputs: the three scans link; _ccw is the cross product (b-a)x(c-a); the lower "
          "chain pops exactly orient <= 0 and the upper chain exactly orient >= 0, offering every index once in ascending order "
          "and pushing after the pops; every stack[-k] in a popping loop is dominated by len(stack) >= k; graham_scan removes "
          "every counter-clockwise turn of the points sorted clockwise around the lowest-leftmost point (nearer first on ties). "
          "Equality with the brute-force hull is not decided.",
          "x-sorted input for the chains; real-number orientation.",
          "DESIGN.md 3/C18")
    claim("C08", "other", "provenance / event-counting over the filter loops + guard accept-sets + E1 link + F/R index-space type system over demos/*.py",
          "Decides the structural part for all inputs: each of the five filter stages emits only elements of its knees argument, at "
          "most one per input position / cluster, in increasing position order (so each stage returns a subsequence); the "
          "worst-knee filter keeps only h <= (or <) the running minimum, so heights are non-increasing from there on; hull-mode "
          "cluster filtering links; in the seven pipeline demos reduced-space knees are filtered against the reduced curve and "
          "mapped before they are used against the original curve. Completion for every configuration and coordinate equality are "
          "not decided here (see C01/C02/C07/C09).",
          "Cluster labels are contiguous non-decreasing runs (C11); demos are the only in-repo composition of the stages.",
          "DESIGN.md 3/C08")
    claim("C12", "other", "gated value numbering of the per-cluster loop bodies (4 modes + corner variant) + nullness summaries + normal-form equality of the ranking score",
          "Decides the structural part for all inputs: clusters 0..max visited once; in left/linear/right modes exactly one knee per "
          "cluster, equal to members[argmax(rank(smooth_ranking(points, members, mode)))] (members[0] for singletons), with "
          "smooth_ranking = R2 fit of the selected side(s) x |peak - y_k| normalised by its sum; in hull mode at most one per "
          "cluster, none when the span holds no hull index, singleton iff in hull; corner variant keeps the argmax of the "
          "corner-triangle score; every emitted value is an element of knees; the hull path links.",
          "Numerical scores and tie-breaking not decided; argsort is a permutation.",
          "DESIGN.md 3/C12")
    claim("C14", "other", "gated value numbering of the candidate / insertion loops + structural check of the union tail + sibling comparison of the two variants",
          "Decides the structural part for all inputs: candidates are exactly the consecutive retained pairs (or knee gaps incl. "
          "both curve ends) whose normalised width exceeds 2*tx and height exceeds ty; ceil(w/(2*tx)) points at stride "
          "int((right-left)/k) from left; knees and candidates are mapped with rdp.mapping first; the union is concatenated, cast "
          "to int, de-duplicated and passed through filter_worst_knees on every path; extremes are [0, n-1] in both variants.",
          "Ranges of x and y non-zero; numerical width/height tests not decided.",
          "DESIGN.md 3/C14")
    claim("C10", "other", "guard normalisation and implication (finite sign enumeration) on the exclusion masks / selection guards + normal-form equality of W, H + structural sweep rule",
          "Decides the structural part for all inputs: at both exclusion sites the kept points lie outside the selected knee's x band "
          "and y band; a candidate is selected only if it is at least H away in y from every selected knee; the final sweep visits x "
          "ascending and deletes exactly the knees higher than the running minimum; W = max(1, int(x_max*dx)), H = (y_max-y_min)*dy "
          "with the stated defaults; x values are mapped to indices by searchsorted on the x column. Termination, the iteration "
          "bound and x-separation among same-round candidates are not decided.",
          "Integer x, y in [0,1]; W, H >= 0.",
          "DESIGN.md 3/C10")

