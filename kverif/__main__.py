"""CLI:  python -m kverif check <ID> [--tier quick|thorough]
         python -m kverif replay <file>
         python -m kverif all [--tier ...]
"""

from __future__ import annotations

import argparse
import json
import os
import sys
import traceback

from . import AnalysisError
from . import rules


def _second_reading(prop, tier, seed, root, mod, ctx):
    """A shape that was not read (errors, no finding) is read once more on the helper-flattened program (kverif.flatten: an
    exact source-to-source normalisation that undoes 'extract helper' / 'wrapper + worker').  The second reading replaces
    the first only when it is complete and clean: every obligation discharged on a program that computes the same thing."""
    if not ctx.result.errors or ctx.result.findings or os.environ.get("KVERIF_NO_FLATTEN") == "1":
        return ctx
    from .engine import Context
    try:
        ctx2 = Context(prop, tier, seed, root, flatten=True)
        if not ctx2.flattened:
            return ctx
        from .rules import common as _common
        _common.STRICT_LOOPS, _common.FLATTENED = True, set(ctx2.flattened)
        _common.READ_LOOPS.clear()
        _common.ACCOUNTED.clear()
        _common.ACCOUNTED_RET.clear()
        _common.ACCOUNTED_LOOP.clear()
        _common.NORMAL_LOOPS.clear()
        mod.run(ctx2)
        if ctx2.thorough and hasattr(mod, "run_thorough"):
            mod.run_thorough(ctx2)
        if not ctx2.result.findings:
            _common.audit_early_exits(ctx2.result)
            _common.audit_return_forms(ctx2)
            _common.audit_loop_exits(ctx2.result)
    except AnalysisError as e:
        ctx.result.note(f"second reading (helper-flattened program) incomplete as well: {str(e)[:300]}")
        return ctx
    except Exception as e:
        ctx.result.note(f"second reading (helper-flattened program) failed: {type(e).__name__}: {str(e)[:200]}")
        if os.environ.get("KVERIF_DEBUG") == "1":
            traceback.print_exc(file=sys.stderr)
        return ctx
    if ctx2.result.errors:
        ctx.result.note("second reading (helper-flattened program) incomplete as well: " + " | ".join(e[:300] for e in ctx2.result.errors[:3]))
        return ctx
    from .report import load_known, match_known
    known = load_known()
    unlisted = [f for f in ctx2.result.findings if match_known(known, f) is None]
    if unlisted and os.environ.get("KVERIF_ADOPT_SECOND") != "1":
        # The rules were hardened against several hundred correct rewrites in the form people write code in; the flattened
        # form (loops of a worker inlined next to the caller's own) is outside that experience, and a rule that picks "the
        # loop" of a function may pick the wrong one there.  So the second reading may clear, it never accuses: what it
        # reports is recorded, the answer stays "not read".
        ctx.result.note("second reading (helper-flattened program) reports, not adopted: "
                        + " | ".join(f"[{f.rule}] {f.module}.{f.function}: {f.message[:160]}" for f in unlisted[:4]))
        return ctx
    ctx2.result.note("first reading incomplete (" + "; ".join(e[:160] for e in ctx.result.errors[:3]) + "); decided on the helper-flattened program: "
                     + "; ".join(f"{f} <- {', '.join(h)}" for f, h in sorted(ctx2.flattened.items())))
    ctx2.result.analysed["flattened"] = {f: h for f, h in sorted(ctx2.flattened.items())}
    return ctx2


def run_check(prop: str, tier: str, seed: int, root=None) -> int:
    from .engine import Context
    from .report import Result
    prop = prop.upper()
    if prop not in rules.PROPERTIES:
        print(f"ANALYSIS-ERROR property={prop} no check is registered for this property")
        return 2
    try:
        ctx = Context(prop, tier, seed, root)
    except AnalysisError as e:
        r = Result(prop, tier, seed)
        r.error(str(e))
        return r.finish()
    except Exception as e:  # never let a traceback look like a violation
        r = Result(prop, tier, seed)
        r.error(f"internal error while loading the repository: {type(e).__name__}: {e}")
        traceback.print_exc(file=sys.stderr)
        return r.finish()
    try:
        mod = rules.load(prop)
        from .rules import common as _common
        _common.READ_LOOPS.clear()
        _common.ACCOUNTED.clear()
        _common.ACCOUNTED_RET.clear()
        _common.ACCOUNTED_LOOP.clear()
        _common.NORMAL_LOOPS.clear()
        try:
            mod.run(ctx)
            if ctx.thorough and hasattr(mod, "run_thorough"):
                mod.run_thorough(ctx)
        except AnalysisError as e:
            ctx.result.error(str(e))
        if not ctx.result.findings:
            _common.audit_early_exits(ctx.result)
            _common.audit_return_forms(ctx)
            _common.audit_loop_exits(ctx.result)
        ctx = _second_reading(prop, tier, seed, root, mod, ctx)
        from .report import load_known, match_known
        _known = load_known()
        _unlisted = [f for f in ctx.result.findings if match_known(_known, f) is None]
        if ctx.thorough and not _unlisted and not ctx.result.errors and os.environ.get("KVERIF_NO_SELFTEST") != "1":
            from .selftest import run_selftest
            run_selftest(ctx)
    except AnalysisError as e:
        ctx.result.error(str(e))
    except Exception as e:
        ctx.result.error(f"internal error: {type(e).__name__}: {e}")
        traceback.print_exc(file=sys.stderr)
    return ctx.result.finish()


def main(argv=None) -> int:
    ap = argparse.ArgumentParser(prog="kverif")
    sub = ap.add_subparsers(dest="cmd", required=True)
    c = sub.add_parser("check")
    c.add_argument("prop")
    c.add_argument("--tier", default=os.environ.get("VERIF_TIER", "quick"), choices=["quick", "thorough"])
    c.add_argument("--repo", default=None)
    a = sub.add_parser("all")
    a.add_argument("--tier", default="quick", choices=["quick", "thorough"])
    a.add_argument("--repo", default=None)
    r = sub.add_parser("replay")
    r.add_argument("path")
    args = ap.parse_args(argv)
    try:
        seed = int(os.environ.get("VERIF_SEED", "0"))
    except ValueError:
        seed = 0
    if args.cmd == "check":
        return run_check(args.prop, args.tier, seed, args.repo)
    if args.cmd == "all":
        worst = 0
        for p in rules.PROPERTIES:
            worst = max(worst, run_check(p, args.tier, seed, args.repo))
        return worst
    if args.cmd == "replay":
        with open(args.path) as fh:
            d = json.load(fh)
        f = d["finding"]
        print(f"replaying {f['property']} {f['rule']} at {f['module']}.{f['function']}: {f['construct']}")
        return run_check(f["property"], d.get("tier", "quick"), seed)
    return 2


if __name__ == "__main__":
    try:
        code = main()
    except SystemExit:
        raise
    except Exception as e:
        print(f"ANALYSIS-ERROR internal: {type(e).__name__}: {e}")
        traceback.print_exc(file=sys.stderr)
        code = 2
    sys.stdout.flush()
    sys.exit(code)
