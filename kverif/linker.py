"""E1 -- resolver / linker.

Resolves every name, every attribute chain rooted in an import and every call
signature inside the package against (a) the package's own source and (b) the
installed dependencies.  Function values flowing into parameters (the
function-pointer slots ``get_knee``, ``distance_points``, ``clustering``) are
tracked through the whole package so that calls through those slots are
arity-checked against every function that can arrive there.
"""

from __future__ import annotations

import ast
import enum as _enum
from dataclasses import dataclass
from typing import Dict, List, Optional, Set, Tuple

from . import AnalysisError
from . import deps
from .cfg import CFG
from .dataflow import DefiniteAssignment, ReachingDefs
from .model import PKG, FuncInfo, ClassInfo, Module, Repo, Scope, norm_text


# --------------------------------------------------------------------------
# resolutions
# --------------------------------------------------------------------------

@dataclass
class Res:
    kind: str               # func | class | enum_member | module | dep | local | global | builtin | unknown | error
    obj: object = None      # FuncInfo | ClassInfo | Module | dependency object | name
    extra: object = None
    msg: str = ""
    at: object = None       # AST node where an error was found


UNKNOWN = Res("unknown")

# local receiver types the linker knows how to check
_NP_TYPES: Dict[str, type] = {}


def _np():
    return deps.import_dep("numpy")


def _ndarray_returning():
    np = _np()
    names = ["array", "zeros", "empty", "ones", "full", "arange", "concatenate", "unique", "column_stack",
             "hstack", "vstack", "append", "delete", "argsort", "argwhere", "diff", "square", "sqrt", "abs",
             "absolute", "fabs", "zeros_like", "empty_like", "ones_like", "asarray", "cumsum", "linspace",
             "maximum", "minimum", "power", "log", "transpose", "flip", "sort", "copy", "atleast_1d",
             "atleast_2d", "hypot", "divide", "searchsorted", "clip"]
    return {id(getattr(np, n)): n for n in names if hasattr(np, n)}


class Linker:
    def __init__(self, repo: Repo):
        self.repo = repo
        self._res_cache: Dict[int, Res] = {}
        self.stats = {"names": 0, "attributes": 0, "calls_checked": 0, "calls_intra": 0, "calls_dep": 0,
                      "calls_slot": 0, "unresolved_receivers": 0, "receivers_typed": 0, "functions": 0}
        self.unresolved_sites: List[str] = []
        self.flows: Dict[Tuple[str, str], Set[str]] = {}   # (func qualname, param) -> set of func qualnames
        self._rd_cache: Dict[int, ReachingDefs] = {}
        self._ndret = None
        self._compute_flows()

    # ------------------------------------------------------------------
    # resolution
    # ------------------------------------------------------------------
    def module_by_fullname(self, full: str) -> Optional[Module]:
        return self.repo.modules.get(full)

    def _resolve_import(self, rec) -> Res:
        if rec[0] == "module":
            full = rec[1]
            m = self.module_by_fullname(full)
            if m is not None:
                return Res("module", m)
            if full == PKG or full.startswith(PKG + "."):
                return Res("error", msg=f"No module named '{full}'", extra="ModuleNotFoundError")
            try:
                return Res("dep", deps.import_dep(full))
            except deps.DepError as e:
                return Res("error", msg=str(e), extra="ModuleNotFoundError")
        else:
            _k, modname, name = rec
            m = self.module_by_fullname(modname)
            if m is not None:
                r = self._resolve_in_module(m, name)
                if r.kind == "error":
                    sub = self.module_by_fullname(f"{modname}.{name}")
                    if sub is not None:
                        return Res("module", sub)
                    return Res("error", msg=f"cannot import name '{name}' from '{modname}'", extra="ImportError")
                return r
            if modname == PKG or modname.startswith(PKG + "."):
                return Res("error", msg=f"No module named '{modname}'", extra="ModuleNotFoundError")
            try:
                mo = deps.import_dep(modname)
            except deps.DepError as e:
                return Res("error", msg=str(e), extra="ModuleNotFoundError")
            if hasattr(mo, name):
                return Res("dep", getattr(mo, name))
            try:
                return Res("dep", deps.import_dep(f"{modname}.{name}"))
            except deps.DepError:
                return Res("error", msg=f"cannot import name '{name}' from '{modname}'", extra="ImportError")

    def _resolve_in_module(self, m: Module, name: str) -> Res:
        if name in m.functions:
            # a later top-level rebinding of the same name would make this wrong; the
            # package has none (checked: function names are bound once)
            return Res("func", m.functions[name])
        if name in m.classes:
            return Res("class", m.classes[name])
        if name in m.top.imports:
            return self._resolve_import(m.top.imports[name])
        if name in m.top.bound:
            return Res("global", name, m)
        return Res("error", msg=f"module '{m.fullname}' has no attribute '{name}'", extra="AttributeError")

    def resolve(self, mod: Module, node) -> Res:
        k = id(node)
        if k in self._res_cache:
            return self._res_cache[k]
        r = self._resolve(mod, node)
        self._res_cache[k] = r
        return r

    def _resolve(self, mod: Module, node) -> Res:
        if isinstance(node, ast.Name):
            sc = mod.node_scope.get(id(node))
            if sc is None:
                return UNKNOWN
            r = sc.lookup(node.id)
            if r is None:
                return Res("error", msg=f"name '{node.id}' is not defined", extra="NameError", at=node)
            kind, where = r
            if kind == "builtin":
                import builtins
                return Res("dep", getattr(builtins, node.id))
            if node.id in where.imports and self._only_import_binding(where, node.id):
                rr = self._resolve_import(where.imports[node.id])
                if rr.kind == "error":
                    return Res("error", msg=rr.msg, extra=rr.extra, at=node)
                return rr
            if where.kind == "module":
                m = where.module
                if node.id in m.functions:
                    return Res("func", m.functions[node.id])
                if node.id in m.classes:
                    return Res("class", m.classes[node.id])
                return Res("global", node.id, m)
            if where.kind == "class":
                return Res("global", node.id, where)
            return Res("local", node.id, where)
        if isinstance(node, ast.Attribute):
            base = self.resolve(mod, node.value)
            return self._resolve_attr(mod, base, node)
        if isinstance(node, ast.Call):
            # result of a call: a few dependency idioms (np.finfo(float).eps)
            f = self.resolve(mod, node.func)
            if f.kind == "dep" and f.obj is not None:
                np = _np()
                if f.obj is getattr(np, "finfo", None):
                    try:
                        return Res("dep", np.finfo(float))
                    except Exception:
                        return UNKNOWN
            return UNKNOWN
        return UNKNOWN

    def _only_import_binding(self, scope: Scope, name: str) -> bool:
        # the name is bound by import in this scope; make sure nothing else in the
        # same scope rebinds it (otherwise treat as a plain variable)
        cache = getattr(scope, "_store_names", None)
        if cache is None:
            cache = set()
            ns = scope.module.node_scope
            for st in ast.walk(scope.node):
                if isinstance(st, ast.Name) and isinstance(st.ctx, ast.Store) and ns.get(id(st)) is scope:
                    cache.add(st.id)
                elif isinstance(st, (ast.FunctionDef, ast.ClassDef)) and st is not scope.node and ns.get(id(st)) is scope:
                    cache.add(st.name)
            scope._store_names = cache
        return name not in cache

    def _resolve_attr(self, mod: Module, base: Res, node: ast.Attribute) -> Res:
        a = node.attr
        if base.kind == "error":
            return base
        if base.kind == "module":
            m: Module = base.obj
            if a in m.top.bound or a in m.functions or a in m.classes:
                return self._resolve_in_module(m, a)
            sub = self.module_by_fullname(f"{m.fullname}.{a}")
            if sub is not None and self._submodule_imported_somewhere(sub.fullname):
                return Res("module", sub)
            if a.startswith("__") and a.endswith("__"):
                return UNKNOWN
            return Res("error", msg=f"module '{m.fullname}' has no attribute '{a}'", extra="AttributeError", at=node)
        if base.kind == "class":
            c: ClassInfo = base.obj
            if a in c.enum_members and c.is_enum:
                return Res("enum_member", c, a)
            if a in c.members:
                return UNKNOWN
            if c.is_enum and hasattr(_enum.Enum, a):
                return UNKNOWN
            if hasattr(object, a):
                return UNKNOWN
            return Res("error", msg=f"type object '{c.name}' has no attribute '{a}'", extra="AttributeError", at=node)
        if base.kind == "enum_member":
            c: ClassInfo = base.obj
            if a in ("name", "value") or a in c.members or hasattr(_enum.Enum, a):
                return UNKNOWN
            return Res("error", msg=f"'{c.name}' object has no attribute '{a}'", extra="AttributeError", at=node)
        if base.kind == "dep":
            if base.obj is None:
                return UNKNOWN
            ok, obj, missing = deps.resolve_chain(base.obj, [a])
            if not ok:
                nm = getattr(base.obj, "__name__", type(base.obj).__name__)
                return Res("error", msg=f"'{nm}' has no attribute '{a}' in the installed dependency", extra="AttributeError", at=node)
            return Res("dep", obj)
        return UNKNOWN

    def _submodule_imported_somewhere(self, full: str) -> bool:
        for m in self.repo.modules.values():
            for sc in [m.top] + list(m.scopes.values()):
                for rec in sc.imports.values():
                    if rec[0] == "module" and rec[1] == full:
                        return True
            if full in m.dotted_imports:
                return True
        return True  # a package sub-module that exists on disk is importable

    # ------------------------------------------------------------------
    # function-value flow into parameters (function-pointer slots)
    # ------------------------------------------------------------------
    def _func_values_of_expr(self, mod: Module, expr, depth=0) -> Set[str]:
        """Set of package functions an expression may evaluate to."""
        out: Set[str] = set()
        if expr is None or depth > 4:
            return out
        r = self.resolve(mod, expr) if isinstance(expr, (ast.Name, ast.Attribute)) else UNKNOWN
        if r.kind == "func":
            out.add(r.obj.qualname)
            return out
        if isinstance(expr, ast.Name) and r.kind == "local":
            fscope: Scope = r.extra
            if expr.id in fscope.params:
                fn = fscope.node
                if isinstance(fn, ast.FunctionDef):
                    fi = self._funcinfo_of_node(mod, fn)
                    if fi is not None:
                        out |= self.flows.get((fi.qualname, expr.id), set())
            # assignments to the local anywhere in the function (flow-insensitive)
            for st in ast.walk(fscope.node):
                if isinstance(st, ast.Assign):
                    for t in st.targets:
                        if isinstance(t, ast.Name) and t.id == expr.id and mod.node_scope.get(id(t)) is fscope:
                            out |= self._func_values_of_expr(mod, st.value, depth + 1)
        if isinstance(expr, ast.IfExp):
            out |= self._func_values_of_expr(mod, expr.body, depth + 1)
            out |= self._func_values_of_expr(mod, expr.orelse, depth + 1)
        return out

    def _funcinfo_of_node(self, mod: Module, fn) -> Optional[FuncInfo]:
        for fi in mod.all_functions:
            if fi.node is fn:
                return fi
        return None

    def _all_modules(self) -> List[Module]:
        return list(self.repo.modules.values()) + list(self.repo.clients.values())

    def _compute_flows(self):
        changed = True
        rounds = 0
        while changed and rounds < 10:
            changed = False
            rounds += 1
            for mod in self._all_modules():
                for call in [n for n in ast.walk(mod.tree) if isinstance(n, ast.Call)]:
                    try:
                        r = self.resolve(mod, call.func)
                    except deps.DepError:
                        continue
                    if r.kind != "func":
                        continue
                    fi: FuncInfo = r.obj
                    sig = fi.signature
                    pos = sig.positional
                    for i, a in enumerate(call.args):
                        if isinstance(a, ast.Starred) or i >= len(pos):
                            break
                        vals = self._func_values_of_expr(mod, a)
                        if vals:
                            cur = self.flows.setdefault((fi.qualname, pos[i]), set())
                            if not vals <= cur:
                                cur |= vals
                                changed = True
                    for kw in call.keywords:
                        if kw.arg is None:
                            continue
                        vals = self._func_values_of_expr(mod, kw.value)
                        if vals:
                            cur = self.flows.setdefault((fi.qualname, kw.arg), set())
                            if not vals <= cur:
                                cur |= vals
                                changed = True

    # ------------------------------------------------------------------
    # local receiver types
    # ------------------------------------------------------------------
    def rd(self, mod: Module, fnode) -> ReachingDefs:
        k = id(fnode)
        if k not in self._rd_cache:
            self._rd_cache[k] = ReachingDefs(mod, fnode)
        return self._rd_cache[k]

    def _annotation_type(self, ann: Optional[str]):
        np = _np()
        if ann is None:
            return None
        if ann in ("np.ndarray", "numpy.ndarray"):
            return np.ndarray
        if ann == "list":
            return list
        if ann == "dict":
            return dict
        if ann == "tuple":
            return tuple
        return None

    def expr_type(self, mod: Module, fnode, expr, depth=0):
        """A conservative type for an expression: a Python type object, or None."""
        np = _np()
        if depth > 6:
            return None
        if isinstance(expr, (ast.List, ast.ListComp)):
            return list
        if isinstance(expr, (ast.Dict, ast.DictComp)):
            return dict
        if isinstance(expr, ast.Tuple):
            return tuple
        if isinstance(expr, (ast.Set, ast.SetComp)):
            return set
        if isinstance(expr, ast.JoinedStr):
            return str
        if isinstance(expr, ast.Constant):
            return type(expr.value) if expr.value is not None else None
        if isinstance(expr, ast.Call):
            r = self.resolve(mod, expr.func)
            if r.kind == "dep" and r.obj is not None:
                if self._ndret is None:
                    self._ndret = _ndarray_returning()
                if id(r.obj) in self._ndret:
                    return np.ndarray
                if r.obj in (list, dict, tuple, set, str, int, float, sorted):
                    return list if r.obj is sorted else r.obj
            if isinstance(expr.func, ast.Attribute):
                bt = self.expr_type(mod, fnode, expr.func.value, depth + 1)
                if bt is np.ndarray and expr.func.attr in ("astype", "flatten", "copy", "reshape", "ravel", "argsort",
                                                            "cumsum", "transpose", "clip", "round"):
                    return np.ndarray
            return None
        if isinstance(expr, ast.BinOp):
            lt = self.expr_type(mod, fnode, expr.left, depth + 1)
            rt = self.expr_type(mod, fnode, expr.right, depth + 1)
            if lt is np.ndarray or rt is np.ndarray:
                return np.ndarray
            return None
        if isinstance(expr, ast.Subscript):
            bt = self.expr_type(mod, fnode, expr.value, depth + 1)
            if bt is np.ndarray:
                sl = expr.slice
                if isinstance(sl, ast.Slice):
                    return np.ndarray
                if isinstance(sl, ast.Tuple) and any(isinstance(e, ast.Slice) for e in sl.elts):
                    return np.ndarray
                if isinstance(sl, (ast.Compare, ast.List)):
                    return np.ndarray
            if bt is list and isinstance(expr.slice, ast.Slice):
                return list
            return None
        if isinstance(expr, ast.Name):
            r = self.resolve(mod, expr)
            if r.kind != "local" or fnode is None:
                return None
            fscope: Scope = r.extra
            if fscope.node is not fnode or not isinstance(fnode, ast.FunctionDef):
                return None
            rd = self.rd(mod, fnode)
            defs = rd.defs_of_use(expr)
            if not defs:
                return None
            types = set()
            fi = self._funcinfo_of_node(mod, fnode)
            for d in defs:
                if d is None:
                    t = self._annotation_type(fi.param_annotation(expr.id)) if fi else None
                    types.add(t)
                else:
                    dnode, stmt = d
                    st = stmt.ast
                    if isinstance(st, ast.Assign) and len(st.targets) == 1 and st.targets[0] is dnode:
                        types.add(self.expr_type(mod, fnode, st.value, depth + 1))
                    else:
                        types.add(None)
            if len(types) == 1:
                return next(iter(types))
            return None
        return None

    # ------------------------------------------------------------------
    # the checks
    # ------------------------------------------------------------------
    def check_module(self, mod: Module, on_error, on_ok):
        """Walk one module; call on_error(rule, fname, node, msg, extracted, expected)
        for each definite failure and on_ok(rule, site) for each resolved site."""
        tree = mod.tree
        # 1. names and attribute chains
        for node in ast.walk(tree):
            if isinstance(node, ast.Name) and isinstance(node.ctx, ast.Load):
                self.stats["names"] += 1
                try:
                    r = self.resolve(mod, node)
                except deps.DepError as e:
                    r = Res("error", msg=str(e), extra="ModuleNotFoundError", at=node)
                if r.kind == "error" and (r.at is node or r.at is None):
                    fname = mod.enclosing_function_name(node)
                    on_error("N-name" if r.extra == "NameError" else "N-import", fname, node, f"{r.extra}: {r.msg}",
                             node.id, "a binding in the enclosing scopes, the module or builtins")
                else:
                    on_ok("N-name", f"{mod.short}:{node.id}")
            elif isinstance(node, ast.Attribute):
                self.stats["attributes"] += 1
                r = self.resolve(mod, node)
                if r.kind == "error" and r.at is node:
                    fname = mod.enclosing_function_name(node)
                    on_error("N-attr", fname, node, f"{r.extra}: {r.msg}", norm_text(node),
                             "an attribute present in the package source / installed dependency")
                elif r.kind != "unknown" or self.resolve(mod, node.value).kind in ("module", "class", "enum_member", "dep"):
                    on_ok("N-attr", f"{mod.short}:{norm_text(node)}")
        # 2. receiver-typed attributes on locals
        for fi in mod.all_functions:
            for node in ast.walk(fi.node):
                if isinstance(node, ast.Attribute) and isinstance(node.ctx, ast.Load):
                    base = node.value
                    if self.resolve(mod, base).kind in ("module", "class", "enum_member", "dep", "error", "func"):
                        continue
                    encl = mod.scope_of(node).enclosing_function()
                    if encl is None or encl.node is not fi.node:
                        continue
                    t = self.expr_type(mod, fi.node, base)
                    if t is None:
                        self.stats["unresolved_receivers"] += 1
                        if len(self.unresolved_sites) < 400:
                            self.unresolved_sites.append(f"{mod.relpath}:{node.lineno} {norm_text(node)}")
                        continue
                    self.stats["receivers_typed"] += 1
                    if not hasattr(t, node.attr):
                        on_error("N-attr-local", fi.name if not fi.cls else f"{fi.cls}.{fi.name}", node,
                                 f"AttributeError: '{t.__name__}' object has no attribute '{node.attr}'",
                                 f"{norm_text(base)} : {t.__name__}", f"an attribute of {t.__name__}")
                    else:
                        on_ok("N-attr-local", f"{fi.qualname}:{norm_text(node)}")
        # 3. call signatures
        for node in ast.walk(tree):
            if isinstance(node, ast.Call):
                self._check_call(mod, node, on_error, on_ok)

    def _call_shape(self, call: ast.Call):
        npos = 0
        star = False
        for a in call.args:
            if isinstance(a, ast.Starred):
                star = True
            else:
                npos += 1
        kws = [k.arg for k in call.keywords if k.arg is not None]
        dstar = any(k.arg is None for k in call.keywords)
        return npos, kws, star, dstar

    def _check_call(self, mod: Module, call: ast.Call, on_error, on_ok):
        fname = mod.enclosing_function_name(call)
        npos, kws, star, dstar = self._call_shape(call)
        r = self.resolve(mod, call.func)
        targets: List[Tuple[str, FuncInfo]] = []
        if r.kind == "func":
            targets.append(("direct", r.obj))
            self.stats["calls_intra"] += 1
        elif r.kind == "dep":
            if r.obj is not None and callable(r.obj):
                self.stats["calls_dep"] += 1
                msg = deps.check_call(r.obj, npos, kws, star, dstar)
                if msg:
                    on_error("N-arity-dep", fname, call, f"TypeError: {norm_text(call.func)}(): {msg}",
                             f"{npos} positional, keywords {kws}", "a call shape the installed callable accepts")
                else:
                    on_ok("N-arity-dep", f"{mod.short}.{fname}:{norm_text(call.func)}")
            return
        elif r.kind == "local" and isinstance(call.func, ast.Name):
            vals = self._func_values_of_expr(mod, call.func)
            for q in sorted(vals):
                m, f = q.split(".", 1)
                try:
                    targets.append(("slot", self.repo.mod(m).functions[f]))
                except (AnalysisError, KeyError):
                    pass
            if targets:
                self.stats["calls_slot"] += 1
        elif isinstance(call.func, ast.Subscript):
            # dict-display dispatch table: methods[cost](pt, coef)
            base = call.func.value
            if isinstance(base, ast.Name):
                rr = self.resolve(mod, base)
                if rr.kind == "local":
                    fscope: Scope = rr.extra
                    for st in ast.walk(fscope.node):
                        if isinstance(st, ast.Assign) and len(st.targets) == 1 and isinstance(st.targets[0], ast.Name) \
                                and st.targets[0].id == base.id and isinstance(st.value, ast.Dict):
                            for v in st.value.values:
                                rv = self.resolve(mod, v) if isinstance(v, (ast.Name, ast.Attribute)) else UNKNOWN
                                if rv.kind == "func":
                                    targets.append(("table", rv.obj))
        for how, fi in targets:
            self.stats["calls_checked"] += 1
            decos = [norm_text(d) for d in fi.node.decorator_list]
            if any(not d.startswith("jit") for d in decos):
                continue  # unknown decorator: signature not trusted
            msg = fi.signature.check_call(npos, kws, star, dstar)
            if msg:
                on_error("N-arity", fname, call,
                         f"TypeError: {fi.qualname}() {msg}" + (f" (callee arrives through {how})" if how != "direct" else ""),
                         f"{npos} positional, keywords {kws}", f"a call shape matching def {fi.name}({', '.join(fi.signature.positional)})",
                         construct=f"{fi.qualname}/{npos} positional/{sorted(kws)}")
            else:
                on_ok("N-arity", f"{mod.short}.{fname}:{norm_text(call.func)}->{fi.qualname}")


# --------------------------------------------------------------------------
# E2 front-end with the correlated-guard idiom
# --------------------------------------------------------------------------

def _enclosing_if_tests(mod: Module, node, func_node) -> Set[Tuple[str, bool]]:
    """(normalised test text, polarity) of every `if` whose true branch (polarity True) or else branch
    (polarity False) contains `node`; a leading `not` is folded into the polarity."""
    out = set()

    def add(t, pol):
        while isinstance(t, ast.UnaryOp) and isinstance(t.op, ast.Not):
            t = t.operand
            pol = not pol
        if isinstance(t, ast.BoolOp) and ((isinstance(t.op, ast.And) and pol) or (isinstance(t.op, ast.Or) and not pol)):
            # `a and b` holding means both hold; `a or b` failing means both fail
            for v in t.values:
                add(v, pol)
            return
        out.add((norm_text(t), pol))
    cur = node
    parent = mod.parent(cur)
    while parent is not None and cur is not func_node:
        if isinstance(parent, ast.If):
            pol = None
            if any(cur is s for s in parent.body):
                pol = True
            elif any(cur is s for s in parent.orelse):
                pol = False
            if pol is not None:
                add(parent.test, pol)
        elif isinstance(parent, ast.IfExp):
            if cur is parent.body:
                add(parent.test, True)
            elif cur is parent.orelse:
                add(parent.test, False)
        elif isinstance(parent, ast.BoolOp):
            # short circuit: a later operand of `and` is evaluated only when the earlier ones held (of `or`: failed)
            k = next((i for i, v in enumerate(parent.values) if v is cur), None)
            if k:
                for v in parent.values[:k]:
                    add(v, isinstance(parent.op, ast.And))
        cur = parent
        parent = mod.parent(cur)
    return out


def definite_assignment_findings(mod: Module, fi: FuncInfo):
    """Yields (name, use node, accepted_by_idiom: Optional[str])."""
    da = DefiniteAssignment(mod, fi.node)
    results = []
    for (name, use, _n) in da.unassigned_uses:
        # idiom (i): defined and used under the syntactically same guard whose operands are never re-bound
        use_tests = _enclosing_if_tests(mod, use, fi.node)
        def_nodes = [n for n in ast.walk(fi.node)
                     if isinstance(n, ast.Name) and isinstance(n.ctx, ast.Store) and n.id == name
                     and mod.node_scope.get(id(n)) is fi.scope]
        idiom = None
        if def_nodes and use_tests:
            common = set(use_tests)
            for d in def_nodes:
                common &= _enclosing_if_tests(mod, d, fi.node)
            for (t, _pol) in sorted(common):
                try:
                    names = {n.id for n in ast.walk(ast.parse(t, mode="eval")) if isinstance(n, ast.Name)}
                except SyntaxError:
                    continue
                rebound = False
                stores = [n for n in ast.walk(fi.node) if isinstance(n, ast.Name) and isinstance(n.ctx, (ast.Store, ast.Del)) and n.id in names]
                if stores:
                    # a guard operand bound exactly once, by a top-level statement of the function that precedes every
                    # definition and the use, is a constant for the rest of the call (e.g. `use_hull = method is X`)
                    top = {}
                    for k_, st_ in enumerate(fi.node.body):
                        for sub in ast.walk(st_):
                            top[id(sub)] = k_
                    per_name = {}
                    for n in stores:
                        per_name.setdefault(n.id, []).append(n)
                    first_site = min([top.get(id(use), -1)] + [top.get(id(d), -1) for d in def_nodes])
                    for nm_, ns in per_name.items():
                        st_k = top.get(id(ns[0]), None)
                        single_top = (len(ns) == 1 and isinstance(ns[0].ctx, ast.Store) and st_k is not None
                                      and isinstance(fi.node.body[st_k], ast.Assign) and ns[0] in fi.node.body[st_k].targets
                                      and st_k < first_site)
                        if not single_top:
                            rebound = True
                if not rebound:
                    idiom = t
                    break
        results.append((name, use, idiom))
    return results
