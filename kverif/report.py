"""Findings, obligations, known-findings matching, evidence files."""

from __future__ import annotations

import json
import os
import time
from dataclasses import dataclass, field, asdict
from typing import Any, Dict, List, Optional

from . import VERIF_ROOT
from .model import norm_text

EVIDENCE_DIR = os.environ.get("KVERIF_EVIDENCE_DIR") or os.path.join(VERIF_ROOT, "evidence")
REPLAY_DIR = os.path.join(EVIDENCE_DIR, "replay")
KNOWN_FILE = os.path.join(VERIF_ROOT, "known_findings.json")


@dataclass
class Finding:
    property: str
    rule: str
    module: str
    function: str
    construct: str          # normalised construct text -- the key, never a line number
    message: str
    file: str = ""
    line: int = 0
    extracted: str = ""
    expected: str = ""

    def key(self):
        return (self.property, self.rule, self.module, self.function, self.construct)

    def human(self) -> str:
        s = f"{self.file}:{self.line} {self.module}.{self.function} [{self.rule}] {self.message}"
        if self.extracted or self.expected:
            s += f" | found: {self.extracted or '-'} | required: {self.expected or '-'}"
        return s


@dataclass
class Obligation:
    rule: str
    site: str               # module.function[:construct]
    ok: bool
    detail: str = ""
    where: str = ""         # file:line (informational)


OPAQUE_FALLBACKS: set = set()          # filled by the evaluator: private package helpers whose body it could not read where they were called
UNKNOWN_CALLABLES: set = set()        # filled by the evaluator: locals called as functions whose value is not a known function


def uninterpreted(text: str) -> str:
    """What in the text of an extracted value is a placeholder of the evaluator (empty when nothing is)."""
    if not text:
        return ""
    import re
    if "comp()" in text:
        return "an unsummarised comprehension (comp())"
    for m in re.finditer(r"slot:[A-Za-z_][A-Za-z_0-9]*", text):
        if m.group(0) in UNKNOWN_CALLABLES:
            return f"a call through a local function value of unknown origin ({m.group(0)})"
    for m in re.finditer(r"call:[A-Za-z_][A-Za-z_0-9.]*", text):
        if m.group(0) in OPAQUE_FALLBACKS:
            return f"the result of a private helper whose body could not be read at this call ({m.group(0)})"
    if "dep:builtins.next" in text or "py.next" in text:
        return "a generator consumed with next()"
    return ""


class Result:
    """Collects what one check run analysed and concluded."""

    def __init__(self, prop: str, tier: str, seed: int):
        self.prop = prop
        self.tier = tier
        self.seed = seed
        self.t0 = time.time()
        self.obligations: List[Obligation] = []
        self.findings: List[Finding] = []
        self.notes: List[str] = []
        self.samples: List[Any] = []
        self.analysed: Dict[str, Any] = {}
        self.assumptions: List[str] = []
        self.errors: List[str] = []      # analysis errors (exit 2)
        self.rules_applied: Dict[str, str] = {}   # rule id -> one-line statement
        self.not_decided: List[str] = []
        self.level = "other"
        self.extra_coverage: Dict[str, Any] = {}

    # recording ----------------------------------------------------------------
    def rule(self, rid: str, text: str):
        self.rules_applied[rid] = text

    def ok(self, rule: str, site: str, detail: str = "", where: str = ""):
        self.obligations.append(Obligation(rule, site, True, detail, where))

    def fail(self, finding: Finding):
        self.obligations.append(Obligation(finding.rule, f"{finding.module}.{finding.function}", False,
                                           finding.message, f"{finding.file}:{finding.line}"))
        self.findings.append(finding)

    def violation(self, rule: str, mod, fname: str, node, message: str, extracted: str = "", expected: str = "",
                  construct: Optional[str] = None):
        """Convenience: build a Finding from a module + AST node.

        A violation has to rest on a value the analysis actually read.  When the extracted value still contains parts the evaluator
        did not interpret - an unsummarised comprehension `comp()`, an opaque object `obj()`, a callable that is not one of the
        declared function-pointer slots (a functools.partial, a function passed in as an argument, the result of a dispatch
        table), a value left behind by a loop that could not be summarised - the comparison that produced it compared against a
        placeholder: that is "not read" (exit 2), not a contradiction."""
        why = uninterpreted(extracted)
        if why:
            self.error(f"INCONCLUSIVE {rule} {mod.short}.{fname}: the value the rule read contains {why}; the comparison is not decided ({message[:140]})")
            return None
        f = Finding(self.prop, rule, mod.short, fname,
                    norm_text(construct if construct is not None else node), message,
                    mod.relpath, getattr(node, "lineno", 0) if node is not None else 0, extracted, expected)
        self.fail(f)
        return f

    def error(self, msg: str):
        self.errors.append(msg)

    def note(self, msg: str):
        self.notes.append(msg)

    def sample(self, s):
        if len(self.samples) < 40:
            self.samples.append(s)

    def require_instances(self, rule: str, found: int, floor: int):
        """A rule that matches fewer sites than were confirmed by hand passes
        vacuously -- treat that as an analysis error."""
        if found < floor and not self.findings:
            self.error(f"rule {rule}: matched {found} instance(s), frozen floor is {floor} -- the anchored code no longer has a recognised shape")

    # finishing ----------------------------------------------------------------
    def finish(self) -> int:
        known = load_known()
        os.makedirs(REPLAY_DIR, exist_ok=True)
        # clean stale replay files of this property
        for fn in os.listdir(REPLAY_DIR):
            if fn.startswith(self.prop + "-"):
                try:
                    os.remove(os.path.join(REPLAY_DIR, fn))
                except OSError:
                    pass
        lines = []
        n_viol = 0
        n_known = 0
        seen = set()
        for f in self.findings:
            if f.key() in seen:
                continue
            seen.add(f.key())
            kf = match_known(known, f)
            if kf is not None:
                n_known += 1
                lines.append(f"KNOWN-FINDING: property={f.property} {f.rule} {f.module}.{f.function}: {kf.get('what', f.message)}")
                continue
            n_viol += 1
            path = os.path.join(REPLAY_DIR, f"{self.prop}-{n_viol}.json")
            with open(path, "w") as fh:
                json.dump({"finding": asdict(f), "tier": self.tier,
                           "replay": f"/venv/bin/python -m kverif check {self.prop} --tier {self.tier}"}, fh, indent=1)
            lines.append(f.human())
            lines.append(f"VIOLATION property={f.property} replay={path}")
        code = 0
        if self.errors:
            for e in self.errors:
                lines.append(f"ANALYSIS-ERROR property={self.prop} {e}")
            for n_ in self.notes:
                if n_.startswith("second reading"):
                    lines.append(f"NOTE property={self.prop} {n_[:700]}")
            code = 2
        if n_viol:
            code = 1
        self.write_evidence(n_viol, n_known)
        for l in lines:
            print(l)
        nob = len(self.obligations)
        nok = sum(1 for o in self.obligations if o.ok)
        print(f"[{self.prop}] tier={self.tier} obligations={nob} discharged={nok} violations={n_viol} known={n_known} "
              f"errors={len(self.errors)} wall={time.time() - self.t0:.2f}s")
        return code

    def write_evidence(self, n_viol: int, n_known: int):
        os.makedirs(EVIDENCE_DIR, exist_ok=True)
        nob = len(self.obligations)
        nok = sum(1 for o in self.obligations if o.ok)
        sites = sorted({o.site for o in self.obligations})
        by_rule: Dict[str, Dict[str, int]] = {}
        for o in self.obligations:
            d = by_rule.setdefault(o.rule, {"instances": 0, "discharged": 0})
            d["instances"] += 1
            d["discharged"] += 1 if o.ok else 0
        explanation = (
            f"Static analysis of the current working tree ({self.analysed.get('repo', '?')}, digest "
            f"{self.analysed.get('digest', '?')}): {nob} rule instances (obligations) extracted from the source "
            f"and decided without executing kneeliverse; {nok} hold, {n_viol} reported as violations, "
            f"{n_known} match known findings. "
            + ("Not decided by this check: " + "; ".join(self.not_decided) + "." if self.not_decided else "")
        )
        cov = {
            "explanation": explanation,
            "obligations": nob,
            "discharged": nok,
            "evaluations": max(nob, 1),
            "distinct_nontrivial": max(len({(o.rule, o.site, o.detail) for o in self.obligations}), 2),
            "rule": "one obligation per (rule, construct) instance found in the source; distinct = distinct (rule, site, extracted fact)",
            "rules": self.rules_applied,
            "instances_by_rule": by_rule,
            "sites": sites[:200],
            "samples": self.samples[:40] or [asdict(o) for o in self.obligations[:10]] or ["<none>"],
            "analysed": self.analysed,
            "not_decided": self.not_decided,
            "notes": self.notes[:60],
            "obligation_list": [asdict(o) for o in self.obligations[:400]],
            "checker_cmd": f"/venv/bin/python -m kverif check {self.prop} --tier {self.tier}",
            "trusted_base": ["CPython ast module", "kverif engines (model, linker, cfg, dataflow, gvn, anf)",
                             "documented semantics of the numpy/uts/math functions named in kverif tables"],
            "exhaustive": False,
        }
        cov.update(self.extra_coverage)
        ev = {
            "property_id": self.prop,
            "tier": self.tier,
            "seed": self.seed,
            "level": self.level,
            "coverage": cov,
            "assumptions": self.assumptions,
            "wall_s": round(time.time() - self.t0, 3),
            "violations": n_viol,
            "known_findings_matched": n_known,
            "analysis_errors": self.errors,
        }
        with open(os.path.join(EVIDENCE_DIR, f"{self.prop}.json"), "w") as fh:
            json.dump(ev, fh, indent=1, default=str)


# --------------------------------------------------------------------------
# known findings (committed file, never written at run time)
# --------------------------------------------------------------------------

def load_known() -> List[dict]:
    if not os.path.exists(KNOWN_FILE):
        return []
    with open(KNOWN_FILE) as fh:
        data = json.load(fh)
    return data.get("known", [])


def match_known(known: List[dict], f: Finding) -> Optional[dict]:
    for k in known:
        if (k.get("property") == f.property and k.get("rule") == f.rule and k.get("module") == f.module
                and k.get("function") == f.function and norm_text(k.get("construct", "")) == f.construct):
            return k
    return None
