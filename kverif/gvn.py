"""Gated value numbering: abstract evaluation of (mostly loop-free) function
bodies into exact normal forms.

* numeric values are `anf.Rat` (scalar, or element-wise array valued);
* `if` merges environments into piecewise values gated by normalised guards
  (if-conversion / gated SSA), no path is enumerated and nothing is executed;
* side effects that rules care about (list appends, counter updates, stores)
  are recorded as *guarded events*;
* loops are not unrolled: a loop body can be evaluated once as a transfer
  function over symbolic loop-carried variables (`eval_loop_body`), otherwise
  the variables it assigns are havocked.
"""

from __future__ import annotations

import ast
from dataclasses import dataclass, field
from fractions import Fraction
from typing import Any, Callable, Dict, List, Optional, Sequence, Tuple

from . import AnalysisError, deps
from . import anf
from .anf import Rat, sym, Atom
from .guards import (G, TRUE, FALSE, g_and, g_or, g_not, compare, atom as g_atom, canon_sign, OPS, g_equiv, g_sat)
from .linker import Linker
from .model import FuncInfo, Module, norm_text


# --------------------------------------------------------------------------
# values
# --------------------------------------------------------------------------

class Vec:
    """Tuple / list / small vector with known components."""
    __slots__ = ("items", "kind", "_key", "arr")

    def __init__(self, items: Sequence[Any], kind: str = "tuple", arr: bool = False):
        self.items = tuple(items)
        self.kind = kind        # tuple | list | point
        self._key = None
        self.arr = arr          # a numpy array known element by element (a preallocated array filled by a loop): arithmetic is element-wise

    @property
    def key(self):
        if self._key is None:
            self._key = ("vec", self.kind if self.kind == "list" else "t", tuple(vkey(i) for i in self.items))
        return self._key

    def __repr__(self):
        return "(" + ", ".join(map(repr, self.items)) + ")"


class Obj:
    """Opaque non-numeric value: None, enum member, function, string, bool."""
    __slots__ = ("tag", "val")

    def __init__(self, tag: str, val=None):
        self.tag = tag
        self.val = val

    @property
    def key(self):
        return ("obj", self.tag, self.val)

    def __repr__(self):
        return f"<{self.tag}:{self.val}>"


NONE = Obj("none")


class PW:
    """Piecewise value: [(guard, value)], guards mutually exclusive."""
    __slots__ = ("cases", "_key")

    def __init__(self, cases):
        self.cases = list(cases)
        self._key = None

    @property
    def key(self):
        if self._key is None:
            self._key = ("pw", tuple(sorted(((g.key, vkey(v)) for g, v in self.cases), key=hash)))
        return self._key

    def __repr__(self):
        return "{" + "; ".join(f"{g} -> {v}" for g, v in self.cases) + "}"


def vkey(v):
    if isinstance(v, (Rat, Vec, Obj, PW, G)):
        return v.key
    from .seqdom import Gen
    if isinstance(v, Gen):
        return v.key
    return ("py", repr(v))


def veq(a, b) -> bool:
    if isinstance(a, Rat) and isinstance(b, Rat):
        return a.equals(b)
    if isinstance(a, Vec) and isinstance(b, Vec):
        return len(a.items) == len(b.items) and all(veq(x, y) for x, y in zip(a.items, b.items))
    return vkey(a) == vkey(b)


def mk_pw(cases) -> Any:
    """Flatten nested piecewise values, merge equal values, drop dead cases."""
    flat: List[Tuple[G, Any]] = []
    for g, v in cases:
        if g.kind == "false":
            continue
        if isinstance(v, PW):
            for g2, v2 in v.cases:
                gg = g_and(g, g2)
                if gg.kind != "false":
                    flat.append((gg, v2))
        else:
            flat.append((g, v))
    merged: List[Tuple[G, Any]] = []
    for g, v in flat:
        for i, (g0, v0) in enumerate(merged):
            if veq(v0, v):
                merged[i] = (g_or(g0, g), v0)
                break
        else:
            merged.append((g, v))
    if len(merged) >= 2:
        merged = _absorb(merged)
    if not merged:
        return Obj("undefined")
    if len(merged) == 1:
        return merged[0][1]
    return PW(merged)


def _absorb(merged):
    """A case taken under an equality (`if m == 0: return b`) whose value is what another case's value becomes under
    that equality (`b + m*x` with m = 0) is that other case: a special-cased path that computes the general formula."""
    from .guards import equalities_of
    out = list(merged)
    i = 0
    while i < len(out):
        g, v = out[i]
        done = False
        if isinstance(v, Rat) and g.kind in ("sign", "and"):
            eqs = equalities_of(g)
            if eqs:
                try:
                    vi = anf.replace_atoms(v, eqs)
                    for j, (g2, v2) in enumerate(out):
                        if j == i or not isinstance(v2, Rat):
                            continue
                        v2s = anf.replace_atoms(v2, eqs)
                        if v2s is v2 and vi is v:
                            continue            # the equalities say nothing about either value: they stay different
                        if v2s.equals(vi):
                            out[j] = (g_or(g2, g), v2)
                            del out[i]
                            done = True
                            break
                except ZeroDivisionError:
                    pass
        if not done:
            i += 1
    return out


def cases_of(v) -> List[Tuple[G, Any]]:
    return v.cases if isinstance(v, PW) else [(TRUE, v)]


def lift(fn: Callable, *vals):
    """Apply `fn` to the non-piecewise cases of the values (cross product)."""
    if not any(isinstance(v, PW) for v in vals):
        return fn(*vals)
    out = []

    def rec(i, guard, acc):
        if guard.kind == "false":
            return
        if i == len(vals):
            out.append((guard, fn(*acc)))
            return
        for g, v in cases_of(vals[i]):
            rec(i + 1, g_and(guard, g), acc + [v])
    rec(0, TRUE, [])
    return mk_pw(out)


# --------------------------------------------------------------------------
# events
# --------------------------------------------------------------------------

@dataclass
class Event:
    guard: G
    kind: str               # append | call | store | aug | pop | sort | del | return
    target: str             # variable name / callee text
    args: Tuple[Any, ...]
    node: ast.AST
    in_loop: int = 0        # nesting depth of havocked loops

    def __repr__(self):
        return f"<{self.kind} {self.target} {self.args} if {self.guard}>"


class Unsupported(Exception):
    pass


# --------------------------------------------------------------------------
# evaluator
# --------------------------------------------------------------------------

NP_ELEMENTWISE_ID = {"asarray", "array", "copy", "ascontiguousarray", "float64", "float", "asanyarray", "squeeze",
                     "atleast_1d"}


class Evaluator:
    def __init__(self, linker: Linker, inline_depth: int = 4):
        self.lk = linker
        self.repo = linker.repo
        self.inline_depth = inline_depth
        self.len_map: Dict[str, Rat] = {}         # array symbol name -> its length
        anf.LENGTH_HOOK = self.length_of           # the evaluator in use normalises end-relative positions
        from . import report as _report
        _report.OPAQUE_FALLBACKS = self.opaque_fallbacks = set()   # the evaluator in use records the private helpers it could not read
        self.length_values: set = set()           # keys of values produced by len(): non-negative integers
        self.array_syms: set = set()
        self.fresh = 0
        self.notes: List[str] = []
        self.no_inline: set = set()               # qualnames kept opaque
        self.inlined: set = set()
        self._np = deps.import_dep("numpy")
        self._math = deps.import_dep("math")
        # opaque calls whose output length equals the length of argument k (dependency contracts, one line each)
        self.shape_table: Dict[str, int] = {
            "dep:uts.gradient.cfd": 0,      # first derivative: one value per sample
            "dep:uts.gradient.csd": 0,      # second derivative: one value per sample
        }
        # opaque dependency calls that return a scalar although their arguments are arrays
        self.scalar_deps = {"dep:uts.thresholding.isodata"}
        self.bool_registry: Dict[str, G] = {}        # boolean masks that were turned into opaque index atoms
        self.summarise_loops = True                  # exact loop summaries (seqdom) instead of havoc where possible
        self.gen_depth = 0
        self.prealloc: Dict[Any, Rat] = {}
        self.record_divisions = False
        self.divisions: List[Any] = []
        self.range_registry: Dict[Any, Any] = {}
        self.summary_log: List[Tuple[int, str]] = []
        self.summary_assumptions: set = set()
        self.gen_registry: Dict[str, Any] = {}
        self.vec_registry: Dict[str, Any] = {}
        self.fn_registry: Dict[str, Any] = {}         # lambda / nested def key -> (node, defining function, defining env)
        self._module_consts: Dict[Tuple[str, str], Any] = {}
        self.in_registry: Dict[Any, Any] = {}        # key of an `x in c` atom -> (x value, c value)
        self.vec_compare: Dict[Any, Any] = {}        # key of a vector == / != vector guard -> (np.all reading, np.any reading)
        self.comp_registry: Dict[str, Any] = {}      # all(...)/any(...) over a generator: (kind, iter value, element symbol, element guard)

    def module_constant(self, mod: Module, name: str):
        """Value of a module-level name bound exactly once, at module level, by a plain assignment (a constant table
        such as `_COST_METHODS = {Metrics.r2: lf.linear_r2_points, ...}`); None when it is anything else."""
        k = (mod.fullname, name)
        if k in self._module_consts:
            return self._module_consts[k]
        self._module_consts[k] = None
        stores = [n for n in ast.walk(mod.tree) if isinstance(n, ast.Name) and n.id == name and isinstance(n.ctx, (ast.Store, ast.Del))]
        tops = [st for st in mod.tree.body if isinstance(st, ast.Assign) and len(st.targets) == 1 and isinstance(st.targets[0], ast.Name)
                and st.targets[0].id == name]
        if len(stores) != 1 or len(tops) != 1:
            return None
        # never mutated in place anywhere in the module
        for n in ast.walk(mod.tree):
            if isinstance(n, ast.Subscript) and isinstance(n.ctx, (ast.Store, ast.Del)) and isinstance(n.value, ast.Name) and n.value.id == name:
                return None
            if isinstance(n, ast.Call) and isinstance(n.func, ast.Attribute) and isinstance(n.func.value, ast.Name) and n.func.value.id == name \
                    and n.func.attr in ("update", "pop", "popitem", "clear", "setdefault", "append", "extend", "insert", "remove", "sort", "reverse"):
                return None
        value = tops[0].value
        if not isinstance(value, (ast.Dict, ast.Tuple, ast.List, ast.Constant, ast.Attribute, ast.Name, ast.BinOp, ast.UnaryOp)):
            return None
        fake = next(iter(mod.all_functions), None)
        if fake is None:
            return None
        fr = Frame(self, fake, 0)
        try:
            v = fr.expr(value, {})
        except Unsupported:
            return None
        self._module_consts[k] = v
        return v

    def never_none(self, qual: str) -> bool:
        """Return summary of a package function: every path ends in `return <expr>` with <expr> not the
        literal None (nullness lattice for the callers' `is None` tests)."""
        cache = getattr(self, "_nn", None)
        if cache is None:
            cache = self._nn = {}
        if qual in cache:
            return cache[qual]
        ok = False
        try:
            fi = self.repo.func(qual)
            from .cfg import CFG
            cfg = CFG(fi.node)
            ok = True
            for (p, _lab) in cfg.pred[cfg.exit.id]:
                n = cfg.nodes[p]
                if n.kind == "raise":
                    continue            # an exit by exception returns nothing at all
                if n.kind != "return" or n.ast.value is None or (isinstance(n.ast.value, ast.Constant) and n.ast.value.value is None):
                    ok = False
                elif isinstance(n.ast.value, ast.Name):
                    # a returned name: every assignment to it in the function must be a non-None expression
                    for st in ast.walk(fi.node):
                        if isinstance(st, ast.Assign) and any(isinstance(t, ast.Name) and t.id == n.ast.value.id for t in st.targets):
                            if isinstance(st.value, ast.Constant) and st.value.value is None:
                                ok = False
                    if n.ast.value.id in fi.signature.positional:
                        ok = False
        except Exception:
            ok = False
        cache[qual] = ok
        return ok

    # -- symbols -------------------------------------------------------------
    def symbol(self, name: str, array: bool = False) -> Rat:
        if array:
            self.array_syms.add(name)
        return sym(name, array)

    def point(self, name: str, array: bool = False) -> Vec:
        return Vec((self.symbol(name + ".x", array), self.symbol(name + ".y", array)), "point")

    def fresh_sym(self, hint: str, array: bool = False) -> Rat:
        self.fresh += 1
        return self.symbol(f"{hint}#{self.fresh}", array)

    ELEMENTWISE = {"abs", "sqrt", "log", "max", "min", "pow", "exp"}

    def length_of(self, v) -> Rat:
        if isinstance(v, Vec):
            if v.kind == "point" and v.items and isinstance(v.items[0], Rat) and v.items[0].is_array():
                return self.length_of(v.items[0])
            from .seqdom import Gen
            if any(isinstance(i_, Gen) for i_ in v.items):
                # a list with generator blocks: plain items count 1, an unguarded block its trip count times its parts;
                # anything guarded has a length that is only known as "the length of this very list"
                total = Rat.const(0)
                for i_ in v.items:
                    if not isinstance(i_, Gen):
                        total = total.add(Rat.const(1))
                    elif i_.ranged and all(g_.kind == "true" and not sp_ for g_, _v, sp_ in i_.parts) and i_.step.is_const() == 1:
                        total = total.add(i_.hi.sub(i_.lo).mul(Rat.const(len(i_.parts))))
                    else:
                        return anf.opaque("len", self.to_rat(v), array=False)
                return total
            return Rat.const(len(v.items))
        if isinstance(v, Rat):
            lens = []
            for a in v.atoms():
                if not a.array:
                    continue
                lens.append(self._atom_length(a))
            if not lens:
                return anf.opaque("len", v, array=False)
            first = lens[0]
            if all(first.equals(l) for l in lens[1:]):
                return first
            return anf.opaque("len", v, array=False)
        return anf.opaque("len", self.to_rat(v), array=False)

    def _atom_length(self, a: Atom) -> Rat:
        if a.kind == "sym":
            n = a.name
            base = n[:-2] if n.endswith((".x", ".y")) else n
            return self.len_map.get(n) or self.len_map.get(base) or anf.opaque("len", sym(base, True), array=False)
        if a.name == "slice":
            # len(x[lo:hi]) = hi - lo (None / negative bounds resolved against len(x); valid for in-range
            # bounds, which is what the package uses)
            base_len = self.length_of(a.args[0])

            def bound(b, default):
                if b.symbols() == {"None"}:
                    return default
                c = b.is_const()
                if c is not None and c < 0:
                    return base_len.add(b)
                return b
            return bound(a.args[2], base_len).sub(bound(a.args[1], Rat.const(0)))
        if a.name in ("np.argsort", "np.sort", "np.cumsum", "np.flip", "np.negative", "np.absolute", "np.fabs", "np.square") and len(a.args) >= 1 and a.args[0].is_array():
            return self.length_of(a.args[0])                            # one value per input value
        if a.name == "np.diff" and len(a.args) == 1:
            return self.length_of(a.args[0]).sub(Rat.const(1))       # first differences: one value fewer
        if a.name == "rslice":
            first, stop = rslice_bounds(a, self.length_of(a.args[0]))
            return first.sub(stop)
        if a.name in self.ELEMENTWISE:
            lens = [self.length_of(x) for x in a.args if x.is_array()]
            if lens and all(lens[0].equals(l) for l in lens[1:]):
                return lens[0]
        if a.name == "take" and len(a.args) == 2 and a.args[1].is_array():
            return self.length_of(a.args[1])       # x[index_array] has one entry per index
        if a.name in self.shape_table and len(a.args) > self.shape_table[a.name]:
            arg = a.args[self.shape_table[a.name]]
            inner = arg.atoms()
            if len(inner) == 1 and inner[0].name == "vec" and arg.equals(Rat.from_atom(inner[0])):
                return self.length_of(inner[0].args[0])
            return self.length_of(arg)
        return anf.opaque("len", Rat.from_atom(a), array=False)

    # -- coercions -----------------------------------------------------------
    def to_rat(self, v) -> Rat:
        if isinstance(v, Rat):
            return v
        if isinstance(v, bool):
            return Rat.const(int(v))
        if isinstance(v, (int, Fraction)):
            return Rat.const(v)
        if isinstance(v, float):
            return Rat.const(Fraction(v))
        if isinstance(v, G):
            k = repr(v.key)
            self.bool_registry[k] = v
            return anf.opaque("bool", *[], extra=k)
        if isinstance(v, Obj):
            return anf.opaque("obj", extra=repr(v.key))
        if isinstance(v, Vec):
            r = anf.opaque("vec", *[self.to_rat(i) for i in v.items])
            if self.summarise_loops:
                self.vec_registry[r.atoms()[0].skey] = v
            return r
        from .seqdom import Gen
        if isinstance(v, Gen):
            import hashlib
            r = anf.opaque("gen", extra="g" + hashlib.sha1(repr(v.key).encode()).hexdigest()[:20], array=True)
            self.gen_registry[r.atoms()[0].skey] = v
            return r
        if isinstance(v, PW):
            raise Unsupported("piecewise value where a plain value is required")
        raise Unsupported(f"cannot coerce {type(v).__name__}")

    def arith(self, op: str, a, b):
        def f(x, y):
            if op in ("+", "-", "*", "/") and ((isinstance(x, Vec) and x.arr and isinstance(y, Rat) and self._scalar_valued(y))
                                                or (isinstance(y, Vec) and y.arr and isinstance(x, Rat) and self._scalar_valued(x))):
                from .seqdom import Gen
                arrv, left = (x, True) if isinstance(x, Vec) else (y, False)
                sc = y if left else x

                def one(v_):
                    return f(v_, sc) if left else f(sc, v_)
                items_ = []
                for it_ in arrv.items:
                    if isinstance(it_, Gen):
                        if any(str(s_).startswith("@i") for s_ in sc.symbols()):
                            raise Unsupported("array arithmetic with a loop position")
                        items_.append(Gen(it_.depth, it_.lo, it_.hi, it_.step, [(g_, one(v_), sp_) for g_, v_, sp_ in it_.parts], ranged=it_.ranged))
                    else:
                        items_.append(one(it_))
                return Vec(items_, "list", arr=True)
            if op == "+" and isinstance(x, Vec) and isinstance(y, Vec) and x.kind == "list" and y.kind == "list":
                return Vec(list(x.items) + list(y.items), "list")          # list concatenation
            if op == "*" and ((isinstance(x, Vec) and x.kind == "list" and isinstance(y, Rat)) or (isinstance(y, Vec) and y.kind == "list" and isinstance(x, Rat))):
                lst, cnt = (x, y) if isinstance(x, Vec) else (y, x)
                c_ = cnt.is_const()
                if c_ is not None and c_.denominator == 1 and 0 <= c_ <= 8:
                    return Vec(list(lst.items) * int(c_), "list")
                return anf.opaque("repeat", self.to_rat(lst), cnt, array=True)     # [a, b] * k: list repetition
            if isinstance(x, Vec) or isinstance(y, Vec):
                xs = x.items if isinstance(x, Vec) else None
                ys = y.items if isinstance(y, Vec) else None
                n = len(xs) if xs is not None else len(ys)
                if xs is not None and ys is not None and len(xs) != len(ys):
                    raise Unsupported("vector length mismatch")
                kind = (x.kind if isinstance(x, Vec) else y.kind)
                return Vec([f(xs[i] if xs is not None else x, ys[i] if ys is not None else y) for i in range(n)], kind)
            if isinstance(x, PW) or isinstance(y, PW):
                return lift(f, x, y)
            rx, ry = self.to_rat(x), self.to_rat(y)
            if op == "+":
                return rx.add(ry)
            if op == "-":
                return rx.sub(ry)
            if op == "*":
                return rx.mul(ry)
            if op == "/":
                if ry.is_zero():
                    if self.record_divisions:
                        return self.fresh_sym("div0")       # recorded as a division whose divisor is 0 on this path
                    raise Unsupported("division by literal zero")
                return rx.div(ry)
            if op == "**":
                return anf.f_pow(rx, ry)
            if op == "//":
                q = rx.div(ry)
                if (_nonneg_count(rx) or rx.key in self.length_values) and (ry.is_const() or 0) > 0:
                    # floor == truncation for a non-negative quotient: one canonical form with int(a / b)
                    return anf.opaque("int", q, array=False)
                return anf.opaque("floor", q)
            if op == "%":
                return anf.opaque("mod", rx, ry)
            raise Unsupported(f"operator {op}")
        return lift(f, a, b)

    def _scalar_valued(self, r: Rat) -> bool:
        """Not an array: no array atom, except calls of package functions annotated to return a float / int (a call atom is
        flagged as an array whenever one of its arguments is)."""
        for a in r.atoms():
            if not a.array:
                continue
            if a.kind == "fn" and a.name.startswith("call:"):
                try:
                    fi = self.lk.repo.func(a.name[5:])
                except Exception:
                    return False
                ret = fi.node.returns
                if ret is not None and ast.unparse(ret) in ("float", "int", "np.float64", "bool"):
                    continue
            return False
        return True

    def map1(self, fn: Callable[[Rat], Rat], v):
        def f(x):
            if isinstance(x, Vec):
                return Vec([f(i) for i in x.items], x.kind, arr=x.arr)
            if isinstance(x, PW):
                return lift(f, x)
            from .seqdom import Gen
            if isinstance(x, Gen):
                # an element-wise function of an array known block by block: applied to the value of every block
                return Gen(x.depth, x.lo, x.hi, x.step, [(g_, f(v_), sp_) for g_, v_, sp_ in x.parts], ranged=x.ranged)
            return fn(self.to_rat(x))
        return lift(f, v)

    # -- function evaluation ---------------------------------------------------
    def eval_function(self, fi: FuncInfo, args: Dict[str, Any], depth: int = 0) -> "FrameResult":
        fr = Frame(self, fi, depth)
        env: Dict[str, Any] = {}
        sig = fi.signature
        for p in sig.positional + sig.kwonly:
            if p in args:
                env[p] = args[p]
            else:
                d = fi.param_default(p)
                if d is not None:
                    # defaults are evaluated in the callee's module scope
                    env[p] = fr.expr(d, {})
                else:
                    env[p] = self.symbol(p)
        live = fr.block(fi.node.body, env, TRUE)
        if live.kind != "false":
            fr.returns.append((live, NONE))
        return FrameResult(fr, env)

    def eval_loop_body(self, fi: FuncInfo, loop, env: Dict[str, Any], depth: int = 0) -> "FrameResult":
        """One iteration of `loop` as a transfer function: `env` gives the values at
        the top of the body (rules pass symbols for the loop-carried variables)."""
        fr = Frame(self, fi, depth)
        fr.loop_stack.append(loop)
        env = dict(env)
        live = fr.block(loop.body, env, TRUE)
        fr.live_end = live
        # the state carried to the next iteration: the fall-through state merged with the state at every `continue`
        if fr.continue_envs:
            parts = ([(live, env)] if live.kind != "false" else []) + list(fr.continue_envs)
            names = set()
            for _g, e_ in parts:
                names |= set(e_)
            merged = {}
            for nme in names:
                vals = [(g_, e_.get(nme, Obj("undefined"))) for g_, e_ in parts]
                if all(veq(vals[0][1], v_) for _g, v_ in vals[1:]):
                    merged[nme] = vals[0][1]
                else:
                    merged[nme] = mk_pw(vals)
            env = merged
        return FrameResult(fr, env)


class FrameResult:
    def __init__(self, fr: "Frame", env):
        self.frame = fr
        self.env = env
        self.returns = fr.returns
        self.events = fr.events
        self.breaks = fr.breaks
        self.continues = fr.continues
        self.live_end = getattr(fr, "live_end", None)

    def value(self):
        """The returned value as one (piecewise) value."""
        return mk_pw(self.returns)


class Frame:
    def __init__(self, ev: Evaluator, fi: FuncInfo, depth: int):
        self.ev = ev
        self.fi = fi
        self.mod: Module = fi.module
        self.depth = depth
        self.returns: List[Tuple[G, Any]] = []
        self.events: List[Event] = []
        self.breaks: List[G] = []
        self.continues: List[G] = []
        self.continue_envs: List[Tuple[G, Dict[str, Any]]] = []
        self._break_envs: List[list] = []
        self._idx_obligations: Optional[list] = None     # (index, length) of every subscript evaluated inside a try/except IndexError body
        self.loop_stack: List[ast.AST] = []
        self.havoc_depth = 0
        self.cur_guard: G = TRUE

    # -- statements ----------------------------------------------------------
    def block(self, stmts, env: Dict[str, Any], guard: G) -> G:
        live = guard
        for st in stmts:
            if live.kind == "false":
                break
            live = self.stmt(st, env, live)
        return live

    def stmt(self, st, env, guard: G) -> G:
        self.cur_guard = guard
        if isinstance(st, ast.Assign):
            v = self.expr(st.value, env)
            for t in st.targets:
                self.assign(t, v, env, guard, st)
            if len(st.targets) == 1 and isinstance(st.targets[0], ast.Name):
                # `A = np.zeros(N)` / np.empty(N): a float array of N slots, remembered so that a loop filling A[i] for every
                # position i can be read as building the list of those values
                nm_ = st.targets[0].id
                self.ev.prealloc.pop((self.fi.qualname, nm_), None)
                c_ = st.value
                if isinstance(c_, ast.Call) and len(c_.args) == 1 and all(k_.arg == "dtype" for k_ in c_.keywords) and isinstance(v, Rat) and v.is_zero() \
                        and guard.kind == "true":
                    r_ = self.ev.lk.resolve(self.mod, c_.func)
                    nm2_ = getattr(getattr(r_, "obj", None), "__name__", "") if r_ is not None and r_.kind == "dep" else ""
                    if nm2_ in ("zeros", "empty"):
                        try:
                            ln_ = self.expr(c_.args[0], env)
                        except Unsupported:
                            ln_ = None
                        if isinstance(ln_, Rat) and not ln_.is_array():
                            self.ev.prealloc[(self.fi.qualname, nm_)] = ln_
            return guard
        if isinstance(st, ast.AnnAssign):
            if st.value is not None:
                self.assign(st.target, self.expr(st.value, env), env, guard, st)
            return guard
        if isinstance(st, ast.AugAssign):
            op = _BINOPS.get(type(st.op))
            if op is None:
                raise Unsupported(f"augmented operator {type(st.op).__name__}")
            rhs = self.expr(st.value, env)
            if isinstance(st.target, ast.Name):
                cur = env.get(st.target.id)
                if cur is None:
                    cur = self.ev.symbol(st.target.id)
                new = self.ev.arith(op, cur, rhs)
                self.events.append(Event(guard, "aug", st.target.id, (op, rhs), st, self.havoc_depth))
                env[st.target.id] = new
            else:
                cur = self.expr(st.target, env)
                new = self.ev.arith(op, cur, rhs)
                self.assign(st.target, new, env, guard, st)
            return guard
        if isinstance(st, ast.Expr):
            if isinstance(st.value, ast.Constant):
                return guard      # docstring
            self.expr(st.value, env, guard=guard, stmt=st)
            return guard
        if isinstance(st, ast.Return):
            v = self.expr(st.value, env) if st.value is not None else NONE
            self.returns.append((guard, v))
            self.events.append(Event(guard, "return", "", (v,), st, self.havoc_depth))
            return FALSE
        if isinstance(st, ast.If):
            c = self.cond(st.test, env)
            env_t = dict(env)
            env_f = dict(env)
            n_exits = len(self.returns) + len(self.breaks) + len(self.continues)
            live_t = self.block(st.body, env_t, g_and(guard, c))
            live_f = self.block(st.orelse, env_f, g_and(guard, g_not(c)))
            self.merge(env, c, env_t, live_t, env_f, live_f)
            if len(self.returns) + len(self.breaks) + len(self.continues) == n_exits and live_t.kind != "false" \
                    and live_f.kind != "false":
                return guard          # no branch left the block: control rejoins unchanged
            return g_or(live_t, live_f)
        if isinstance(st, (ast.For, ast.While)):
            return self.loop(st, env, guard)
        if isinstance(st, ast.Break):
            self.breaks.append(guard)
            if self._break_envs:
                self._break_envs[-1].append((guard, dict(env)))       # the state in which a havocked loop is left early
            return FALSE
        if isinstance(st, ast.Continue):
            self.continues.append(guard)
            if self.havoc_depth == 0:
                self.continue_envs.append((guard, dict(env)))
            return FALSE
        if isinstance(st, ast.FunctionDef) and not st.decorator_list:
            key = f"closure:{self.fi.qualname}.{st.name}"
            self.ev.fn_registry[key] = (st, self.fi, env)
            env[st.name] = Obj("lambda", key)          # a nested def is a named lambda with a statement body
            return guard
        if isinstance(st, (ast.Pass, ast.Import, ast.ImportFrom, ast.FunctionDef, ast.ClassDef, ast.Assert)):
            return guard
        if isinstance(st, ast.Delete):
            for t in st.targets:
                if isinstance(t, ast.Subscript):
                    base = t.value
                    nm = base.id if isinstance(base, ast.Name) else norm_text(base)
                    self.events.append(Event(guard, "del", nm, (self.expr(t.slice, env),), st, self.havoc_depth))
                elif isinstance(t, ast.Name):
                    env.pop(t.id, None)
            return guard
        if isinstance(st, ast.Raise):
            return FALSE
        if isinstance(st, ast.Try):
            return self._try(st, env, guard)
        raise Unsupported(f"statement {type(st).__name__}")

    def _try(self, st: ast.Try, env, guard: G) -> G:
        """try: BODY except IndexError: HANDLER.  A subscript a[e] raises IndexError exactly when e >= len(a) or
        e < -len(a); a negative e that is >= -len(a) does NOT raise: it counts from the end.  Statement k of BODY runs
        when no earlier subscript raised and takes effect when none of its own did; HANDLER runs when some subscript
        raised (it may not read what BODY assigned: that state is not modelled)."""
        ok = (len(st.handlers) == 1 and not st.orelse and not st.finalbody and st.handlers[0].name is None and st.handlers[0].type is not None
              and ast.unparse(st.handlers[0].type) == "IndexError" and all(isinstance(b, (ast.Assign, ast.Expr, ast.AugAssign, ast.If)) for b in st.body))
        assigned = {n.id for b in st.body for n in ast.walk(b) if isinstance(n, ast.Name) and isinstance(n.ctx, ast.Store)}
        reads_h = {n.id for b in st.handlers[0].body for n in ast.walk(b) if isinstance(n, ast.Name) and isinstance(n.ctx, ast.Load)} if ok else set()
        if not ok or self._idx_obligations is not None or (assigned & reads_h):
            raise Unsupported("statement Try (only `try: <simple statements> except IndexError: <handler independent of them>` is modelled)")
        env_b = dict(env)
        raised = FALSE
        live_b = guard
        for b in st.body:
            self._idx_obligations = []
            n_ev = len(self.events)
            try:
                live_b = self.stmt(b, env_b, g_and(live_b, g_not(raised)))
                obl = list(self._idx_obligations)
            finally:
                self._idx_obligations = None
            for idx, ln in obl:
                raised = g_or(raised, canon_sign(idx.sub(ln), OPS[">="]), canon_sign(idx.add(ln), OPS["<"]))
            for e_ in self.events[n_ev:]:
                e_.guard = g_and(e_.guard, g_not(raised))       # the statement's effects happen only if none of its subscripts raised
            if live_b.kind == "false":
                break
        env_h = dict(env)
        live_h = self.block(st.handlers[0].body, env_h, g_and(guard, raised))
        live_ok = g_and(live_b, g_not(raised)) if live_b.kind != "false" else live_b
        self.merge(env, raised, env_h, live_h, env_b, live_ok)
        return g_or(live_h, live_ok)

    def merge(self, env, c: G, env_t, live_t: G, env_f, live_f: G):
        if live_t.kind == "false" and live_f.kind == "false":
            return
        if live_t.kind == "false":
            env.clear()
            env.update(env_f)
            return
        if live_f.kind == "false":
            env.clear()
            env.update(env_t)
            return
        names = set(env_t) | set(env_f)
        out = {}
        for n in names:
            a = env_t.get(n, Obj("undefined"))
            b = env_f.get(n, Obj("undefined"))
            if veq(a, b):
                out[n] = a
            elif self.ev.summarise_loops and isinstance(a, Vec) and isinstance(b, Vec) and a.kind == "list" and b.kind == "list":
                # lists that grew differently in the two branches: common prefix + conditional blocks
                from .seqdom import Gen, flatten
                k = 0
                while k < len(a.items) and k < len(b.items) and vkey(a.items[k]) == vkey(b.items[k]):
                    k += 1
                items = list(a.items[:k])
                if len(a.items) > k:
                    items.append(Gen(self.ev.gen_depth, None, None, None, [(c, Vec(a.items[k:], "list"), True)], ranged=False))
                if len(b.items) > k:
                    items.append(Gen(self.ev.gen_depth, None, None, None, [(g_not(c), Vec(b.items[k:], "list"), True)], ranged=False))
                out[n] = Vec(flatten(items), "list")
            else:
                out[n] = mk_pw([(c, a), (g_not(c), b)])
        env.clear()
        env.update(out)

    def loop(self, st, env, guard: G) -> G:
        """Havoc: every name assigned in the loop gets a fresh symbol; the body is
        evaluated once so that its events are recorded (flagged in_loop)."""
        if self.ev.summarise_loops and isinstance(st, ast.For) and self.havoc_depth == 0:
            from .seqdom import summarise_for
            if summarise_for(self, st, env, guard):
                return guard
        assigned = set()
        for n in ast.walk(st):
            if isinstance(n, ast.Name) and isinstance(n.ctx, ast.Store):
                assigned.add(n.id)
            elif self.ev.summarise_loops and isinstance(n, ast.Call) and isinstance(n.func, ast.Attribute) and isinstance(n.func.value, ast.Name) \
                    and n.func.attr in ("append", "extend", "insert", "remove", "sort", "reverse", "clear", "pop", "add", "update") and n.func.value.id in env:
                assigned.add(n.func.value.id)       # a container mutated in the loop is unknown afterwards
        if isinstance(st, ast.For):
            self.expr(st.iter, env, guard=guard)
        pre = dict(env)
        for n in sorted(assigned):
            env[n] = self.ev.fresh_sym(n)
        self.havoc_depth += 1
        self.loop_stack.append(st)
        self._break_envs.append([])
        iter_guard = g_and(guard, g_atom(("iter", getattr(st, "lineno", 0))))
        benv = dict(env)
        try:
            if isinstance(st, ast.While):
                self.cond(st.test, benv)
            self.block(st.body, benv, iter_guard)
        finally:
            self.loop_stack.pop()
            self.havoc_depth -= 1
            left_early = self._break_envs.pop()
        # values after the loop when it runs to exhaustion: unknown mixture of pre-loop and in-loop definitions
        for n in sorted(assigned):
            env[n] = self.ev.fresh_sym(n + "@after")
        self.havocked = getattr(self, "havocked", set()) | assigned
        if st.orelse:
            # for / while ... else: the else block runs only when the loop was not left by `break`
            self.block(st.orelse, env, guard)
        if left_early:
            # ... and when it was, the state is the one at that `break` (in terms of that iteration's values)
            names = set(assigned)
            for n_ in ast.walk(ast.Module(body=list(st.orelse), type_ignores=[])):
                if isinstance(n_, ast.Name) and isinstance(n_.ctx, ast.Store):
                    names.add(n_.id)
            sels, rest = [], TRUE
            for k_, (gb, benv_b) in enumerate(left_early):
                a_ = g_atom(("left-by-break", getattr(st, "lineno", 0), k_, self.ev.fresh_sym("brk").key))
                sels.append((g_and(rest, a_), benv_b))
                rest = g_and(rest, g_not(a_))
            for n in sorted(names):
                cases = [(sg, be.get(n, Obj("undefined"))) for sg, be in sels] + [(rest, env.get(n, Obj("undefined")))]
                env[n] = mk_pw(cases)
        return guard

    def assign(self, t, v, env, guard: G, st):
        if isinstance(t, ast.Name):
            env[t.id] = v
            return
        if isinstance(t, (ast.Tuple, ast.List)):
            items = self.unpack(v, len(t.elts), t)
            for te, ve in zip(t.elts, items):
                if isinstance(te, ast.Starred):
                    self.assign(te.value, ve, env, guard, st)
                else:
                    self.assign(te, ve, env, guard, st)
            return
        if isinstance(t, ast.Subscript):
            base = t.value
            nm = norm_text(base)
            idx = self.expr(t.slice, env)
            self.events.append(Event(guard, "store", nm, (idx, v), st, self.havoc_depth))
            if isinstance(base, ast.Name) and isinstance(env.get(base.id), Obj) and env[base.id].tag == "dict" \
                    and self.havoc_depth == 0:
                d = env[base.id]
                k = vkey(idx)
                entries = tuple(e for e in d.val if e[0] != k) + ((k, vkey(v), v),)
                env[base.id] = Obj("dict", entries)
            # dictionaries / arrays are not modelled element by element: the container becomes opaque
            return
        if isinstance(t, ast.Attribute):
            self.events.append(Event(guard, "store", norm_text(t), (v,), st, self.havoc_depth))
            return
        raise Unsupported(f"assignment target {type(t).__name__}")

    def unpack(self, v, n: int, node) -> List[Any]:
        if isinstance(v, PW):
            cols = [[] for _ in range(n)]
            for g, vv in v.cases:
                items = self.unpack(vv, n, node)
                for i in range(n):
                    cols[i].append((g, items[i]))
            return [mk_pw(c) for c in cols]
        if isinstance(v, Vec) and v.kind == "point" and v.items and isinstance(v.items[0], Rat) and v.items[0].is_array() \
                and not (len(v.items) == n and False):
            # rows of an array of points
            if not any(isinstance(e, ast.Starred) for e in getattr(node, "elts", [])):
                return [Vec([self._at(c, Rat.const(k)) for c in v.items], "point") for k in range(n)]
        if isinstance(v, Vec):
            has_star = any(isinstance(e, ast.Starred) for e in node.elts) if hasattr(node, "elts") else False
            if has_star:
                k = [i for i, e in enumerate(node.elts) if isinstance(e, ast.Starred)][0]
                tail = n - k - 1
                items = list(v.items)
                mid = Vec(items[k:len(items) - tail], "list")
                return items[:k] + [mid] + (items[len(items) - tail:] if tail else [])
            if len(v.items) == n:
                return list(v.items)
            raise Unsupported(f"cannot unpack {len(v.items)} values into {n}")
        r = self.ev.to_rat(v)
        return [anf.opaque("item", r, Rat.const(i), array=False) for i in range(n)]

    # -- conditions ----------------------------------------------------------
    def cond(self, e, env) -> G:
        v = self.expr(e, env)
        return self.truth(v)

    def truth(self, v) -> G:
        if isinstance(v, G):
            return v
        if isinstance(v, PW):
            return g_or(*[g_and(g, self.truth(x)) for g, x in v.cases])
        if isinstance(v, Obj):
            if v.tag == "none":
                return FALSE
            if v.tag == "bool":
                return TRUE if v.val else FALSE
            return g_atom(("truthy", v.key))
        if isinstance(v, Vec):
            if v.kind == "list":
                from .seqdom import Gen
                if v.items and all(isinstance(i_, Gen) for i_ in v.items):
                    # only generator blocks: empty exactly when its length is 0
                    return canon_sign(self.ev.length_of(v), OPS["!="])
                return TRUE if v.items else FALSE
            return g_atom(("truthy", v.key))
        r = self.ev.to_rat(v)
        c = r.is_const()
        if c is not None:
            return TRUE if c != 0 else FALSE
        if not r.is_array():
            ats_ = r.atoms()
            bare_ = len(ats_) == 1 and r.equals(Rat.from_atom(ats_[0]))
            if (bare_ and ats_[0].kind == "fn" and ats_[0].name == "len") or (not bare_ and all(a_.kind == "sym" or a_.name in ("len", "abs", "sqrt", "at") for a_ in ats_)):
                return canon_sign(r, OPS["!="])       # a number is true exactly when it is not zero (`if not len(x)` is `if len(x) == 0`)
        return g_atom(("truthy", r.key, str(r)))

    # -- expressions ---------------------------------------------------------
    def expr(self, e, env, guard: G = TRUE, stmt=None):
        ev = self.ev
        if isinstance(e, ast.Constant):
            v = e.value
            if v is None:
                return NONE
            if isinstance(v, bool):
                return TRUE if v else FALSE
            if isinstance(v, (int, float)):
                return ev.to_rat(v)
            if isinstance(v, str):
                return Obj("str", v)
            if v is Ellipsis:
                return Obj("ellipsis")
            return Obj("const", repr(v))
        if isinstance(e, ast.Name):
            if e.id in env:
                return env[e.id]
            r = self.lk_resolve(e)
            if r.kind == "func":
                return Obj("func", r.obj.qualname)
            if r.kind == "class":
                return Obj("class", r.obj.name)
            if r.kind == "dep":
                return Obj("dep", getattr(r.obj, "__name__", repr(r.obj)))
            if r.kind == "module":
                return Obj("module", r.obj.fullname)
            if r.kind == "global" and isinstance(r.extra, Module):
                mc = ev.module_constant(r.extra, e.id)
                if mc is not None:
                    return mc
            return ev.symbol(e.id)
        if isinstance(e, ast.Attribute):
            r = self.lk_resolve(e)
            if r.kind == "enum_member":
                return Obj("enum", f"{r.obj.name}.{r.extra}")
            if r.kind == "func":
                return Obj("func", r.obj.qualname)
            if r.kind == "class":
                return Obj("class", r.obj.name)
            if r.kind == "dep" and r.obj is not None:
                o = r.obj
                if isinstance(o, (int, float)) and not isinstance(o, bool):
                    nm = norm_text(e)
                    return ev.symbol(nm)            # e.g. np.finfo(float).eps, math.pi : kept symbolic
                return Obj("dep", getattr(o, "__name__", repr(o)))
            base = self.expr(e.value, env)
            if e.attr == "T" or e.attr == "real":
                return base
            if e.attr == "shape":
                return Vec([ev.length_of(base), Rat.const(2)], "tuple") if isinstance(base, Vec) else anf.opaque("shape", ev.to_rat(base))
            if e.attr == "size":
                return ev.length_of(base)
            if e.attr == "ndim":
                # the argument roles fix the rank: an array of points is (n, 2), a column / index array is one-dimensional
                if isinstance(base, Vec) and base.kind == "point" and base.items and isinstance(base.items[0], Rat):
                    return Rat.const(2 if base.items[0].is_array() else 1)
                if isinstance(base, Rat) and base.is_array() and len(base.atoms()) == 1 and base.atoms()[0].kind == "sym":
                    return Rat.const(1)
            return anf.opaque("attr:" + e.attr, ev.to_rat(base) if not isinstance(base, PW) else anf.opaque("pw", extra=repr(base.key)))
        if isinstance(e, ast.BinOp):
            op = _BINOPS.get(type(e.op))
            a = self.expr(e.left, env)
            b = self.expr(e.right, env)
            if isinstance(a, G) and isinstance(b, G) and isinstance(e.op, (ast.BitAnd, ast.BitOr, ast.Mult)):
                return g_and(a, b) if not isinstance(e.op, ast.BitOr) else g_or(a, b)
            if op is None:
                return anf.opaque("binop:" + type(e.op).__name__, ev.to_rat(a), ev.to_rat(b))
            if op == "/" and ev.record_divisions:
                # the divisor, per case, with the condition under which this division is evaluated: the normal form cancels
                # common factors, so "the divisor is not zero" has to be kept as a side condition of the quotient
                for g_, d_ in cases_of(b):
                    gg_ = g_and(self.cur_guard, g_)
                    if gg_.kind != "false" and isinstance(d_, (Rat, int, float, Fraction)):
                        ev.divisions.append((gg_, ev.to_rat(d_), e))
            return ev.arith(op, a, b)
        if isinstance(e, ast.UnaryOp):
            v = self.expr(e.operand, env)
            if isinstance(e.op, ast.USub):
                return ev.map1(lambda r: r.neg(), v)
            if isinstance(e.op, ast.UAdd):
                return v
            if isinstance(e.op, ast.Not):
                return g_not(self.truth(v))
            if isinstance(e.op, ast.Invert):
                if isinstance(v, G):
                    return g_not(v)
                return anf.opaque("invert", ev.to_rat(v))
        if isinstance(e, ast.BoolOp):
            raw = [self.expr(x, env) for x in e.values]
            if all(isinstance(v, G) for v in raw):
                return g_and(*raw) if isinstance(e.op, ast.And) else g_or(*raw)
            # Python value semantics: `a or b` is a if a is truthy else b ; `a and b` is b if a is truthy else a
            acc = raw[-1]
            for v in reversed(raw[:-1]):
                t = self.truth(v)
                if isinstance(e.op, ast.Or):
                    acc = mk_pw([(t, v), (g_not(t), acc)])
                else:
                    acc = mk_pw([(t, acc), (g_not(t), v)])
            return acc
        if isinstance(e, ast.Compare):
            return self.compare(e, env)
        if isinstance(e, ast.IfExp):
            c = self.cond(e.test, env)
            keep_ = self.cur_guard
            try:
                self.cur_guard = g_and(keep_, c)
                a = self.expr(e.body, env)
                self.cur_guard = g_and(keep_, g_not(c))
                b = self.expr(e.orelse, env)
            finally:
                self.cur_guard = keep_
            return mk_pw([(c, a), (g_not(c), b)])
        if isinstance(e, ast.Tuple):
            return Vec([self.expr(x, env) for x in e.elts], "tuple")
        if isinstance(e, ast.List):
            return Vec([self.expr(x, env) for x in e.elts], "list")
        if isinstance(e, ast.Subscript):
            return self.subscript(e, env)
        if isinstance(e, ast.Call):
            return self.call(e, env, guard, stmt)
        if isinstance(e, ast.Slice):
            lo = self.expr(e.lower, env) if e.lower is not None else NONE
            hi = self.expr(e.upper, env) if e.upper is not None else NONE
            st = self.expr(e.step, env) if e.step is not None else NONE
            return Obj("slice", (vkey(lo), vkey(hi), vkey(st), lo, hi, st))
        if isinstance(e, ast.JoinedStr):
            return Obj("str", "<fstring>")
        if isinstance(e, ast.Lambda):
            key = "lambda:" + norm_text(e)
            ev.fn_registry[key] = (e, self.fi, env)
            return Obj("lambda", key)
        if isinstance(e, (ast.ListComp, ast.GeneratorExp)) and len(e.generators) == 1 and not e.generators[0].is_async:
            unrolled = self._unrolled_comprehension(e, env)
            if unrolled is not None:
                return unrolled
        if isinstance(e, (ast.ListComp, ast.GeneratorExp)) and self.ev.summarise_loops and self.havoc_depth == 0:
            from .seqdom import comprehension, NoSummary
            try:
                return comprehension(self, e, env)
            except NoSummary as ex:
                self.ev.summary_log.append((getattr(e, "lineno", 0), str(ex)))
        if isinstance(e, (ast.ListComp, ast.GeneratorExp, ast.SetComp, ast.DictComp)):
            return anf.opaque("comp", extra=norm_text(e))
        if isinstance(e, ast.Dict):
            return Obj("dict", tuple((vkey(self.expr(k, env)), vkey(self.expr(v, env)), self.expr(v, env)) for k, v in zip(e.keys, e.values) if k is not None))
        if isinstance(e, ast.Starred):
            return self.expr(e.value, env)
        if isinstance(e, ast.NamedExpr) and isinstance(e.target, ast.Name):
            # (x := value): binds x in the enclosing function scope and is the value
            v = self.expr(e.value, env, guard, stmt)
            env[e.target.id] = v
            return v
        raise Unsupported(f"expression {type(e).__name__}")

    def lk_resolve(self, node):
        return self.ev.lk.resolve(self.mod, node)

    def compare(self, e: ast.Compare, env) -> G:
        left = self.expr(e.left, env)
        out = []
        for op, right_e in zip(e.ops, e.comparators):
            right = self.expr(right_e, env)
            out.append(self.compare1(op, left, right, e))
            left = right
        return g_and(*out)

    def compare1(self, op, a, b, node) -> Any:
        ev = self.ev
        opname = {ast.Lt: "<", ast.LtE: "<=", ast.Gt: ">", ast.GtE: ">=", ast.Eq: "==", ast.NotEq: "!="}.get(type(op))
        if isinstance(a, PW) or isinstance(b, PW):
            res = lift(lambda x, y: self.compare1(op, x, y, node), a, b)
            if isinstance(res, PW):
                return g_or(*[g_and(g, v) for g, v in res.cases])
            return res
        if isinstance(a, G) and isinstance(b, G) and isinstance(op, (ast.Eq, ast.NotEq, ast.Is, ast.IsNot)):
            # two truth values compared: `(turn > 0) == lower`
            same = g_or(g_and(a, b), g_and(g_not(a), g_not(b)))
            return same if isinstance(op, (ast.Eq, ast.Is)) else g_not(same)
        if isinstance(op, (ast.Is, ast.IsNot, ast.In, ast.NotIn)) or isinstance(a, (Obj, G)) or isinstance(b, (Obj, G)):
            ka, kb = vkey(a), vkey(b)
            if isinstance(op, (ast.Is, ast.Eq)) or (opname == "==" ):
                pos = True
            elif isinstance(op, (ast.IsNot, ast.NotEq)):
                pos = False
            elif isinstance(op, (ast.In, ast.NotIn)):
                if isinstance(b, Obj) and b.tag == "dict":
                    present = any(e[0] == ka for e in b.val)
                    g = TRUE if present else FALSE
                elif isinstance(b, Vec) and b.kind == "list" and not b.items:
                    g = FALSE
                else:
                    g = g_atom(("in", ka, kb))
                    self.ev.in_registry[g.key] = (a, b)        # membership facts: (element value, container value)
                return g if isinstance(op, ast.In) else g_not(g)
            else:
                return g_atom(("cmp", opname, ka, kb))
            for u, w in ((a, b), (b, a)):
                if isinstance(u, Obj) and u.tag == "none" and isinstance(w, Rat):
                    ats = w.atoms()
                    bare = len(ats) == 1 and w.equals(Rat.from_atom(ats[0])) and (
                        ats[0].kind == "sym" or ats[0].name.startswith(("slot:", "call:", "dep:", "method:", "item", "np.", "py.")))
                    if bare and ats[0].name.startswith("call:") and self.ev.never_none(ats[0].name[5:]):
                        bare = False            # callee return summary: it never returns None
                    if not bare:
                        return FALSE if pos else TRUE      # a computed number is never None
            if isinstance(a, Obj) and isinstance(b, Obj) and a.tag in ("enum", "none", "str") and b.tag in ("enum", "none", "str"):
                same = ka == kb
                return (TRUE if same else FALSE) if pos else (FALSE if same else TRUE)
            k = tuple(sorted([repr(ka), repr(kb)]))
            g = g_atom(("same", k), f"{_disp(a)} is {_disp(b)}")
            return g if pos else g_not(g)
        if isinstance(a, Vec) or isinstance(b, Vec):
            if opname in ("==", "!=") and isinstance(a, Vec) and isinstance(b, Vec) and len(a.items) == len(b.items):
                eqs = [self.compare1(ast.Eq(), x, y, node) for x, y in zip(a.items, b.items)]
                g = g_and(*eqs)
                if opname == "==":
                    self.ev.vec_compare[g.key] = (g, g_or(*eqs))
                    return g
                ne = g_not(g)
                self.ev.vec_compare[ne.key] = (g_and(*[g_not(q) for q in eqs]), ne)
                return ne
            # element-wise comparison of a vector with a scalar: opaque mask
            return g_atom(("cmp", opname, vkey(a), vkey(b)))
        ra, rb = ev.to_rat(a), ev.to_rat(b)
        return compare(opname, ra, rb)

    # -- subscripts ----------------------------------------------------------
    def subscript(self, e: ast.Subscript, env):
        ev = self.ev
        base = self.expr(e.value, env)
        sl = e.slice
        if isinstance(base, PW):
            return lift(lambda b: self._sub(b, sl, env, e), base)
        return self._sub(base, sl, env, e)

    def _const_index(self, sl, env) -> Optional[int]:
        if isinstance(sl, ast.Constant) and isinstance(sl.value, int) and not isinstance(sl.value, bool):
            return sl.value
        if isinstance(sl, ast.UnaryOp) and isinstance(sl.op, ast.USub) and isinstance(sl.operand, ast.Constant) \
                and isinstance(sl.operand.value, int):
            return -sl.operand.value
        if isinstance(sl, ast.Name) and sl.id not in env:
            # a module-level integer constant used as a column / component number (`_X = 0; points[:, _X]`)
            try:
                v = self.expr(sl, env)
            except Unsupported:
                return None
            c = v.is_const() if isinstance(v, Rat) else None
            if c is not None and c.denominator == 1:
                return int(c)
        return None

    def _sub_value(self, base, idx):
        """base[idx] for an already evaluated, non-slice index value."""
        ev = self.ev
        if isinstance(idx, PW) or isinstance(base, PW):
            return lift(lambda b, i: self._sub_value(b, i), base, idx)
        if self._idx_obligations is not None and isinstance(idx, Rat) and not idx.is_array():
            try:
                self._idx_obligations.append((idx, ev.length_of(base)))
            except Unsupported:
                raise Unsupported("subscript of a value of unknown length inside try/except IndexError")
        if isinstance(base, Vec):
            arr = base.kind == "point" and base.items and isinstance(base.items[0], Rat) and base.items[0].is_array()
            if arr:
                if isinstance(idx, Rat) and not idx.is_array():
                    return Vec([self._at(c, idx) for c in base.items], "point")
                if isinstance(idx, G):
                    return Vec([anf.opaque("mask", c, ev.to_rat(idx), array=True) for c in base.items], "point")
                return Vec([anf.opaque("take", c, ev.to_rat(idx), array=True) for c in base.items], "point")
            if base.kind == "list":
                it = self._list_item(base, idx)
                if it is not None:
                    return it
            c = idx.is_const() if isinstance(idx, Rat) else None
            if c is not None and c.denominator == 1 and -len(base.items) <= int(c) < len(base.items):
                return base.items[int(c)]
            return anf.opaque("item", ev.to_rat(base), ev.to_rat(idx))
        if isinstance(base, Obj):
            return anf.opaque("item", ev.to_rat(base), ev.to_rat(idx) if not isinstance(idx, Obj) else anf.opaque("obj", extra=repr(idx.key)))
        r = ev.to_rat(base)
        if isinstance(idx, G):
            return anf.opaque("mask", r, anf.opaque("bool", extra=repr(idx.key)), array=True)
        if isinstance(idx, Vec):
            if idx.kind == "list":
                return Vec([self._at(r, ev.to_rat(i)) for i in idx.items], "list")
            # a tuple is ONE (multi-dimensional / dictionary) key
            return anf.opaque("item", r, *[ev.to_rat(i) if not isinstance(i, Obj) else anf.opaque("obj", extra=repr(i.key)) for i in idx.items])
        ir = ev.to_rat(idx)
        if ir.is_array():
            return anf.opaque("take", r, ir, array=True)
        return self._at(r, ir)

    def _sub(self, base, sl, env, node):
        ev = self.ev
        if not isinstance(sl, (ast.Slice, ast.Tuple)) and self._const_index(sl, env) is None:
            idx0 = self.expr(sl, env)
            if isinstance(idx0, PW):
                return self._sub_value(base, idx0)
        ci = self._const_index(sl, env)
        if isinstance(base, Vec):
            arr = base.kind == "point" and isinstance(base.items[0], Rat) and base.items[0].is_array()
            # points[:, k] / x[..., k]
            if isinstance(sl, ast.Tuple) and len(sl.elts) == 2:
                first, second = sl.elts
                k = self._const_index(second, env)
                if k is not None and (isinstance(first, ast.Slice) and first.lower is None and first.upper is None
                                      or (isinstance(first, ast.Constant) and first.value is Ellipsis)):
                    if -len(base.items) <= k < len(base.items):
                        return base.items[k]
                if k is not None and arr:
                    row = self._sub(base, first, env, node)
                    if isinstance(row, Vec):
                        return row.items[k]
                    if isinstance(row, PW):
                        return mk_pw([(g_, r_.items[k]) for g_, r_ in row.cases if isinstance(r_, Vec)]) \
                            if all(isinstance(r_, Vec) for _g, r_ in row.cases) else self._sub_value(row, Rat.const(k))
            if arr:
                if ci is not None:
                    return Vec([self._at(c, Rat.const(ci)) for c in base.items], "point")
                if isinstance(sl, ast.Slice):
                    lo = self.expr(sl.lower, env) if sl.lower is not None else NONE
                    hi = self.expr(sl.upper, env) if sl.upper is not None else NONE
                    if sl.step is not None:
                        raise Unsupported("stepped slice")
                    return Vec([self._slice(c, lo, hi) for c in base.items], "point")
                idx = self.expr(sl, env)
                if isinstance(idx, PW):
                    return self._sub_value(base, idx)
                if isinstance(idx, Rat) and not idx.is_array():
                    return Vec([self._at(c, idx) for c in base.items], "point")
                if isinstance(idx, G):
                    ik = self.ev.to_rat(idx)
                    return Vec([anf.opaque("mask", c, ik, array=True) for c in base.items], "point")
                if (isinstance(idx, Rat) and idx.is_array()) or isinstance(idx, Vec):
                    ik = self.ev.to_rat(idx)
                    return Vec([anf.opaque("take", c, ik, array=True) for c in base.items], "point")
                return Vec([anf.opaque("take", c, ev.to_rat(idx), array=True) for c in base.items], "point")
            if base.kind == "list" and not isinstance(sl, (ast.Slice, ast.Tuple)):
                it = self._list_item(base, Rat.const(ci) if ci is not None else self.expr(sl, env))
                if it is not None:
                    return it
            if ci is not None:
                if -len(base.items) <= ci < len(base.items):
                    return base.items[ci]
                raise Unsupported("constant index out of range")
            if isinstance(sl, ast.Slice) and sl.step is not None:
                return self._stepped(ev.to_rat(base), sl, env)
            if isinstance(sl, ast.Slice) and sl.step is None:
                lo = self._const_index(sl.lower, env) if sl.lower is not None else 0
                hi = self._const_index(sl.upper, env) if sl.upper is not None else len(base.items)
                if lo is not None and hi is not None:
                    return Vec(base.items[lo:hi], base.kind)
            idx = self.expr(sl, env)
            cidx = idx.is_const() if isinstance(idx, Rat) else None
            if cidx is not None and cidx.denominator == 1 and -len(base.items) <= int(cidx) < len(base.items):
                return base.items[int(cidx)]
            return anf.opaque("item", ev.to_rat(base), ev.to_rat(idx))
        if isinstance(base, Obj):
            if base.tag == "dict":
                idx = self.expr(sl, env)
                for (kk, _vk, vv) in base.val:
                    if kk == vkey(idx):
                        return vv
                if isinstance(idx, G):
                    # a table keyed by True / False, indexed by a condition: one entry per truth value
                    t_ = [vv for (kk, _vk, vv) in base.val if kk == TRUE.key]
                    f_ = [vv for (kk, _vk, vv) in base.val if kk == FALSE.key]
                    if len(t_) == 1 and len(f_) == 1:
                        return mk_pw([(idx, t_[0]), (g_not(idx), f_[0])])
                return Obj("dictitem", (base.key, vkey(idx)))
            idx = self.expr(sl, env)
            return anf.opaque("item", ev.to_rat(base), ev.to_rat(idx) if not isinstance(idx, Obj) else anf.opaque("obj", extra=repr(idx.key)))
        r = ev.to_rat(base)
        if isinstance(sl, ast.Slice):
            if sl.step is not None:
                return self._stepped(r, sl, env)
            lo = self.expr(sl.lower, env) if sl.lower is not None else NONE
            hi = self.expr(sl.upper, env) if sl.upper is not None else NONE
            return self._slice(r, lo, hi)
        if isinstance(sl, ast.Tuple):
            idxs = [self.expr(x, env) for x in sl.elts]
            return anf.opaque("item", r, *[ev.to_rat(i) if not isinstance(i, Obj) else anf.opaque("obj", extra=repr(i.key)) for i in idxs],
                              array=any(isinstance(x, ast.Slice) for x in sl.elts))
        idx = self.expr(sl, env)
        if isinstance(idx, G):
            return anf.opaque("mask", r, ev.to_rat(idx), array=True)
        if isinstance(idx, Vec):
            if idx.kind == "list":
                return Vec([self._at(r, ev.to_rat(i)) for i in idx.items], "list")
            return anf.opaque("item", r, *[ev.to_rat(i) if not isinstance(i, Obj) else anf.opaque("obj", extra=repr(i.key)) for i in idx.items])
        ir = ev.to_rat(idx)
        if ir.is_array():
            return anf.opaque("take", r, ir, array=True)
        return self._at(r, ir)

    def _unrolled_comprehension(self, e, env):
        """[f(c) for c in <display of known items>]: one element per item, in order.  None when the iterable is not a tuple / list
        display whose items are all known, or a filter cannot be decided."""
        from .seqdom import Gen
        g = e.generators[0]
        if not isinstance(g.iter, (ast.Name, ast.Tuple, ast.List)):
            return None
        try:
            it = self.expr(g.iter, env)
        except Unsupported:
            return None
        if not (isinstance(it, Vec) and it.kind in ("tuple", "list") and not any(isinstance(i_, Gen) for i_ in it.items)) or len(it.items) > 8:
            return None
        out = []
        for item in it.items:
            loc = dict(env)
            try:
                self.assign(g.target, item, loc, TRUE, None)
                keep_ = TRUE
                for c in g.ifs:
                    keep_ = g_and(keep_, self.cond(c, loc))
                if keep_.kind == "false":
                    continue
                if keep_.kind != "true":
                    return None
                out.append(self.expr(e.elt, loc))
            except Unsupported:
                return None
        return Vec(out, "list")

    def _list_item(self, base: "Vec", idx):
        """base[idx] of a list that holds a summarised block: the element of the block at that position (the position is taken
        to exist, as for arrays).  None when the list has no block (plain item selection applies)."""
        from .seqdom import Gen, flatten, subst_value, NoSummary
        items = flatten(base.items)
        if not any(isinstance(i, Gen) for i in items):
            return None
        if not (isinstance(idx, Rat) and not idx.is_array()):
            raise Unsupported("a list built by a summarised loop is indexed by a value that is not a scalar position")
        c = idx.is_const()
        # plain items in front of the first block are positions 0..k-1
        k = 0
        while not isinstance(items[k], Gen):
            k += 1
        if c is not None and c.denominator == 1 and 0 <= int(c) < k:
            return items[int(c)]
        g = items[k]
        if len(items) == k + 1 and (c is None or c >= k) and g.ranged and g.lo is not None and g.lo.is_zero() and g.step.is_const() == 1 \
                and len(g.parts) == 1 and g.parts[0][0].kind == "true" and not g.parts[0][2]:
            try:
                return subst_value(g.parts[0][1], {g.var: idx.sub(Rat.const(k))})
            except NoSummary as e:
                raise Unsupported(f"element of a summarised list: {e}")
        raise Unsupported("element of a list built by a conditional or spliced summarised loop")

    def _at(self, arr: Rat, idx: Rat) -> Rat:
        """Element of an element-wise expression = the expression of the elements."""
        if not arr.is_array():
            return anf.opaque("item", arr, idx, array=False)
        if idx.is_const() is None:
            # x[len(x) - k] is x[-k] (before slices are resolved to positions of their base)
            try:
                back = idx.sub(self.ev.length_of(arr)).is_const()
            except Unsupported:
                back = None
            if back is not None and back < 0 and back.denominator == 1:
                idx = Rat.const(back)

        ats = arr.atoms()
        if len(ats) == 1 and ats[0].kind == "fn" and ats[0].name.startswith(("call:", "slot:", "dep:")) and arr.equals(Rat.from_atom(ats[0])) \
                and idx.is_const() is not None and idx.is_const() >= 0:
            # component k of an opaque call result: the same value whether it is reached by r[k] or by unpacking
            return anf.opaque("item", arr, idx, array=False)
        if len(ats) == 1 and ats[0].kind == "fn" and ats[0].name == "slice" and arr.equals(Rat.from_atom(ats[0])):
            base, lo, hi = ats[0].args
            c = idx.is_const()
            if c is not None and c >= 0:
                lo_v = Rat.const(0) if lo.symbols() == {"None"} else lo
                lc = lo_v.is_const()
                if lc is None or lc >= 0:
                    return self._at(base, lo_v.add(idx))
            if c is not None and c < 0:
                if hi.symbols() == {"None"}:
                    return self._at(base, idx)
                hc = hi.is_const()
                if hc is None or hc >= 0:
                    return self._at(base, hi.add(idx))
        mapping = {}
        for a in arr.all_atoms():
            if a.kind == "sym" and a.array:
                mapping[a.name] = anf.opaque("at", Rat.from_atom(a), idx, array=False)
        # only safe when every array atom is a plain symbol (element-wise expression)
        for a in arr.all_atoms():
            if a.kind == "fn" and a.array and a.name not in ("abs", "sqrt", "log", "max", "min", "pow"):
                return anf.opaque("at", arr, idx, array=False)
        return arr.subst(mapping)

    def _stepped(self, r: Rat, sl: ast.Slice, env) -> Rat:
        ev = self.ev
        st = ev.to_rat(self.expr(sl.step, env))

        def bnd(n_):
            if n_ is None:
                return sym("None")
            v_ = self.expr(n_, env)
            return sym("None") if isinstance(v_, Obj) and v_.tag == "none" else ev.to_rat(v_)
        if st.is_const() == -1:
            # x[s:e:-1]: the positions s, s-1, .., e+1 (s defaults to the last position, e to "through position 0")
            return anf.opaque("rslice", r, bnd(sl.lower), bnd(sl.upper), array=True)
        return anf.opaque("stepslice", r, bnd(sl.lower), bnd(sl.upper), st, array=True)

    def _slice(self, arr: Rat, lo, hi) -> Rat:
        def k(v):
            if isinstance(v, Obj) and v.tag == "none":
                return sym("None")
            return self.ev.to_rat(v)
        lo_r = k(lo)
        if lo_r.symbols() == {"None"}:
            lo_r = Rat.const(0)          # x[:b] is x[0:b]
        hi_r = k(hi)
        return anf.opaque("slice", arr, lo_r, hi_r, array=True)

    # -- calls ---------------------------------------------------------------
    def call(self, e: ast.Call, env, guard: G, stmt):
        from .npmodel import dispatch_call
        return dispatch_call(self, e, env, self.cur_guard, stmt)


def rslice_bounds(a: Atom, base_len: Rat):
    """(first, stop) of x[s:e:-1] as plain positions: the view holds x[first], x[first-1], .., x[stop+1]
    (valid for in-range bounds)."""
    def bound(b, default):
        if b.symbols() == {"None"}:
            return default
        c = b.is_const()
        if c is not None and c < 0:
            return base_len.add(b)
        return b
    return bound(a.args[1], base_len.sub(Rat.const(1))), bound(a.args[2], Rat.const(-1))


def _disp(v) -> str:
    if isinstance(v, Obj):
        return str(v.val) if v.val is not None else v.tag
    return str(v)[:60]


def _nonneg_count(r: Rat) -> bool:
    """Sum of non-negative multiples of lengths (len atoms): provably >= 0."""
    if r.den != {(): 1}:
        return False
    for m, c in r.num.items():
        if c < 0 or any(not (at.kind == "fn" and at.name == "len") for at, _e in m):
            return False
    return True


_BINOPS = {ast.Add: "+", ast.Sub: "-", ast.Mult: "*", ast.Div: "/", ast.Pow: "**", ast.FloorDiv: "//", ast.Mod: "%"}
