"""Statement-level control-flow graph for the statement kinds the repository
uses (If / For / While / Break / Continue / Return / Raise / With / simple
statements).  Anything else fails closed."""

from __future__ import annotations

import ast
from typing import Dict, List, Optional, Tuple

from . import AnalysisError


class Node:
    __slots__ = ("id", "kind", "ast", "label")

    def __init__(self, nid: int, kind: str, node=None, label: str = ""):
        self.id = nid
        self.kind = kind      # entry | exit | stmt | test | for | return | raise
        self.ast = node
        self.label = label

    def __repr__(self):
        t = ""
        if self.ast is not None:
            try:
                t = ast.unparse(self.ast).split("\n")[0][:50]
            except Exception:
                t = type(self.ast).__name__
        return f"<{self.id}:{self.kind} {t}>"


class CFG:
    def __init__(self, func_node):
        self.func = func_node
        self.nodes: List[Node] = []
        self.succ: Dict[int, List[Tuple[int, Optional[str]]]] = {}
        self.pred: Dict[int, List[Tuple[int, Optional[str]]]] = {}
        self.entry = self._new("entry")
        self.exit = self._new("exit")
        self._loops: List[Tuple[int, List[int]]] = []   # (continue target, break sources)
        body = func_node.body if not isinstance(func_node, ast.Lambda) else [ast.Return(value=func_node.body)]
        out = self._seq(body, [(self.entry.id, None)])
        for src, lab in out:
            self._edge(src, self.exit.id, lab)

    # construction ---------------------------------------------------------
    def _new(self, kind, node=None, label="") -> Node:
        n = Node(len(self.nodes), kind, node, label)
        self.nodes.append(n)
        self.succ[n.id] = []
        self.pred[n.id] = []
        return n

    def _edge(self, a: int, b: int, lab=None):
        if (b, lab) not in self.succ[a]:
            self.succ[a].append((b, lab))
            self.pred[b].append((a, lab))

    def _attach(self, preds, n: Node):
        for src, lab in preds:
            self._edge(src, n.id, lab)

    def _seq(self, stmts, preds):
        for st in stmts:
            preds = self._stmt(st, preds)
        return preds

    def _stmt(self, st, preds):
        if isinstance(st, ast.If):
            t = self._new("test", st.test)
            t.label = "if"
            self._attach(preds, t)
            out_t = self._seq(st.body, [(t.id, True)])
            out_f = self._seq(st.orelse, [(t.id, False)])
            return out_t + out_f
        if isinstance(st, ast.While):
            t = self._new("test", st.test)
            t.label = "while"
            self._attach(preds, t)
            self._loops.append((t.id, []))
            out_b = self._seq(st.body, [(t.id, True)])
            _, breaks = self._loops.pop()
            for src, lab in out_b:
                self._edge(src, t.id, lab)
            out = self._seq(st.orelse, [(t.id, False)])
            return out + [(b, None) for b in breaks]
        if isinstance(st, ast.For):
            h = self._new("for", st)
            self._attach(preds, h)
            self._loops.append((h.id, []))
            out_b = self._seq(st.body, [(h.id, "iter")])
            _, breaks = self._loops.pop()
            for src, lab in out_b:
                self._edge(src, h.id, lab)
            out = self._seq(st.orelse, [(h.id, "exhausted")])
            return out + [(b, None) for b in breaks]
        if isinstance(st, ast.Break):
            n = self._new("stmt", st)
            self._attach(preds, n)
            if not self._loops:
                raise AnalysisError("break outside loop")
            self._loops[-1][1].append(n.id)
            return []
        if isinstance(st, ast.Continue):
            n = self._new("stmt", st)
            self._attach(preds, n)
            if not self._loops:
                raise AnalysisError("continue outside loop")
            self._edge(n.id, self._loops[-1][0], None)
            return []
        if isinstance(st, ast.Return):
            n = self._new("return", st)
            self._attach(preds, n)
            self._edge(n.id, self.exit.id, None)
            return []
        if isinstance(st, ast.Raise):
            n = self._new("raise", st)
            self._attach(preds, n)
            self._edge(n.id, self.exit.id, "raise")
            return []
        if isinstance(st, ast.With):
            n = self._new("stmt", st)
            n.label = "with"
            self._attach(preds, n)
            return self._seq(st.body, [(n.id, None)])
        if isinstance(st, (ast.Assign, ast.AugAssign, ast.AnnAssign, ast.Expr, ast.Delete, ast.Import,
                           ast.ImportFrom, ast.Pass, ast.FunctionDef, ast.ClassDef, ast.Assert)):
            n = self._new("stmt", st)
            self._attach(preds, n)
            return [(n.id, None)]
        raise AnalysisError(f"statement kind {type(st).__name__} at line {getattr(st, 'lineno', '?')} is outside the analysed subset")

    # queries --------------------------------------------------------------
    def rpo(self) -> List[int]:
        seen = set()
        order: List[int] = []

        def dfs(n):
            stack = [(n, iter(self.succ[n]))]
            seen.add(n)
            while stack:
                cur, it = stack[-1]
                adv = False
                for (m, _l) in it:
                    if m not in seen:
                        seen.add(m)
                        stack.append((m, iter(self.succ[m])))
                        adv = True
                        break
                if not adv:
                    order.append(cur)
                    stack.pop()
        dfs(self.entry.id)
        order.reverse()
        return order

    def reachable(self) -> set:
        return set(self.rpo())
