"""Checker self-validation on the current tree (thorough tier).

Two corpora, both computed from /repo's *current* source by AST edits and run
against scratch copies outside /repo and /verif (removed afterwards):

* equivalence-preserving rewrites -- the check must stay silent (exit 0);
* seeded breaks (kverif/seeds/<ID>.json, every entry confirmed by hand to break
  the property while the test-suite still passes) -- the check must report a
  VIOLATION naming the expected rule.

A failure of either kind means the *checker* is wrong: it is reported as an
analysis error (exit 2), never as a violation of the property.
"""

from __future__ import annotations

import ast
import copy
import json
import os
import shutil
import subprocess
import sys
import tempfile
from concurrent.futures import ThreadPoolExecutor
from typing import Callable, Dict, Iterable, List, Optional, Tuple

from . import VERIF_ROOT, repo_root
from .model import Module, Repo, PKG

SEEDS_DIR = os.path.join(os.path.dirname(os.path.abspath(__file__)), "seeds")

# modules whose source the rules of a property read
PROP_FILES: Dict[str, List[str]] = {
    "C01": ["rdp", "linear_fit"], "C02": ["multi_knee", "curvature", "dfdt", "menger", "lmethod", "kneedle", "linear_fit", "metrics"],
    "C04": ["rdp", "linear_fit", "metrics"], "C05": ["rdp", "linear_fit"], "C06": ["rdp", "evaluation"], "C07": ["rdp"],
    "C08": ["postprocessing", "knee_ranking", "convex_hull", "rdp"], "C09": ["curvature", "dfdt", "menger", "lmethod"], "C10": ["zmethod"],
    "C11": ["clustering"], "C12": ["postprocessing", "knee_ranking", "convex_hull", "linear_fit"], "C13": ["postprocessing", "knee_ranking"],
    "C14": ["postprocessing", "rdp"], "C15": ["evaluation", "linear_fit", "metrics"], "C16": ["metrics", "linear_fit"],
    "C17": ["linear_fit", "knee_ranking", "menger", "postprocessing"], "C18": ["convex_hull"], "C19": ["evaluation"],
    "C20": ["rdp", "kneedle", "convex_hull", "evaluation", "zmethod", "postprocessing", "linear_fit"],
}


# --------------------------------------------------------------------------
# equivalence-preserving transforms (source -> source)
# --------------------------------------------------------------------------

def t_roundtrip(src: str, path: str) -> str:
    """ast.unparse round trip: drops comments, normalises layout, parentheses and quotes."""
    return ast.unparse(ast.parse(src)) + "\n"


class _Rename(ast.NodeTransformer):
    pass


def t_alpha(src: str, path: str) -> str:
    """alpha-rename every function-local variable (parameters keep their names: they are API)."""
    tmp_repo = _MiniRepo(path, src)
    mod = tmp_repo.mod
    renames: Dict[int, str] = {}
    for fi in mod.all_functions:
        sc = fi.scope
        params = set(sc.params)
        a = fi.node.args
        if a.vararg:
            params.add(a.vararg.arg)
        if a.kwarg:
            params.add(a.kwarg.arg)
        locals_ = {n for n in sc.bound if n not in params and n not in sc.imports and not n.startswith("__")}
        nested_defs = {n.name for n in ast.walk(fi.node) if isinstance(n, (ast.FunctionDef, ast.ClassDef)) and n is not fi.node}
        locals_ -= nested_defs
        for node in ast.walk(fi.node):
            if isinstance(node, ast.Name) and node.id in locals_:
                s = mod.node_scope.get(id(node))
                r = s.lookup(node.id) if s is not None else None
                if r is not None and r[1] is sc:
                    renames[id(node)] = node.id + "_q"
    for node in ast.walk(mod.tree):
        if isinstance(node, ast.Name) and id(node) in renames:
            node.id = renames[id(node)]
    return ast.unparse(mod.tree) + "\n"


class _MiniRepo:
    def __init__(self, path: str, src: str):
        class R:
            root = os.path.dirname(path)
        d = tempfile.mkdtemp(prefix="kverif-mini-")
        try:
            p = os.path.join(d, os.path.basename(path))
            with open(p, "w") as fh:
                fh.write(src)
            r = R()
            r.root = d
            self.mod = Module(r, PKG + "." + os.path.basename(path)[:-3], p, "package")
        finally:
            shutil.rmtree(d, ignore_errors=True)


def t_return_temp(src: str, path: str) -> str:
    """`return <expr>`  ->  `_rv = <expr>; return _rv` (introduces a temporary)."""
    tree = ast.parse(src)

    class T(ast.NodeTransformer):
        def visit_Lambda(self, node):
            return node

        def visit_Return(self, node):
            if node.value is None or isinstance(node.value, (ast.Name, ast.Constant)):
                return node
            a = ast.Assign(targets=[ast.Name(id="_rv", ctx=ast.Store())], value=node.value)
            r = ast.Return(value=ast.Name(id="_rv", ctx=ast.Load()))
            return [ast.copy_location(a, node), ast.copy_location(r, node)]
    tree = T().visit(tree)
    ast.fix_missing_locations(tree)
    return ast.unparse(tree) + "\n"


_FLIP = {ast.Lt: ast.Gt, ast.Gt: ast.Lt, ast.LtE: ast.GtE, ast.GtE: ast.LtE}
_NEG = {ast.Lt: ast.GtE, ast.GtE: ast.Lt, ast.Gt: ast.LtE, ast.LtE: ast.Gt}


def t_compare_mirror(src: str, path: str) -> str:
    """`a < b` -> `b > a` (mirrored operands)."""
    tree = ast.parse(src)

    class T(ast.NodeTransformer):
        def visit_Compare(self, node):
            self.generic_visit(node)
            if len(node.ops) == 1 and type(node.ops[0]) in _FLIP:
                return ast.copy_location(ast.Compare(left=node.comparators[0], ops=[_FLIP[type(node.ops[0])]()], comparators=[node.left]), node)
            return node
    tree = T().visit(tree)
    ast.fix_missing_locations(tree)
    return ast.unparse(tree) + "\n"


def t_compare_not(src: str, path: str) -> str:
    """`a < b` -> `not (a >= b)` in `if` / `while` tests and ternaries (scalar context only)."""
    tree = ast.parse(src)

    def neg(node):
        if isinstance(node, ast.Compare) and len(node.ops) == 1 and type(node.ops[0]) in _NEG:
            inner = ast.Compare(left=node.left, ops=[_NEG[type(node.ops[0])]()], comparators=node.comparators)
            return ast.copy_location(ast.UnaryOp(op=ast.Not(), operand=inner), node)
        return node

    class T(ast.NodeTransformer):
        def visit_If(self, node):
            self.generic_visit(node)
            node.test = neg(node.test)
            return node

        def visit_IfExp(self, node):
            self.generic_visit(node)
            node.test = neg(node.test)
            return node
    tree = T().visit(tree)
    ast.fix_missing_locations(tree)
    return ast.unparse(tree) + "\n"


def t_if_swap(src: str, path: str) -> str:
    """`if c: A else: B` -> `if not c: B else: A` (only when both branches exist and there is no elif chain)."""
    tree = ast.parse(src)

    class T(ast.NodeTransformer):
        def visit_If(self, node):
            self.generic_visit(node)
            if node.orelse and not (len(node.orelse) == 1 and isinstance(node.orelse[0], ast.If)) and not isinstance(node.test, ast.BoolOp):
                return ast.copy_location(ast.If(test=ast.UnaryOp(op=ast.Not(), operand=node.test), body=node.orelse, orelse=node.body), node)
            return node
    tree = T().visit(tree)
    ast.fix_missing_locations(tree)
    return ast.unparse(tree) + "\n"


def t_commute(src: str, path: str) -> str:
    """commute the operands of `*` (numeric everywhere in the package) and of `+` when both operands are
    arithmetic expressions (names, attributes, subscripts, calls, numbers)."""
    tree = ast.parse(src)

    def arith(n):
        if isinstance(n, ast.Constant):
            return isinstance(n.value, (int, float)) and not isinstance(n.value, bool)
        return isinstance(n, (ast.Name, ast.Attribute, ast.Subscript, ast.Call, ast.BinOp, ast.UnaryOp)) and not isinstance(n, (ast.List, ast.Tuple))

    class T(ast.NodeTransformer):
        def visit_BinOp(self, node):
            self.generic_visit(node)
            if isinstance(node.op, ast.Mult) and arith(node.left) and arith(node.right):
                node.left, node.right = node.right, node.left
            return node
    tree = T().visit(tree)
    ast.fix_missing_locations(tree)
    return ast.unparse(tree) + "\n"


def t_square(src: str, path: str) -> str:
    """`np.square(u)` -> `u ** 2` ; `u ** 2.0` -> `u * u` for simple operands."""
    tree = ast.parse(src)

    class T(ast.NodeTransformer):
        def visit_Call(self, node):
            self.generic_visit(node)
            if isinstance(node.func, ast.Attribute) and node.func.attr == "square" and isinstance(node.func.value, ast.Name) and node.func.value.id == "np" \
                    and len(node.args) == 1 and not node.keywords:
                return ast.copy_location(ast.BinOp(left=node.args[0], op=ast.Pow(), right=ast.Constant(value=2)), node)
            return node

        def visit_BinOp(self, node):
            self.generic_visit(node)
            if isinstance(node.op, ast.Pow) and isinstance(node.right, ast.Constant) and node.right.value in (2, 2.0) and isinstance(node.left, ast.Name):
                return ast.copy_location(ast.BinOp(left=node.left, op=ast.Mult(), right=copy.deepcopy(node.left)), node)
            return node
    tree = T().visit(tree)
    ast.fix_missing_locations(tree)
    return ast.unparse(tree) + "\n"


def t_logging(src: str, path: str) -> str:
    """insert a logging call at the top of every function of a module that has a module-level `logger`
    (numba-jitted functions are left alone)."""
    tree = ast.parse(src)
    has_logger = any(isinstance(st, ast.Assign) and any(isinstance(t, ast.Name) and t.id == "logger" for t in st.targets) for st in tree.body)
    if not has_logger:
        return src
    for st in tree.body:
        if isinstance(st, ast.FunctionDef) and not st.decorator_list:
            call = ast.Expr(value=ast.Call(func=ast.Attribute(value=ast.Name(id="logger", ctx=ast.Load()), attr="debug", ctx=ast.Load()),
                                           args=[ast.Constant(value=f"enter {st.name}")], keywords=[]))
            k = 1 if st.body and isinstance(st.body[0], ast.Expr) and isinstance(st.body[0].value, ast.Constant) and isinstance(st.body[0].value.value, str) else 0
            st.body.insert(k, call)
    ast.fix_missing_locations(tree)
    return ast.unparse(tree) + "\n"


EQUIV: Dict[str, Callable[[str, str], str]] = {
    "roundtrip": t_roundtrip, "alpha-rename-locals": t_alpha, "return-temporary": t_return_temp, "compare-mirror": t_compare_mirror,
    "compare-not": t_compare_not, "if-swap": t_if_swap, "commute-mult": t_commute, "square-forms": t_square, "logging": t_logging,
}


# --------------------------------------------------------------------------
# running variants
# --------------------------------------------------------------------------

def make_copy(root: str) -> str:
    base = os.environ.get("TMPDIR") or tempfile.gettempdir()
    d = tempfile.mkdtemp(prefix="kverif-selftest-", dir=base)
    for sub in ("src", "demos"):
        s = os.path.join(root, sub)
        if os.path.isdir(s):
            shutil.copytree(s, os.path.join(d, sub), ignore=shutil.ignore_patterns("__pycache__", "*.pyc", "*.egg-info"))
    for f in ("setup.cfg",):
        if os.path.exists(os.path.join(root, f)):
            shutil.copy(os.path.join(root, f), d)
    return d


def run_variant(prop: str, root: str, edits: Dict[str, str]) -> Tuple[int, List[str]]:
    """Applies {relpath: new source} to a scratch copy and runs the quick check there."""
    d = make_copy(root)
    try:
        for rel, new_src in edits.items():
            p = os.path.join(d, rel)
            with open(p, "w") as fh:
                fh.write(new_src)
            compile(new_src, p, "exec")
        env = dict(os.environ)
        env["KVERIF_REPO"] = d
        env["KVERIF_EVIDENCE_DIR"] = os.path.join(d, "_evidence")
        env.pop("VERIF_TIER", None)
        r = subprocess.run([sys.executable, "-m", "kverif", "check", prop, "--tier", "quick"], cwd=VERIF_ROOT, env=env,
                           capture_output=True, text=True, timeout=600)
        lines = [l.replace(d + "/", "") for l in r.stdout.splitlines()]
        return r.returncode, lines
    finally:
        shutil.rmtree(d, ignore_errors=True)


def equivalence_variants(prop: str, root: str):
    files = [os.path.join("src", PKG, m + ".py") for m in PROP_FILES.get(prop, [])]
    for name, fn in EQUIV.items():
        edits = {}
        for rel in files:
            p = os.path.join(root, rel)
            if not os.path.exists(p):
                continue
            src = open(p).read()
            try:
                new = fn(src, p)
            except Exception as e:       # a transform that cannot be applied is skipped, not a failure
                continue
            if new != src:
                edits[rel] = new
        if edits:
            yield name, edits


def seed_variants(prop: str, root: str):
    path = os.path.join(SEEDS_DIR, f"{prop}.json")
    if not os.path.exists(path):
        return
    with open(path) as fh:
        seeds = json.load(fh)
    for s in seeds:
        rel = s["file"] if "/" in s["file"] else os.path.join("src", PKG, s["file"])
        p = os.path.join(root, rel)
        if not os.path.exists(p):
            yield s, None, "file missing"
            continue
        src = open(p).read()
        if src.count(s["old"]) != 1:
            yield s, None, f"anchor text matches {src.count(s['old'])} times"
            continue
        yield s, {rel: src.replace(s["old"], s["new"], 1)}, None


def _patch_edits(root: str, patch_file: str):
    """{relpath: patched source} for a unified diff applied to the current tree, or (None, why)."""
    import tempfile
    txt = open(patch_file).read()
    rels = [l[6:].strip() for l in txt.splitlines() if l.startswith("+++ b/")]
    if not rels:
        return None, "no files in the patch"
    tmp = tempfile.mkdtemp(prefix="kv_patch_")
    try:
        for rel in rels:
            src = os.path.join(root, rel)
            if not os.path.exists(src):
                return None, f"{rel} missing"
            os.makedirs(os.path.dirname(os.path.join(tmp, rel)), exist_ok=True)
            shutil.copy(src, os.path.join(tmp, rel))
        r = subprocess.run(["patch", "-p1", "--batch", "--silent", "--no-backup-if-mismatch", "-F", "0", "-i", os.path.abspath(patch_file)], cwd=tmp, capture_output=True, text=True)
        if r.returncode != 0:
            return None, "does not apply to the current tree"
        return {rel: open(os.path.join(tmp, rel)).read() for rel in rels}, None
    finally:
        shutil.rmtree(tmp, ignore_errors=True)


def corpus_variants(prop: str, root: str):
    """Patches written by independent agents and kept under /verif: behaviour-preserving rewrites (refactors/, must stay
    silent) and property-breaking changes (seeded/<prop>-*, must be reported).  A patch that no longer applies to the
    tree under analysis is skipped."""
    import glob
    mods = set(PROP_FILES.get(prop, []))
    for pf in sorted(glob.glob(os.path.join(VERIF_ROOT, "refactors", "*", "patch*.diff"))):
        txt = open(pf).read()
        touched = {os.path.basename(l[6:].strip())[:-3] for l in txt.splitlines() if l.startswith("+++ b/")}
        if not (touched & mods):
            continue
        edits, why = _patch_edits(root, pf)
        yield "benign", os.path.relpath(pf, VERIF_ROOT), edits, why
    for pf in sorted(glob.glob(os.path.join(VERIF_ROOT, "seeded", f"{prop}-*", "patch.diff"))):
        try:
            if json.load(open(os.path.join(os.path.dirname(pf), "meta.json"))).get("expect") == "missed":
                continue          # a recorded miss (DESIGN.md): not claimed
        except Exception:
            pass
        edits, why = _patch_edits(root, pf)
        yield "break", os.path.relpath(pf, VERIF_ROOT), edits, why


def run_selftest(ctx) -> None:
    """Called by the thorough tier after the rules ran on the real tree."""
    res = ctx.result
    prop, root = ctx.prop, ctx.root
    jobs = []
    for name, edits in equivalence_variants(prop, root):
        jobs.append(("equiv", name, edits, None))
    n_seed_skipped = 0
    for s, edits, why in seed_variants(prop, root):
        if edits is None:
            n_seed_skipped += 1
            res.note(f"seeded break '{s.get('name')}' not applicable to the current tree ({why})")
            continue
        jobs.append(("seed", s.get("name", "?"), edits, s))
    n_corpus_skipped = 0
    for kind, name, edits, why in corpus_variants(prop, root):
        if edits is None:
            n_corpus_skipped += 1
            continue
        jobs.append(("corpus-" + kind, name, edits, None))
    results = []
    with ThreadPoolExecutor(max_workers=min(16, max(1, len(jobs)))) as ex:
        futs = [(j, ex.submit(run_variant, prop, root, j[2])) for j in jobs]
        for j, f in futs:
            try:
                results.append((j, f.result()))
            except Exception as e:
                results.append((j, (99, [f"runner error: {e}"])))
    n_eq = n_eq_ok = n_seed = n_seed_ok = n_cb = n_cb_ok = n_ck = n_ck_ok = 0
    for (kind, name, edits, seed), (code, lines) in results:
        viol = [l for l in lines if "VIOLATION" in l]
        if kind == "equiv":
            n_eq += 1
            if code == 0:
                n_eq_ok += 1
                res.ok("self:equivalence", f"{prop}:{name}", f"silent on the rewritten tree ({len(edits)} file(s))")
            else:
                detail = [l for l in lines if "[" in l and "]" in l and ("src/" in l or "ANALYSIS" in l)][:3]
                res.error(f"self-validation: equivalence-preserving rewrite '{name}' makes the check exit {code}: {detail}")
            res.sample({"variant": name, "kind": "equivalence-preserving", "files": sorted(edits), "exit": code})
        elif kind == "corpus-benign":
            n_cb += 1
            if code == 0:
                n_cb_ok += 1
                res.ok("self:benign-corpus", f"{prop}:{name}", "silent on an agent-written behaviour-preserving rewrite")
            else:
                detail = [l for l in lines if "[" in l and "]" in l and ("src/" in l or "ANALYSIS" in l)][:3]
                res.error(f"self-validation: behaviour-preserving rewrite '{name}' makes the check exit {code}: {detail}")
            res.sample({"variant": name, "kind": "agent rewrite (benign)", "exit": code})
        elif kind == "corpus-break":
            n_ck += 1
            if code == 1:
                n_ck_ok += 1
                res.ok("self:seeded-break", f"{prop}:{name}", "agent-written break reported")
            else:
                res.error(f"self-validation: agent-written break '{name}' is not reported (exit {code})")
            res.sample({"variant": name, "kind": "agent break", "exit": code})
        else:
            n_seed += 1
            rule = seed.get("rule")
            hit = code == 1 and (rule is None or any(f"[{rule}]" in l for l in lines))
            if hit:
                n_seed_ok += 1
                res.ok("self:seeded-break", f"{prop}:{name}", f"reported under rule {rule}")
            else:
                res.error(f"self-validation: seeded break '{name}' is not reported (exit {code}; expected a VIOLATION under rule {rule})")
            res.sample({"variant": name, "kind": "seeded break", "rule": rule, "exit": code})
    res.analysed["selftest"] = {"equivalence_variants": n_eq, "equivalence_silent": n_eq_ok, "seeded_breaks": n_seed, "seeded_breaks_reported": n_seed_ok,
                                "seeded_breaks_skipped": n_seed_skipped, "agent_rewrites": n_cb, "agent_rewrites_silent": n_cb_ok,
                                "agent_breaks": n_ck, "agent_breaks_reported": n_ck_ok, "corpus_patches_not_applicable": n_corpus_skipped}
