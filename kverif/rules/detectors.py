"""Facts about the five single-knee detectors, shared by C02 (return interval) and C09
(criterion, loop variants).  Each function reports under the rule names it is given."""

from __future__ import annotations

import ast
import inspect
from fractions import Fraction
from typing import Optional, Tuple

from .. import AnalysisError, anf, deps
from ..anf import Rat, sym
from ..guards import (G, TRUE, FALSE, g_and, g_not, g_or, g_equiv, g_implies, g_sat, compare, canon_sign, OPS, count_true)
from ..gvn import Frame, Obj, PW, Vec, cases_of, veq, mk_pw, Unsupported
from ..intervals import single_atom, split_const, K
from .common import RuleCtx, _short, split_at_loop, stored_names, range_args, locate_loop, sign_set_name

C = Rat.const


def dtype_guard(rc: RuleCtx, rule: str, modules):
    """No detector stores a float-valued expression into an array whose dtype is inherited from its argument
    (np.zeros_like(points[:, 0]), points.copy(), ...): with an integer curve the stored curvatures / distances are truncated
    and the arg-optimum is taken over the wrong values."""
    from ..mutation import MutationAnalysis
    res = rc.res
    from .common import mutation_analysis
    ma = mutation_analysis(rc)
    n = 0
    for q, fi in sorted(ma.funcs.items()):
        if fi.module.short not in modules:
            continue
        n += 1
        for e in ma.events.get(q, []):
            if e.kind == "dtype":
                res.violation(rule, fi.module, fi.name, e.node,
                              f"{q} puts values into an array that inherits the dtype of '{e.param}' ({e.how}): with an integer-typed (or narrow) input the values are "
                              "truncated / wrapped before they are used", ast.unparse(e.node)[:100] if hasattr(e.node, "lineno") else "",
                              "a float array (np.zeros(n), a list)", construct=f"dtype {q}")
    res.ok(rule, "detectors:dtype", f"{n} functions: no float store into an argument-typed array")


def _at(x, i):
    return anf.opaque("at", x, i, array=False)


def slice_interval(idx: Rat, length_of, total: Rat) -> Optional[Tuple[Rat, Rat, str]]:
    """[lo, hi] of  c + argm*(X[a:b])  with len(X) given by length_of."""
    rest, c = split_const(idx)
    a = single_atom(rest)
    if a is None or a.kind != "fn" or a.name not in ("argmax", "argmin"):
        return None
    X = a.args[0]
    xa = single_atom(X)
    if xa is not None and xa.name == "slice":
        base, lo, hi = xa.args
        Lb = length_of(base)
        lo_v = C(0) if lo.symbols() == {"None"} else lo
        if hi.symbols() == {"None"}:
            hi_v = Lb
        else:
            hc = hi.is_const()
            hi_v = Lb.add(hi) if (hc is not None and hc < 0) else hi
        n = hi_v.sub(lo_v)
        return C(c), n.sub(C(1)).add(C(c)), f"{a.name} over [{lo_v}:{_short(hi_v, 40)}] + {c}"
    Lx = length_of(X)
    return C(c), Lx.sub(C(1)).add(C(c)), f"{a.name} over the whole vector + {c}"


# --------------------------------------------------------------------------
# curvature
# --------------------------------------------------------------------------

def curvature(rc: RuleCtx, rule_range: Optional[str], rule_crit: Optional[str]):
    res = rc.res
    fi = rc.func("curvature.knee")
    ev = rc.new_eval()
    pts = ev.point("points", True)
    ev.len_map = {"points": sym("n")}
    out = ev.eval_function(fi, {"points": pts})
    val = out.value()
    if not isinstance(val, Rat):
        raise AnalysisError("curvature.knee: does not evaluate to a single index expression")
    iv = slice_interval(val, ev.length_of, sym("n"))
    n = sym("n")
    if rule_range:
        if iv is not None and iv[0].is_const() is not None and iv[0].is_const() >= 0 and (n - C(2) - iv[1]).is_nonneg():
            res.ok(rule_range, "curvature.knee", f"index in [{iv[0]}, {iv[1]}] within [0, n-2] ({iv[2]})")
        else:
            res.violation(rule_range, fi.module, fi.name, fi.node, "the curvature detector can return an index outside [0, n-2] (it must never return the last point)",
                          _short(val, 200) + (f" in [{iv[0]}, {iv[1]}]" if iv else ""), "argmax(curvature[1:-1]) + 1", construct="curvature range")
    if rule_crit:
        x, y = pts.items
        g1 = anf.opaque("dep:uts.gradient.cfd", x, y, array=True)
        g2 = anf.opaque("dep:uts.gradient.csd", x, y, array=True)
        crit = anf.f_abs(g2) / anf.f_pow(C(1) + g1 * g1, C(Fraction(3, 2)))
        want = anf.opaque("argmax", anf.opaque("slice", crit, C(1), C(-1), array=True), array=False) + C(1)
        if val.equals(want):
            res.ok(rule_crit, "curvature.knee", "argmax over interior points of |csd| / (1 + cfd^2)^(3/2), + 1")
            res.sample({"detector": "curvature", "criterion": _short(crit, 200)})
        else:
            res.violation(rule_crit, fi.module, fi.name, fi.node, "the curvature detector does not maximise |f''| / (1 + f'^2)^(3/2) over the interior points",
                          _short(val, 300), _short(want, 300), construct="curvature criterion")


# --------------------------------------------------------------------------
# DFDT
# --------------------------------------------------------------------------

def dfdt(rc: RuleCtx, rule_range: Optional[str], rule_crit: Optional[str], rule_term: Optional[str]):
    res = rc.res
    # single step
    fg = rc.func("dfdt.get_knee_gradient")
    ev = rc.new_eval()
    g = ev.symbol("gradient", True)
    ev.len_map = {"gradient": sym("m")}
    out = ev.eval_function(fg, {"gradient": g})
    val = out.value()
    if not isinstance(val, Rat):
        raise AnalysisError("dfdt.get_knee_gradient: does not evaluate to a single index expression")
    thr = anf.opaque("dep:uts.thresholding.isodata", g, array=False)
    crit = anf.f_abs(g - thr)
    want = anf.opaque("argmin", anf.opaque("slice", crit, C(1), C(-1), array=True), array=False) + C(1)
    if rule_crit:
        if val.equals(want):
            res.ok(rule_crit, "dfdt.get_knee_gradient", "argmin over interior points of |gradient - isodata(gradient)|, + 1")
        else:
            res.violation(rule_crit, fg.module, fg.name, fg.node, "the DFDT step does not return the interior point whose gradient is closest to the ISODATA threshold",
                          _short(val, 300), _short(want, 300), construct="dfdt criterion")
    iv = slice_interval(val, ev.length_of, sym("m"))
    step_ok = iv is not None and iv[0].is_const() is not None and iv[0].is_const() >= 1 and (sym("m") - C(2) - iv[1]).is_nonneg()
    # refinement loop
    fi = rc.func("dfdt.knee")
    ev = rc.new_eval()
    ev.no_inline.add("dfdt.get_knee_gradient")
    pts = ev.point("points", True)
    ev.len_map = {"points": sym("n")}
    pre, loop, post = split_at_loop(fi, kind=(ast.While,))
    env = {"points": pts}
    fr = Frame(ev, fi, 0)
    fr.block(pre, env, TRUE)
    names = {k: v for k, v in env.items() if isinstance(v, Rat) and v.is_const() is not None}
    benv = dict(env)
    for nme in stored_names(loop):
        if nme in env:
            benv[nme] = ev.symbol(nme)
    test = fr.cond(loop.test, benv)
    outb = ev.eval_loop_body(fi, loop, benv)
    rets = [st for st in post if isinstance(st, ast.Return)]
    if len(rets) != 1 or not isinstance(rets[0].value, ast.Name):
        raise AnalysisError("dfdt.knee: expected `return <name>` after the loop")
    kname = rets[0].value.id
    knee_new = outb.env.get(kname)
    x = pts.items[0]
    grads = [v for v in env.values() if isinstance(v, Rat) and single_atom(v) is not None and single_atom(v).name == "dep:uts.gradient.cfd"]
    grad = grads[0] if grads else None
    # identify cutoff: the symbol used to slice the gradient
    cut = None
    if isinstance(knee_new, Rat):
        for a in knee_new.all_atoms():
            if a.kind == "fn" and a.name == "slice" and a.args[2].symbols() == {"None"}:
                cs = a.args[1].symbols()
                if len(cs) == 1:
                    cut = next(iter(cs))
    if cut is None or not isinstance(grad, Rat):
        raise AnalysisError("dfdt.knee: cannot identify the cutoff variable / gradient")
    tail = anf.opaque("slice", grad, sym(cut), sym("None"), array=True)
    want_knee = anf.opaque("call:dfdt.get_knee_gradient", tail, array=True, extra=("gradient",)) + sym(cut)
    # the opaque call is flagged array because its argument is; compare structurally
    good_step = isinstance(knee_new, Rat) and knee_new.sub(sym(cut)).equals(want_knee.sub(sym(cut)))
    cut_new = outb.env.get(cut)
    want_cut = anf.opaque("int", anf.opaque("ceil", knee_new / C(2), array=False), array=False) if isinstance(knee_new, Rat) else None
    from .common import log_only_local
    last = [nme for nme in stored_names(loop) if nme not in (kname, cut) and nme in env and not log_only_local(fi, nme)]
    if rule_crit:
        ok = good_step and isinstance(cut_new, Rat) and want_cut is not None and (cut_new.equals(want_cut) or cut_new.equals(anf.opaque("ceil", knee_new / C(2), array=False)))
        if ok:
            res.ok(rule_crit, "dfdt.knee:refine", "knee <- step(gradient[cutoff:]) + cutoff; cutoff <- ceil(knee / 2)")
        else:
            res.violation(rule_crit, fi.module, fi.name, loop, "the DFDT refinement does not re-run the step on the tail beyond ceil(knee/2) and re-add the cutoff",
                          f"knee' = {_short(knee_new, 120)}; cutoff' = {_short(cut_new, 80)}", "knee' = step(g[cutoff:]) + cutoff; cutoff' = ceil(knee'/2)",
                          construct="dfdt refinement")
    # loop test: last < knee and len(x) - cutoff > 2
    n = sym("n")
    tail_gt2 = canon_sign(n - sym(cut) - C(2), OPS[">"])
    broke = g_or(*outb.breaks) if outb.breaks else FALSE
    rotated = False
    if len(last) == 1:
        lname = last[0]
        want_test = g_and(canon_sign(sym(lname) - sym(kname), OPS["<"]), tail_gt2)
        alt_test = g_and(canon_sign(sym(lname) - sym(kname), OPS["<"]), canon_sign(n - sym(cut) - C(3), OPS[">="]))
        test_ok = (g_equiv(test, want_test) or g_equiv(test, alt_test)) and not outb.breaks
        last_new = outb.env.get(lname)
        carried_ok = isinstance(last_new, Rat) and last_new.equals(sym(kname))
    else:
        lname, last_new = None, None
        want_test = tail_gt2
        test_ok = carried_ok = False
    if not (test_ok and carried_ok) and outb.breaks and isinstance(knee_new, Rat):
        # the rotated form: `while tail > 2: previous = knee; knee = step(..); if knee <= previous: break; cutoff = ..` - the same
        # continuation condition, tested right after the step instead of at the top of the next round
        moved = canon_sign(knee_new - sym(kname), OPS[">"])
        same_top = g_equiv(test, tail_gt2) or g_equiv(test, canon_sign(n - sym(cut) - C(3), OPS[">="]))
        if same_top and g_equiv(g_and(test, broke), g_and(test, g_not(moved))):
            rotated = True
            test_ok = carried_ok = True
            from .common import account_loop_exits
            account_loop_exits(fi)      # (the break is the continuation test, read just above)
    if len(last) != 1 and not rotated:
        raise AnalysisError("dfdt.knee: cannot identify the previous-knee variable")
    if rule_term:
        if test_ok and carried_ok and step_ok and good_step:
            res.ok(rule_term, "dfdt.knee:variant", "strict progress: continues only while the knee moved right (" + ("break right after the step" if rotated else "last_knee < knee, last_knee <- knee")
                   + "), knee bounded by n-2 (step interval) => terminates")
        else:
            res.violation(rule_term, fi.module, fi.name, loop,
                          "the DFDT refinement loop has no recognisable variant (continue iff the knee moved right and the tail has > 2 points; previous <- current; knee <= n-2)",
                          f"test {test}; last' = {_short(last_new, 60)}; step interval ok = {step_ok}", f"{want_test}", construct="dfdt loop variant")
    if rule_range:
        # returned value: initial 0 (loop not entered) or step(...) + cutoff in [cutoff + 1, n - 2]
        init = env.get(kname)
        init_ok = isinstance(init, Rat) and init.is_const() == 0
        cut_init = env.get(cut)
        cut_ok = isinstance(cut_init, Rat) and cut_init.is_const() == 0
        if step_ok and good_step and init_ok and cut_ok and test_ok:
            res.ok(rule_range, "dfdt.knee", "returns 0 (no iteration) or step(g[cutoff:]) + cutoff in [cutoff+1, n-2] (tail has > 2 points by the loop test)")
        else:
            res.violation(rule_range, fi.module, fi.name, fi.node, "the DFDT detector can return an index outside [0, n-2]",
                          f"step interval ok={step_ok}, refinement ok={good_step}, init={init}, test ok={test_ok}", "index in [0, n-2]", construct="dfdt range")


# --------------------------------------------------------------------------
# Menger
# --------------------------------------------------------------------------

def _menger_by_value(rc: RuleCtx, rule_range: Optional[str], rule_crit: Optional[str]) -> bool:
    """The Menger detector read as a value: the whole function is evaluated with its loop summarised; every exit must be the
    position of the first maximum of [c] + (one curvature per interior point) + [c].  Handles any loop form the summaries
    handle (index loops, zips of shifted slices, a sliding window carried in two variables, comprehensions).  False when the
    function does not evaluate to that shape (the loop-shaped reading is used instead)."""
    from ..intervals import scanned_positions
    from ..seqdom import Gen, flatten, var_symbol
    res = rc.res
    fi = rc.func("menger.knee")
    ev = rc.new_eval()
    ev.summarise_loops = True
    ev.no_inline.add("menger.menger_curvature")
    pts = ev.point("points", True)
    ev.len_map = {"points": sym("n")}
    n = sym("n")
    try:
        out_ = ev.eval_function(fi, {"points": pts})
        val = out_.value()
    except (Unsupported, AnalysisError):
        return False
    from .common import stray_stores
    if ev.summary_log or stray_stores(out_):
        return False
    main = None
    shorts = []
    for g, v in cases_of(val):
        if not g_sat(g) or not isinstance(v, Rat):
            if g_sat(g):
                return False
            continue

        def _clean(vv):
            # conditions pushed into a block that the path condition of this exit already guarantees condition nothing
            out_ = []
            for it_ in flatten(vv.items):
                if isinstance(it_, Gen) and it_.ranged:
                    nonempty = canon_sign(it_.hi - it_.lo - C(1), OPS[">="])
                    it_ = Gen(it_.depth, it_.lo, it_.hi, it_.step,
                              [((TRUE if (g_implies(g, g_) or g_implies(nonempty, g_)) else g_), v_, sp_) for g_, v_, sp_ in it_.parts], ranged=True)
                out_.append(it_)
            return Vec(out_, "list")

        def _len(x_):
            xa_ = single_atom(x_)
            vv = ev.vec_registry.get(xa_.skey) if (xa_ is not None and xa_.name == "vec") else None
            return ev.length_of(_clean(vv)) if vv is not None else ev.length_of(x_)
        sp = scanned_positions(v, _len)
        if sp is None or sp[4] != "argmax":
            return False
        base_, p_lo, p_hi, maps_back, _nm, rev_ = sp
        ba = single_atom(base_)
        V = ev.vec_registry.get(ba.skey) if (ba is not None and ba.name == "vec") else None
        if V is None:
            return False
        items = list(_clean(V).items)
        if all(isinstance(i_, Rat) and i_.is_const() is not None for i_ in items):
            shorts.append((g, v, items, sp))
            continue
        if main is not None:
            return False
        main = (g, v, items, sp)
    if main is None:
        return False
    g, v, items, (base_, p_lo, p_hi, maps_back, _nm, rev_) = main
    if not (len(items) == 3 and isinstance(items[1], Gen) and isinstance(items[0], Rat) and isinstance(items[2], Rat)):
        return False
    blk = items[1]
    pad_ok = items[0].is_const() is not None and items[0].equals(items[2])
    one_app = blk.ranged and len(blk.parts) == 1 and blk.parts[0][0].kind == "true" and not blk.parts[0][2] and blk.step is not None and blk.step.is_const() == 1
    range_ok = one_app and blk.lo.is_zero() and blk.hi.equals(n - C(2))
    whole = p_lo.is_zero() and p_hi.equals(n - C(1))
    inner = p_lo.is_const() is not None and 0 <= p_lo.is_const() <= 1 and p_hi.equals(n - C(2))
    ret_ok = maps_back and (inner or (whole and not rev_))
    # short inputs handled apart: a vector of equal constants scanned forwards gives position 0
    short_ok = all(len({i_.is_const() for i_ in its}) == 1 and not sp_[5] and sp_[3] and sp_[1].is_zero() for _g, _v, its, sp_ in shorts)
    if rule_range:
        if pad_ok and range_ok and ret_ok and short_ok:
            res.ok(rule_range, "menger.knee", "argmax over [pad] + n-2 interior values + [same pad]: the first maximum is never the last index => index in [0, n-2] (by value)")
        elif maps_back and whole and rev_ and pad_ok:
            res.violation(rule_range, fi.module, fi.name, fi.node, "the Menger detector can return the last index: the scan runs over the reversed vector, so of several equal maxima the one "
                          "at the highest position is returned: with every interior curvature equal to the pad (a straight segment) that is the last index n-1", _short(v, 160),
                          "the first maximum of [0] + interior + [0] (never the last position)", construct="menger range")
        else:
            res.violation(rule_range, fi.module, fi.name, fi.node,
                          "the Menger detector can return the last index: the curvature vector is not [c] + (one value per interior point) + [c] followed by argmax",
                          f"pad ok={pad_ok}, range ok={range_ok} ({_short(blk.lo, 20)}..{_short(blk.hi, 20)}), one append={one_app}, argmax={ret_ok}, short inputs ok={short_ok}",
                          "curvature = [0] + [k(i) for i in 1..n-2] + [0]; np.argmax(curvature)", construct="menger range")
    if rule_crit:
        ok = pad_ok and items[0].is_zero() and one_app and range_ok and ret_ok
        triple_ok = False
        F = blk.parts[0][1] if one_app else None
        if isinstance(F, Rat):
            a = single_atom(F)
            if a is not None and a.name == "call:menger.menger_curvature" and len(a.args) == 3:
                m = var_symbol(blk.depth) + C(1)          # block position j is the interior point j + 1
                want = [ev.to_rat(Vec([_at(pts.items[0], m + C(off)), _at(pts.items[1], m + C(off))], "point")) for off in (0, -1, 1)]
                triple_ok = sorted(x.key for x in a.args) == sorted(w.key for w in want)
        if ok and triple_ok:
            res.ok(rule_crit, "menger.knee", "maximises menger_curvature of the consecutive triples {i-1, i, i+1}, i = 1..n-2, zero padding at both ends (by value)")
        else:
            res.violation(rule_crit, fi.module, fi.name, fi.node, "the Menger detector does not maximise the Menger curvature of the consecutive triples {i-1, i, i+1}",
                          _short(F, 200) if F is not None else "no single value per interior point", "menger_curvature(points[i-1], points[i], points[i+1]) for i in 1..n-2",
                          construct="menger criterion")
    return True


def _menger_formula(f_, g_, h_) -> Rat:
    (fx, fy), (gx, gy), (hx, hy) = f_, g_, h_
    cross = (gx - fx) * (hy - fy) - (gy - fy) * (hx - fx)

    def d2(u, v):
        return (u[0] - v[0]) * (u[0] - v[0]) + (u[1] - v[1]) * (u[1] - v[1])
    return C(2) * anf.f_abs(cross) / anf.f_sqrt(d2(f_, g_) * d2(g_, h_) * d2(h_, f_))


def _menger_vector(rc: RuleCtx, rule_range: Optional[str], rule_crit: Optional[str]) -> bool:
    """The Menger detector without a loop: the curvatures of all interior points computed at once (menger_curvature called on
    three shifted views and inlined) and padded with a constant at both ends - np.concatenate(([c], E, [c])), or a zero array
    whose interior `[1:-1]` is assigned E.  Decided on the element view of E: E[j] must be the Menger curvature of the points
    j, j+1, j+2 on *every* path E can be computed, and E has n-2 elements."""
    from .. import elem
    from ..intervals import scanned_positions
    res = rc.res
    fi = rc.func("menger.knee")
    if any(isinstance(n_, (ast.For, ast.While)) for n_ in ast.walk(fi.node)):
        return False
    ev = rc.new_eval()
    ev.summarise_loops = True
    pts = ev.point("points", True)
    ev.len_map = {"points": sym("n")}
    n = sym("n")
    try:
        out = ev.eval_function(fi, {"points": pts})
    except (Unsupported, AnalysisError):
        return False
    val = out.value()
    E = None
    pads = None
    rets = [st for st in ast.walk(fi.node) if isinstance(st, ast.Return)]
    if isinstance(val, Rat) and len(rets) == 1:
        sp0 = scanned_positions(val, lambda x_: n if x_.is_zero() else ev.length_of(x_))
        am = [a for a in val.atoms() if a.kind == "fn" and a.name == "argmax"]
        if len(am) == 1 and val.equals(Rat.from_atom(am[0])):
            X = am[0].args[0]
            xa = single_atom(X)
            if X.is_zero():
                # layout (b): zeros(n) with the interior assigned
                names = [nm_.id for nm_ in ast.walk(rets[0]) if isinstance(nm_, ast.Name) and (fi.qualname, nm_.id) in ev.prealloc]
                stores = [e for e in out.events if e.kind == "store" and names and e.target == names[0]]
                if len(names) == 1 and ev.prealloc[(fi.qualname, names[0])].equals(n) and len(stores) == 1 and stores[0].guard.kind == "true" \
                        and isinstance(stores[0].args[0], Obj) and stores[0].args[0].tag == "slice":
                    lo_, hi_, st_ = stores[0].args[0].val[3:6]
                    if isinstance(lo_, Rat) and lo_.is_const() == 1 and isinstance(hi_, Rat) and hi_.is_const() == -1 and isinstance(st_, Obj):
                        E, pads = stores[0].args[1], (C(0), C(0))
            elif xa is not None and xa.name in ("np.concatenate", "np.hstack"):
                parts = xa.args
                if len(parts) == 1 and single_atom(parts[0]) is not None and single_atom(parts[0]).name == "vec":
                    parts = single_atom(parts[0]).args
                if len(parts) == 3:
                    def first(p_):
                        h_ = single_atom(p_)
                        return h_.args[0] if (h_ is not None and h_.name == "vec" and len(h_.args) == 1) else p_
                    E, pads = parts[1], (first(parts[0]), first(parts[2]))
    if E is None:
        return False
    from .common import stray_stores
    if len([e for e in out.events if e.kind == "store"]) > (1 if (isinstance(val, Rat) and am and am[0].args[0].is_zero()) else 0):
        return False                  # further stores into arrays: the value read above is not the whole story
    j = sym("j")
    anf.declare_integer(j)
    P = lambda k_: (_at(pts.items[0], k_), _at(pts.items[1], k_))      # noqa: E731
    want = _menger_formula(P(j + C(1)), P(j), P(j + C(2)))
    pad_ok = pads[0].is_const() is not None and pads[0].equals(pads[1])
    bad_cases, len_ok = [], True
    for g_, e_ in cases_of(E):
        if not g_sat(g_):
            continue
        if not isinstance(e_, Rat):
            return False
        if e_.is_array():
            got = elem.simplify(elem.element(e_, j))
            if not ev.length_of(e_).equals(n - C(2)):
                len_ok = False
        else:
            got = e_
        calls = [a for a in got.all_atoms() if a.kind == "fn" and a.name.startswith(("call:", "dep:", "method:", "np."))]
        if got.equals(want):
            continue
        if calls and not got.is_const() is not None:
            return False              # something the algebra does not interpret: not read
        bad_cases.append((g_, got))
    range_ok = len_ok
    if rule_range:
        if pad_ok and range_ok:
            res.ok(rule_range, "menger.knee", "argmax over [pad] + n-2 interior values + [same pad]: the first maximum is never the last index => index in [0, n-2] (loop-free form)")
        else:
            res.violation(rule_range, fi.module, fi.name, fi.node,
                          "the Menger detector can return the last index: the curvature vector is not [c] + (one value per interior point) + [c] followed by argmax",
                          f"pad ok={pad_ok}, n-2 interior values={range_ok}", "curvature = [0] + [k(i) for i in 1..n-2] + [0]; np.argmax(curvature)", construct="menger range")
    if rule_crit:
        if pad_ok and pads[0].is_zero() and range_ok and not bad_cases:
            res.ok(rule_crit, "menger.knee", "maximises the Menger curvature 2|cross| / sqrt(product of squared sides) of the consecutive triples {i-1, i, i+1}, zero padding at both ends (loop-free form, by value)")
        else:
            g_, got = bad_cases[0] if bad_cases else (TRUE, E)
            res.violation(rule_crit, fi.module, fi.name, fi.node, "the Menger detector does not maximise the Menger curvature of the consecutive triples {i-1, i, i+1}"
                          + (f": under {_short(g_, 120)} the value of an interior point is {_short(got, 60)}" if bad_cases else ""),
                          _short(got, 200), "2|cross(p_i - p_{i-1}, p_{i+1} - p_{i-1})| / (|p_i - p_{i-1}| |p_{i+1} - p_i| |p_{i-1} - p_{i+1}|) for i in 1..n-2", construct="menger criterion")
    return True


def menger(rc: RuleCtx, rule_range: Optional[str], rule_crit: Optional[str]):
    if _menger_by_value(rc, rule_range, rule_crit):
        return
    if _menger_vector(rc, rule_range, rule_crit):
        return
    res = rc.res
    fi = rc.func("menger.knee")
    ev = rc.new_eval()
    ev.no_inline.add("menger.menger_curvature")
    pts = ev.point("points", True)
    ev.len_map = {"points": sym("n")}
    pre, loop, post = split_at_loop(fi, kind=(ast.For,))
    env = {"points": pts}
    fr = Frame(ev, fi, 0)
    fr.block(pre, env, TRUE)
    from .common import bind_loop
    b = bind_loop(ev, fr, loop, env)
    if b is None:
        raise AnalysisError("menger.knee: loop header has no recognised shape")
    lo, hi, i = b.lo, b.hi, b.idx
    benv = dict(env)
    benv.update(b.bindings)
    for nme, v in list(benv.items()):
        if isinstance(v, Vec) and v.kind == "list":
            benv[nme] = ev.symbol(nme + "@list")
    from .common import carry
    carry(ev, loop, env, benv)
    out = ev.eval_loop_body(fi, loop, benv)
    all_apps = [e for e in out.events if e.kind == "append"]
    prealloc = None
    if not all_apps:
        # a float array of the curve's length preallocated with np.zeros(...) and filled at the loop position: the same vector as
        # [0] + interior + [0] when the loop visits 1..n-2
        from ..gvn import Event as _Ev
        sts = [e for e in out.events if e.kind == "store" and len(e.args) == 2 and isinstance(e.args[0], Rat) and e.args[0].equals(i)]
        if len({e.target for e in sts}) == 1 and isinstance(env.get(sts[0].target), Rat) and env[sts[0].target].is_zero():
            nm_ = sts[0].target
            alloc = [st_ for st_ in pre if isinstance(st_, ast.Assign) and any(isinstance(t_, ast.Name) and t_.id == nm_ for t_ in st_.targets)
                     and isinstance(st_.value, ast.Call) and ast.unparse(st_.value.func) in ("np.zeros", "numpy.zeros") and st_.value.args and not st_.value.keywords]
            if len(alloc) == 1:
                ln_ = fr.expr(alloc[0].value.args[0], env)
                n_ = sym("n")
                if isinstance(ln_, Rat) and (ln_.equals(n_) or ln_.equals(anf.f_minmax("max", [n_, C(2)])) or ln_.equals(anf.f_minmax("max", [n_, C(3)]))):
                    prealloc = nm_
                    all_apps = [_Ev(e.guard, "append", nm_, (e.args[1],), e.node) for e in sts]
    if len({e.target for e in all_apps}) != 1 or not (isinstance(env.get(all_apps[0].target), Vec) or prealloc):
        raise AnalysisError("menger.knee: cannot identify the curvature list")
    L = all_apps[0].target
    apps = all_apps
    head = env[L] if not prealloc else Vec([C(0)], "list")
    if prealloc:
        # positions 0 and n-1 are never written and keep the 0 they were allocated with
        post = [ast.parse(f"{L}.append(0)").body[0]] + list(post)
        from ..model import keep as _keep
        _keep(post[0])
        for sub_ in ast.walk(post[0]):
            fi.module.node_scope[id(sub_)] = fi.scope
    # after the loop the list is  <what it held before> + <one value per visited i>: a marker stands for the interior block
    # (a generator block of n-2 values, so that len() of the list is n and not the number of pieces)
    from ..seqdom import mk_gen, var_symbol
    _blk = mk_gen(0, C(0), sym("n") - C(2), C(1), [(TRUE, anf.opaque("at", ev.symbol("interior-curvatures", True), var_symbol(0), array=False), False)])
    MARK = ev.to_rat(_blk)
    fr2 = Frame(ev, fi, 0)
    penv = dict(env)
    penv[L] = Vec(list(head.items) + [_blk], "list")
    fr2.block(post, penv, TRUE)
    rets = fr2.returns
    from .common import account_returns
    account_returns(fi)             # (the returned value is read below: the arg-max over the scanned positions of the curvature vector)
    pad_ok = False
    ret_ok = False
    pad = None
    last_pick = None
    sp = None
    if len(rets) == 1 and isinstance(rets[0][1], Rat):
        # the returned index, by value: the position in the padded vector of the optimum found by a scan over a view of
        # it; np.argmax keeps the first optimum of what it scans - the lowest position of a forward view, the highest
        # of a reversed one
        from ..intervals import scanned_positions

        def _len(v_):
            va_ = single_atom(v_)
            if va_ is not None and va_.name == "vec" and len(va_.args) == 3 and va_.args[1].equals(MARK):
                return sym("n")
            return ev.length_of(v_)
        sp = scanned_positions(rets[0][1], _len)
        if sp is not None and sp[4] == "argmax":
            base_, p_lo, p_hi, maps_back, _nm, rev_ = sp
            va = single_atom(base_)
            if va is not None and va.name == "vec" and len(va.args) == 3 and va.args[1].equals(MARK) \
                    and va.args[0].is_const() is not None and va.args[0].equals(va.args[2]):
                pad_ok = True
                pad = va.args[0]
            whole = p_lo.is_zero() and p_hi.equals(sym("n") - C(1))
            inner = p_lo.is_const() is not None and 0 <= p_lo.is_const() <= 1 and p_hi.equals(sym("n") - C(2))
            if maps_back and (inner or (whole and not rev_)):
                ret_ok = True
            elif maps_back and whole and rev_ and pad_ok:
                last_pick = "the scan runs over the reversed vector, so of several equal maxima the one at the highest position is returned: with every interior " \
                            "curvature equal to the pad (a straight segment) that is the last index n-1"
    one_app = len(apps) == 1 and apps[0].guard.kind == "true"
    # the loop position may be offset from the index of the middle point (zip of shifted slices): re-centre on the middle point
    delta = C(0)
    if one_app and isinstance(apps[0].args[0], Rat):
        a_ = single_atom(apps[0].args[0])
        if a_ is not None and a_.name == "call:menger.menger_curvature" and len(a_.args) == 3:
            offs = []
            for arg in a_.args:
                va_ = single_atom(arg)
                if va_ is not None and va_.name == "vec" and len(va_.args) == 2:
                    xa_ = single_atom(va_.args[0])
                    if xa_ is not None and xa_.name == "at" and xa_.args[0].equals(pts.items[0]):
                        d_ = xa_.args[1].sub(i).is_const()
                        if d_ is not None:
                            offs.append(d_)
            if len(offs) == 3 and sorted(offs)[2] - sorted(offs)[0] == 2:
                delta = C(sorted(offs)[1])
    range_ok = isinstance(lo, Rat) and isinstance(hi, Rat) and (lo + delta).is_const() == 1 and (hi + delta).equals(sym("n") - C(1))
    i = i + delta
    if rule_range:
        if pad_ok and range_ok and one_app and ret_ok:
            res.ok(rule_range, "menger.knee", "argmax over [pad] + n-2 interior values + [same pad]: the first maximum is never the last index => index in [0, n-2]")
        elif last_pick is not None:
            res.violation(rule_range, fi.module, fi.name, fi.node, "the Menger detector can return the last index: " + last_pick, _short(rets[0][1], 160),
                          "the first maximum of [0] + interior + [0] (never the last position)", construct="menger range")
        elif not ret_ok and (len(rets) != 1 or not isinstance(rets[0][1], Rat) or sp is None):
            raise AnalysisError("menger.knee: the returned index is not an argmax over (a view of) the padded curvature vector - shape not recognised")
        else:
            res.violation(rule_range, fi.module, fi.name, fi.node,
                          "the Menger detector can return the last index: the curvature vector is not [c] + (one value per interior point) + [c] followed by argmax",
                          f"pad ok={pad_ok}, range ok={range_ok} ({ast.unparse(loop.iter)}), one append={one_app}, argmax={ret_ok}",
                          "curvature = [0] + [k(i) for i in 1..n-2] + [0]; np.argmax(curvature)", construct="menger range")
    if rule_crit:
        ok = pad_ok and pad.is_zero() and one_app and range_ok and ret_ok
        triple_ok = False
        if one_app and isinstance(apps[0].args[0], Rat):
            a = single_atom(apps[0].args[0])
            if a is not None and a.name == "call:menger.menger_curvature" and len(a.args) == 3:
                want = []
                for off in (0, -1, 1):
                    want.append(ev.to_rat(Vec([_at(pts.items[0], i + C(off)), _at(pts.items[1], i + C(off))], "point")))
                got_keys = sorted(x.key for x in a.args)
                triple_ok = got_keys == sorted(w.key for w in want)
        if ok and triple_ok:
            res.ok(rule_crit, "menger.knee", "maximises menger_curvature of the consecutive triples {i-1, i, i+1}, i = 1..n-2, zero padding at both ends")
        else:
            res.violation(rule_crit, fi.module, fi.name, loop, "the Menger detector does not maximise the Menger curvature of the consecutive triples {i-1, i, i+1}",
                          _short(apps[0].args[0], 200) if apps else "no append", "menger_curvature(points[i-1], points[i], points[i+1]) for i in 1..n-2", construct="menger criterion")


# --------------------------------------------------------------------------
# L-method
# --------------------------------------------------------------------------

def lmethod(rc: RuleCtx, rule_range: Optional[str], rule_crit: Optional[str], rule_term: Optional[str]):
    res = rc.res
    fg = rc.func("lmethod.get_knee")
    ev = rc.new_eval()
    ev.no_inline.add("lmethod.compute_error")
    x, y = ev.symbol("x", True), ev.symbol("y", True)
    ev.len_map = {"x": sym("n"), "y": sym("n")}
    pre, loop, post = split_at_loop(fg, kind=(ast.For,))
    env = {"x": x, "y": y, "fit": ev.symbol("fit"), "cost": ev.symbol("cost")}
    fr = Frame(ev, fg, 0)
    fr.block(pre, env, TRUE)
    # roles: the split index is the first component of the returned tuple; the running error is the variable
    # the candidate error is compared with; the total length is x[-1] - x[0]
    fr_r = Frame(ev, fg, 0)
    penv_r = {nme: (ev.symbol(nme) if not isinstance(v, Vec) else v) for nme, v in env.items()}
    fr_r.block(post, penv_r, TRUE)
    iname = None
    if len(fr_r.returns) == 1 and isinstance(fr_r.returns[0][1], Vec) and fr_r.returns[0][1].items and isinstance(fr_r.returns[0][1].items[0], Rat):
        a0 = single_atom(fr_r.returns[0][1].items[0])
        if a0 is not None and a0.kind == "sym" and a0.name in env:
            iname = a0.name
    if iname is None:
        raise AnalysisError("lmethod.get_knee: expected a returned tuple whose first component is the split index variable")
    idx0 = env.get(iname)
    ra = range_args(loop)
    lo = fr.expr(ra[0], env) if ra and len(ra) == 2 else None
    hi = fr.expr(ra[1], env) if ra and len(ra) == 2 else None
    n = sym("n")
    cand_ok = isinstance(idx0, Rat) and idx0.is_const() == 2 and isinstance(lo, Rat) and lo.is_const() == 3 and isinstance(hi, Rat) and hi.equals(n - C(2))
    i = ev.symbol(loop.target.id)
    benv = dict(env)
    benv[loop.target.id] = i
    carried_names = [nme for nme in stored_names(loop) if nme in env]
    for nme in carried_names:
        benv[nme] = ev.symbol(nme)
    out = ev.eval_loop_body(fg, loop, benv)
    idx_new = out.env.get(iname)
    lengths = [v for v in env.values() if isinstance(v, Rat) and v.equals(_at(x, C(-1)) - _at(x, C(0)))]
    length_v = lengths[0] if lengths else sym("length")
    CALL = anf.opaque("call:lmethod.compute_error", x, y, i, length_v, ev.to_rat(env["fit"]), ev.to_rat(env["cost"]), array=True,
                      extra=("x", "y", "index", "length", "fit", "cost"))
    cur = anf.opaque("item", CALL, C(0), array=False)
    # the running error: the carried variable whose new value is `cur` on the improving path - or the whole result tuple
    # of the best candidate so far, whose first component is then the running error
    enames = [nme for nme in carried_names if nme != iname and any(isinstance(v, Rat) and v.equals(cur) for _g, v in cases_of(out.env.get(nme)))]
    tuple_form = False
    if not enames:
        enames = [nme for nme in carried_names if nme != iname and any(isinstance(v, Rat) and v.equals(CALL) for _g, v in cases_of(out.env.get(nme)))]
        tuple_form = bool(enames)
    ename = enames[0] if enames else None
    err_new = out.env.get(ename) if ename else None
    upd_ok = False
    if ename:
        running = anf.opaque("item", sym(ename), C(0), array=False) if tuple_form else sym(ename)
        kept = CALL if tuple_form else cur
        better_strict = canon_sign(cur - running, OPS["<"])
        better_weak = canon_sign(cur - running, OPS["<="])
        for better in (better_strict, better_weak):
            want_idx = mk_pw([(better, i), (g_not(better), sym(iname))])
            want_err = mk_pw([(better, kept), (g_not(better), sym(ename))])
            if veq(idx_new, want_idx) and veq(err_new, want_err):
                upd_ok = True
    # return value: first component is index
    fr2 = Frame(ev, fg, 0)
    penv = dict(env)
    penv[iname] = sym(iname)
    fr2.block(post, penv, TRUE)
    ret_ok = len(fr2.returns) == 1 and isinstance(fr2.returns[0][1], Vec) and isinstance(fr2.returns[0][1].items[0], Rat) \
        and fr2.returns[0][1].items[0].equals(sym(iname))
    # initial error is the error at index 2
    err0 = env.get(ename) if ename else None
    # ... computed by the very same call as every other candidate (same fit / cost / length), at the start index
    cur0 = None
    if isinstance(idx0, Rat):
        cur0 = anf.opaque("call:lmethod.compute_error", x, y, idx0, length_v, ev.to_rat(env["fit"]), ev.to_rat(env["cost"]), array=True,
                          extra=("x", "y", "index", "length", "fit", "cost"))
        if not tuple_form:
            cur0 = anf.opaque("item", cur0, C(0), array=False)
    init_ok = isinstance(err0, Rat) and cur0 is not None and err0.equals(cur0)
    if rule_range:
        if cand_ok and ret_ok and upd_ok:
            res.ok(rule_range, "lmethod.get_knee", "index starts at 2 and is only replaced by i in range(3, n-2): index in [2, max(2, n-3)] within [0, n-2]")
        else:
            res.violation(rule_range, fg.module, fg.name, fg.node, "the L-method step can return a split outside 2..n-3",
                          f"start {idx0}, range {ast.unparse(loop.iter)}, update ok={upd_ok}", "index = 2; for i in range(3, len(x)-2)", construct="lmethod range")
    if rule_crit:
        if cand_ok and upd_ok and init_ok and ret_ok:
            res.ok(rule_crit, "lmethod.get_knee", "minimises compute_error over the split candidates 2..n-3 (first minimum; comparator < or <=)")
        else:
            why = ""
            if cand_ok and upd_ok and ret_ok and not init_ok:
                why = (": the error of the first candidate is not computed like the error of the others (same x, y, length, fit and cost) - "
                       "the candidates are not ranked by one criterion")
            res.violation(rule_crit, fg.module, fg.name, loop, "the L-method step does not minimise the two-line fitting error over the split candidates 2..n-3" + why,
                          f"candidates ok={cand_ok}; first error = {_short(err0, 160)}; index' = {_short(idx_new, 120)}",
                          "error(2) = compute_error(x, y, 2, length, fit, cost)[0]; if current_error < error: error, index = current_error, i", construct="lmethod minimisation")
        _lmethod_error(rc, rule_crit)
    _lmethod_knee(rc, rule_range, rule_crit, rule_term)


def _lmethod_knee(rc: RuleCtx, rule_range: Optional[str], rule_crit: Optional[str], rule_term: Optional[str]):
    """lmethod.knee, one refinement iteration as a transfer function (per Refinement option):
    the step runs on a prefix of the curve with the caller's fit option, and the loop has a variant."""
    res = rc.res
    fi = rc.func("lmethod.knee")
    pre, loop, post = split_at_loop(fi, kind=(ast.While,))
    if not rule_term:
        # (the facts read here - the step runs on a prefix with the caller's fit - hold for every iteration, whichever is the last;
        # how the loop is left is the termination rule's business, and the property that asks for it passes rule_term)
        from .common import account_loop_exits
        account_loop_exits(fi)
    members = rc.repo.mod("lmethod").classes["Refinement"].enum_members
    reported = set()

    def report(rule, key, *a, **k):
        if (rule, key) not in reported:
            reported.add((rule, key))
            res.violation(rule, *a, **k)
    oks = {"fit": 0, "prefix": 0, "variant": 0}
    why_ok = ""
    for it in members:
        ev = rc.new_eval()
        ev.no_inline.add("lmethod.get_knee")
        pts = ev.point("points", True)
        ev.len_map = {"points": sym("n")}
        fit_v = ev.symbol("fit")
        env = {"points": pts, "fit": fit_v, "it": Obj("enum", f"Refinement.{it}"), "limit": ev.symbol("limit")}
        fr = Frame(ev, fi, 0)
        try:
            fr.block(pre, env, TRUE)
            carried = [nme for nme in stored_names(loop) if nme in env]
            benv = dict(env)
            for nme in carried:
                benv[nme] = ev.symbol(nme)
            out = ev.eval_loop_body(fi, loop, benv)
            frt = Frame(ev, fi, 0)
            test = frt.cond(loop.test, dict(benv))
        except Unsupported as e:
            raise AnalysisError(f"lmethod.knee: refinement loop not modelled: {e}")
        # ---- the step call -----------------------------------------------------------------
        steps = {}
        for v in list(out.env.values()) + [a_ for e in out.events for a_ in e.args]:
            for g_, c_ in cases_of(v):
                for x_ in (c_.items if isinstance(c_, Vec) else [c_]):
                    if isinstance(x_, Rat):
                        for a in x_.all_atoms():
                            if a.kind == "fn" and a.name == "call:lmethod.get_knee":
                                steps[a.skey] = a
        if not steps:
            raise AnalysisError("lmethod.knee: the refinement loop does not call get_knee - shape not recognised")
        for a in steps.values():
            names = list(a.extra) if isinstance(a.extra, tuple) else []
            byname = dict(zip(names, a.args))
            call_txt = _short(Rat.from_atom(a), 160)
            if rule_crit:
                if "fit" in byname and byname["fit"].equals(fit_v):
                    oks["fit"] += 1
                else:
                    report(rule_crit, "fit", fi.module, fi.name, loop,
                           "lmethod.knee does not forward its `fit` option to get_knee (least-squares lines are silently replaced by endpoint lines)",
                           call_txt, "get_knee(x[0:cutoff+1], y[0:cutoff+1], fit)", construct="lmethod fit forwarded")
            if rule_range:
                pref = True
                his = []
                for nm, col in (("x", pts.items[0]), ("y", pts.items[1])):
                    sa = single_atom(byname[nm]) if nm in byname else None
                    if not (sa is not None and sa.name == "slice" and sa.args[0].equals(col) and
                            (sa.args[1].symbols() == {"None"} or sa.args[1].is_zero())):
                        pref = False
                    else:
                        his.append(sa.args[2])
                if pref and len(his) == 2 and his[0].equals(his[1]):
                    oks["prefix"] += 1
                else:
                    report(rule_range, "prefix", fi.module, fi.name, loop,
                           "lmethod.knee does not run the step on a prefix of the curve: the returned index is not in whole-curve coordinates",
                           call_txt, "get_knee(x[0:cutoff+1], y[0:cutoff+1], ...)", construct="lmethod prefix")
        # ---- the variant ---------------------------------------------------------------------
        if rule_term:
            ok, why = _visited_state(rc, ev, fi, loop, env, benv, out, test, carried, frt)
            if ok:
                oks["variant"] += 1
                why_ok = why
            else:
                report(rule_term, "variant", fi.module, fi.name, loop,
                       "the L-method refinement loop has no variant: it exits only when two consecutive knees are equal (data dependent) and nothing bounds the "
                       f"number of iterations - [Refinement.{it}] " + why, ast.unparse(loop.test),
                       "a visited-state check (or another recognised variant) that forces termination", construct="lmethod loop variant")
    if rule_crit and ("%s" % rule_crit, "fit") not in reported and oks["fit"]:
        res.ok(rule_crit, "lmethod.knee:fit", "the fit option is forwarded to every get_knee call")
    if rule_range and (rule_range, "prefix") not in reported and oks["prefix"]:
        res.ok(rule_range, "lmethod.knee", "get_knee runs on a prefix x[0:cutoff+1]: its index is an index of the whole curve")
    if rule_term and (rule_term, "variant") not in reported and oks["variant"] == len(members):
        res.ok(rule_term, f"{fi.qualname}:variant", f"for each of {members}: " + why_ok)


def _lmethod_error(rc: RuleCtx, rule: str):
    """K4: compute_error == r_l*w_l + r_r*w_r (rss) / w_l*sqrt(r_l*w_l) + w_r*sqrt(w_r*r_r) (rmse), weights
    (x_i - x_0)/length and (x_n - x_i)/length, left fit on [0..i], right fit on [i..] (shared point)."""
    res = rc.res
    fi = rc.func("lmethod.compute_error")
    for fit in ("point_fit", "best_fit"):
        for cost in ("rmse", "rss"):
            ev = rc.new_eval()
            x, y = ev.symbol("x", True), ev.symbol("y", True)
            ev.len_map = {"x": sym("n"), "y": sym("n")}
            idx, length = ev.symbol("index"), ev.symbol("length")
            env = {"x": x, "y": y, "index": idx, "length": length, "fit": Obj("enum", f"Fit.{fit}"), "cost": Obj("enum", f"Cost.{cost}")}
            try:
                out = ev.eval_function(fi, env)
            except Unsupported as e:
                raise AnalysisError(f"lmethod.compute_error: not modelled: {e}")
            val = out.value()
            if not (isinstance(val, Vec) and len(val.items) == 3):
                res.violation(rule, fi.module, fi.name, fi.node, "compute_error does not return (error, coef_left, coef_right)", _short(val), "", construct="compute_error return")
                continue
            err = val.items[0]
            wl = (_at(x, idx) - _at(x, C(0))) / length
            wr = (_at(x, C(-1)) - _at(x, idx)) / length
            xl = anf.opaque("slice", x, C(0), idx + C(1), array=True)
            yl = anf.opaque("slice", y, C(0), idx + C(1), array=True)
            xr = anf.opaque("slice", x, idx, sym("None"), array=True)
            yr = anf.opaque("slice", y, idx, sym("None"), array=True)
            if fit == "point_fit":
                def resid(xs, ys, i0, i1):
                    x0, xn, y0, yn = _at(x, i0), _at(x, i1), _at(y, i0), _at(y, i1)
                    m = (y0 - yn) / (x0 - xn)
                    b = y0 - m * x0
                    d = ys - (xs * m + b)
                    return anf.f_sum(d * d, ev.length_of(xs))
                rl = resid(xl, yl, C(0), idx)
                rr = resid(xr, yr, idx, C(-1))
            else:
                # residual of np.polyfit(deg 1, full=True): second return value, first entry
                def pf(xs, ys):
                    call = rc.eval_expr(fi, "np.polyfit(xs, ys, 1, full=True)", {"xs": xs, "ys": ys})
                    return anf.opaque("item", anf.opaque("item", call, C(1), array=False), C(0), array=False)
                rl, rr = pf(xl, yl), pf(xr, yr)
            if cost == "rss":
                want = rl * wl + rr * wr
            else:
                want = wl * anf.f_sqrt(rl * wl) + wr * anf.f_sqrt(wr * rr)
            # every way the error can be computed must be the stated one; the degenerate cases of the endpoint fit (a side whose
            # end points share their x) are outside the domain (x strictly increasing)
            degen = g_or(canon_sign(_at(x, idx) - _at(x, C(0)), OPS["=="]), canon_sign(_at(x, C(-1)) - _at(x, idx), OPS["=="]))
            live = [(g, v) for g, v in cases_of(err) if g_sat(g_and(g, g_not(degen)))]
            ok = bool(live) and all(isinstance(v, Rat) and v.equals(want) for _g, v in live)
            if ok:
                res.ok(rule, f"lmethod.compute_error[{fit},{cost}]", "length-weighted two-line error with the stated weights and shared split point")
            else:
                res.violation(rule, fi.module, fi.name, fi.node,
                              f"[{fit}, {cost}] compute_error is not the length-weighted two-line fitting error (left fit on [0..i], right fit on [i..], weights (x_i-x_0)/len and (x_n-x_i)/len)",
                              _short(err, 300), _short(want, 300), construct=f"compute_error {fit} {cost}")


def _bounded_int(ev, v, assume: set, env0, env1, depth=0) -> Optional[str]:
    """None when `v` is an integer drawn from a finite range fixed by the inputs (n, limit); otherwise what is not."""
    if isinstance(v, PW):
        for _g, c in v.cases:
            w = _bounded_int(ev, c, assume, env0, env1, depth)
            if w:
                return w
        return None
    if not isinstance(v, Rat):
        return f"{_short(v, 60)} is not a number"
    if v.den != {(): 1}:
        return f"{_short(v, 60)} is not an integer expression"
    for m, c in v.num.items():
        if Fraction(c).denominator != 1:
            return f"{_short(v, 60)} has a fractional coefficient"
        for at, _e in m:
            w = _bounded_int_atom(ev, at, assume, env0, env1, depth)
            if w:
                return w
    return None


def _bounded_real(ev, v: Rat, assume, env0, env1, depth) -> Optional[str]:
    for den_m in v.den:
        if den_m != ():
            return f"{_short(v, 60)} divides by a variable quantity"
    for at in v.atoms():
        w = _bounded_int_atom(ev, at, assume, env0, env1, depth)
        if w:
            return w
    return None


def _bounded_int_atom(ev, at, assume, env0, env1, depth) -> Optional[str]:
    if at.kind == "sym":
        if at.name in ("n", "limit"):
            return None            # the curve length; the (integer) limit parameter
        if at.name in assume:
            return None
        if at.name in env1 and depth < 3:
            # a loop-carried variable: bounded if its initial value and its update are (assuming it is)
            a2 = set(assume) | {at.name}
            return _bounded_int(ev, env0.get(at.name), a2, env0, env1, depth + 1) or _bounded_int(ev, env1.get(at.name), a2, env0, env1, depth + 1)
        return f"{at.name} is not known to be a bounded integer"
    if at.name in ("int", "floor", "ceil", "round"):
        return _bounded_real(ev, at.args[0], assume, env0, env1, depth)
    if at.name in ("max", "min"):
        for a in at.args:
            w = _bounded_int(ev, a, assume, env0, env1, depth)
            if w:
                return w
        return None
    if at.name == "len":
        return None
    if at.name == "item" and len(at.args) == 2 and at.args[1].is_zero():
        inner = single_atom(at.args[0])
        if inner is not None and inner.name == "call:lmethod.get_knee":
            return None            # the step's split index: an index of its argument (K-range / M6)
    return f"{_short(Rat.from_atom(at), 60)} is not known to be a bounded integer"


def _visited_state(rc: RuleCtx, ev, fi, loop: ast.While, env, benv, out, test, carried, fr):
    """Variant by visited states.  S is a set that only grows inside the loop; on every iteration that does not
    raise the exit flag a tuple T is added to S that was not in S; T ranges over a finite set.  Hence at most |range(T)| + 1
    iterations.  All facts are read off one evaluated iteration (a transfer function over the loop-carried state):
      V1  S is bound before the loop, never re-bound in it, and mutated only by S.add(...)
      V2  test and not flag'  =>  (the add is executed) and not (T in S)
      V3  the tuple that is looked up is the tuple that is added, looked up in S as it was when the iteration started
      V4  test => not flag  (a raised flag ends the loop)
      V5  every component of T is an integer from a finite range fixed by the inputs"""
    # how an iteration ends the loop: a `break`, or a carried flag the loop test requires to be false
    from .common import account_loop_exits
    account_loop_exits(fi)          # (the breaks are read here as the loop's exit condition)
    broke = g_or(*out.breaks) if out.breaks else FALSE
    if g_implies(test, broke):
        return True, "every iteration ends the loop (an unconditional break): at most one iteration"
    adds = [e for e in out.events if e.kind == "add"]
    if not adds:
        return False, "no state is recorded in a set inside the loop body"
    last_why = ""
    for ad in adds:
        S = ad.target
        if S not in benv or S in carried:
            last_why = f"the visited set {S} is re-bound inside the loop (or not created before it)"
            continue
        if any(e.kind in ("remove", "clear", "update", "discard", "pop") and e.target == S for e in out.events):
            last_why = f"the visited set {S} is also shrunk / rewritten inside the loop"
            continue
        T = ad.args[0]
        # V3: membership facts about exactly this tuple on the entry value of S
        ms = []
        for key, (a, b) in ev.in_registry.items():
            if veq(b, benv[S]) and veq(a, T):
                ms.append(G("atom", key[1]) if isinstance(key, tuple) and key and key[0] == "atom" else None)
        ms = [m for m in ms if m is not None]
        if not ms:
            other = [1 for key, (a, b) in ev.in_registry.items() if veq(a, T) or veq(b, benv[S])]
            last_why = ("the state that is looked up is not the state that is recorded, or it is looked up only after it was recorded: "
                        f"no test `{_short(T, 80)} in {S}` on the set as it was when the iteration started" + (" (a different membership test exists)" if other else ""))
            continue
        # V4 / V2
        flags = [nme for nme in carried if g_implies(test, g_not(fr.truth(benv[nme]))) and nme in out.env]
        if not flags and not out.breaks:
            last_why = "the loop has no exit besides its test (no break, no carried flag that must be false for the loop to continue)"
            continue
        done = False
        for f in (flags or [None]):
            ended = g_or(broke, fr.truth(out.env[f])) if f is not None else broke
            for m in ms:
                # (the add may come after the break: it is then recorded under "not broken", which is all that is needed)
                if g_implies(g_and(test, g_not(ended)), g_and(ad.guard, g_not(m))):
                    done = (f or "break", m)
        if not done:
            last_why = (f"an iteration can continue (no break taken, exit flag {flags} not raised) although the state was already visited, or without recording the new state: "
                        + (f"flag' = {_short(out.env[flags[0]], 120)}; " if flags else "") + f"recorded under {_short(ad.guard, 80)}")
            continue
        # V5
        comps = T.items if isinstance(T, Vec) else [T]
        bad = None
        for c in comps:
            bad = bad or _bounded_int(ev, c, set(), env, out.env)
        if bad:
            last_why = f"the recorded state does not range over a finite set: {bad}"
            continue
        return True, (f"visited-state variant: every iteration that does not end the loop (`{done[0]}`) adds a new tuple {_short(T, 90)} to `{S}` (looked up on the entry "
                      "set, then recorded); the components are bounded integers => finitely many states")
    return False, last_why


# --------------------------------------------------------------------------
# Kneedle
# --------------------------------------------------------------------------

def kneedle(rc: RuleCtx, rule_range: Optional[str], rule_link: Optional[str]):
    res = rc.res
    fi = rc.func("kneedle._knee")
    mod = fi.module
    # the value returned: pd.highest_peak(Dd, pd.all_peaks(Dd)) or None
    ev = rc.new_eval()
    pts = ev.point("points", True)
    ev.len_map = {"points": sym("n")}
    try:
        out = ev.eval_function(fi, {"points": pts, "t": ev.symbol("t"), "cd": ev.symbol("cd"), "cc": ev.symbol("cc")})
    except Unsupported as e:
        raise AnalysisError(f"kneedle._knee: not modelled: {e}")
    ok_shape = True
    for g, v in [(g_and(g0, g1), v1) for g0, v0 in out.returns for g1, v1 in cases_of(v0)]:
        if isinstance(v, Obj) and v.tag == "none":
            continue
        if isinstance(v, Rat):
            a = single_atom(v)
            if a is not None and a.name == "dep:uts.peak_detection.highest_peak":
                inner = [b for b in a.args[1].all_atoms() if b.kind == "fn" and b.name == "dep:uts.peak_detection.all_peaks"]
                if inner:
                    continue
        ok_shape = False
    # dependency contract, confirmed on the installed source
    contract = _peak_contract()
    if rule_range:
        if ok_shape and contract[0]:
            res.ok(rule_range, "kneedle._knee", "returns None or highest_peak(all_peaks(Dd)); installed uts.peak_detection.all_peaks yields np.where(y[1:-1] ...)[0] + 1: interior indices")
        else:
            res.violation(rule_range, mod, fi.name, fi.node, "the Kneedle detector's result is not (None or an interior peak index of the difference curve)",
                          f"shape ok={ok_shape}; dependency contract: {contract[1]}", "pd.highest_peak(Dd, pd.all_peaks(Dd)) or None", construct="kneedle range")
    if rule_link:
        link_errors = []
        for q in ("kneedle.knee", "kneedle._knee", "kneedle.differences", "kneedle.multi_knee"):
            f2 = rc.func(q)
            for node in ast.walk(f2.node):
                if isinstance(node, (ast.Attribute, ast.Name)) and isinstance(getattr(node, "ctx", None), ast.Load):
                    r = rc.lk.resolve(f2.module, node)
                    if r.kind == "error" and (r.at is node or r.at is None):
                        link_errors.append((f2, node, r))
        if link_errors:
            for f2, node, r in link_errors:
                res.violation(rule_link, f2.module, f2.name, node, f"Kneedle cannot run: {r.extra}: {r.msg}", ast.unparse(node), "a name/attribute that resolves", )
        else:
            res.ok(rule_link, "kneedle", "knee/_knee/differences/multi_knee: every name and dependency attribute resolves")


def _peak_contract():
    try:
        pd = deps.import_dep("uts.peak_detection")
        src = inspect.getsource(pd.all_peaks)
        tree = ast.parse(src)
    except Exception as e:
        return False, f"source of uts.peak_detection.all_peaks not available: {e}"
    fn = tree.body[0]
    rets = [n for n in ast.walk(fn) if isinstance(n, ast.Return) and n.value is not None]
    plus_one = False
    for r in rets:
        v = r.value
        if isinstance(v, ast.BinOp) and isinstance(v.op, ast.Add) and isinstance(v.right, ast.Constant) and v.right.value == 1 \
                and "where" in ast.unparse(v.left):
            plus_one = True
    interior = "[1:-1]" in src.replace(" ", "")
    if plus_one and interior:
        return True, "np.where(peaks)[0] + 1 over y[1:-1]"
    return False, "the installed all_peaks no longer has the form np.where(<mask over y[1:-1]>)[0] + 1"
