"""Facts about the five single-knee detectors, shared by C02 (return interval) and C09
(criterion, loop variants).  Each function reports under the rule names it is given."""

from __future__ import annotations

import ast
import inspect
from fractions import Fraction
from typing import Optional, Tuple

from .. import AnalysisError, anf, deps
from ..anf import Rat, sym
from ..guards import (G, TRUE, FALSE, g_and, g_not, g_or, g_equiv, g_implies, g_sat, compare, canon_sign, OPS, count_true)
from ..gvn import Frame, Obj, PW, Vec, cases_of, veq, mk_pw, Unsupported
from ..intervals import single_atom, split_const, K
from .common import RuleCtx, _short, split_at_loop, stored_names, range_args, locate_loop, sign_set_name

C = Rat.const


def _at(x, i):
    return anf.opaque("at", x, i, array=False)


def slice_interval(idx: Rat, length_of, total: Rat) -> Optional[Tuple[Rat, Rat, str]]:
    """[lo, hi] of  c + argm*(X[a:b])  with len(X) given by length_of."""
    rest, c = split_const(idx)
    a = single_atom(rest)
    if a is None or a.kind != "fn" or a.name not in ("argmax", "argmin"):
        return None
    X = a.args[0]
    xa = single_atom(X)
    if xa is not None and xa.name == "slice":
        base, lo, hi = xa.args
        Lb = length_of(base)
        lo_v = C(0) if lo.symbols() == {"None"} else lo
        if hi.symbols() == {"None"}:
            hi_v = Lb
        else:
            hc = hi.is_const()
            hi_v = Lb.add(hi) if (hc is not None and hc < 0) else hi
        n = hi_v.sub(lo_v)
        return C(c), n.sub(C(1)).add(C(c)), f"{a.name} over [{lo_v}:{_short(hi_v, 40)}] + {c}"
    Lx = length_of(X)
    return C(c), Lx.sub(C(1)).add(C(c)), f"{a.name} over the whole vector + {c}"


# --------------------------------------------------------------------------
# curvature
# --------------------------------------------------------------------------

def curvature(rc: RuleCtx, rule_range: Optional[str], rule_crit: Optional[str]):
    res = rc.res
    fi = rc.func("curvature.knee")
    ev = rc.new_eval()
    pts = ev.point("points", True)
    ev.len_map = {"points": sym("n")}
    out = ev.eval_function(fi, {"points": pts})
    val = out.value()
    if not isinstance(val, Rat):
        raise AnalysisError("curvature.knee: does not evaluate to a single index expression")
    iv = slice_interval(val, ev.length_of, sym("n"))
    n = sym("n")
    if rule_range:
        if iv is not None and iv[0].is_const() is not None and iv[0].is_const() >= 0 and (n - C(2) - iv[1]).is_nonneg():
            res.ok(rule_range, "curvature.knee", f"index in [{iv[0]}, {iv[1]}] within [0, n-2] ({iv[2]})")
        else:
            res.violation(rule_range, fi.module, fi.name, fi.node, "the curvature detector can return an index outside [0, n-2] (it must never return the last point)",
                          _short(val, 200) + (f" in [{iv[0]}, {iv[1]}]" if iv else ""), "argmax(curvature[1:-1]) + 1", construct="curvature range")
    if rule_crit:
        x, y = pts.items
        g1 = anf.opaque("dep:uts.gradient.cfd", x, y, array=True)
        g2 = anf.opaque("dep:uts.gradient.csd", x, y, array=True)
        crit = anf.f_abs(g2) / anf.f_pow(C(1) + g1 * g1, C(Fraction(3, 2)))
        want = anf.opaque("argmax", anf.opaque("slice", crit, C(1), C(-1), array=True), array=False) + C(1)
        if val.equals(want):
            res.ok(rule_crit, "curvature.knee", "argmax over interior points of |csd| / (1 + cfd^2)^(3/2), + 1")
            res.sample({"detector": "curvature", "criterion": _short(crit, 200)})
        else:
            res.violation(rule_crit, fi.module, fi.name, fi.node, "the curvature detector does not maximise |f''| / (1 + f'^2)^(3/2) over the interior points",
                          _short(val, 300), _short(want, 300), construct="curvature criterion")


# --------------------------------------------------------------------------
# DFDT
# --------------------------------------------------------------------------

def dfdt(rc: RuleCtx, rule_range: Optional[str], rule_crit: Optional[str], rule_term: Optional[str]):
    res = rc.res
    # single step
    fg = rc.func("dfdt.get_knee_gradient")
    ev = rc.new_eval()
    g = ev.symbol("gradient", True)
    ev.len_map = {"gradient": sym("m")}
    out = ev.eval_function(fg, {"gradient": g})
    val = out.value()
    if not isinstance(val, Rat):
        raise AnalysisError("dfdt.get_knee_gradient: does not evaluate to a single index expression")
    thr = anf.opaque("dep:uts.thresholding.isodata", g, array=False)
    crit = anf.f_abs(g - thr)
    want = anf.opaque("argmin", anf.opaque("slice", crit, C(1), C(-1), array=True), array=False) + C(1)
    if rule_crit:
        if val.equals(want):
            res.ok(rule_crit, "dfdt.get_knee_gradient", "argmin over interior points of |gradient - isodata(gradient)|, + 1")
        else:
            res.violation(rule_crit, fg.module, fg.name, fg.node, "the DFDT step does not return the interior point whose gradient is closest to the ISODATA threshold",
                          _short(val, 300), _short(want, 300), construct="dfdt criterion")
    iv = slice_interval(val, ev.length_of, sym("m"))
    step_ok = iv is not None and iv[0].is_const() is not None and iv[0].is_const() >= 1 and (sym("m") - C(2) - iv[1]).is_nonneg()
    # refinement loop
    fi = rc.func("dfdt.knee")
    ev = rc.new_eval()
    ev.no_inline.add("dfdt.get_knee_gradient")
    pts = ev.point("points", True)
    ev.len_map = {"points": sym("n")}
    pre, loop, post = split_at_loop(fi, kind=(ast.While,))
    env = {"points": pts}
    fr = Frame(ev, fi, 0)
    fr.block(pre, env, TRUE)
    names = {k: v for k, v in env.items() if isinstance(v, Rat) and v.is_const() is not None}
    benv = dict(env)
    for nme in stored_names(loop):
        if nme in env:
            benv[nme] = ev.symbol(nme)
    test = fr.cond(loop.test, benv)
    outb = ev.eval_loop_body(fi, loop, benv)
    rets = [st for st in post if isinstance(st, ast.Return)]
    if len(rets) != 1 or not isinstance(rets[0].value, ast.Name):
        raise AnalysisError("dfdt.knee: expected `return <name>` after the loop")
    kname = rets[0].value.id
    knee_new = outb.env.get(kname)
    x = pts.items[0]
    grads = [v for v in env.values() if isinstance(v, Rat) and single_atom(v) is not None and single_atom(v).name == "dep:uts.gradient.cfd"]
    grad = grads[0] if grads else None
    # identify cutoff: the symbol used to slice the gradient
    cut = None
    if isinstance(knee_new, Rat):
        for a in knee_new.all_atoms():
            if a.kind == "fn" and a.name == "slice" and a.args[2].symbols() == {"None"}:
                cs = a.args[1].symbols()
                if len(cs) == 1:
                    cut = next(iter(cs))
    if cut is None or not isinstance(grad, Rat):
        raise AnalysisError("dfdt.knee: cannot identify the cutoff variable / gradient")
    tail = anf.opaque("slice", grad, sym(cut), sym("None"), array=True)
    want_knee = anf.opaque("call:dfdt.get_knee_gradient", tail, array=True, extra=("gradient",)) + sym(cut)
    # the opaque call is flagged array because its argument is; compare structurally
    good_step = isinstance(knee_new, Rat) and knee_new.sub(sym(cut)).equals(want_knee.sub(sym(cut)))
    cut_new = outb.env.get(cut)
    want_cut = anf.opaque("int", anf.opaque("ceil", knee_new / C(2), array=False), array=False) if isinstance(knee_new, Rat) else None
    last = [nme for nme in stored_names(loop) if nme not in (kname, cut) and nme in env]
    if rule_crit:
        ok = good_step and isinstance(cut_new, Rat) and want_cut is not None and (cut_new.equals(want_cut) or cut_new.equals(anf.opaque("ceil", knee_new / C(2), array=False)))
        if ok:
            res.ok(rule_crit, "dfdt.knee:refine", "knee <- step(gradient[cutoff:]) + cutoff; cutoff <- ceil(knee / 2)")
        else:
            res.violation(rule_crit, fi.module, fi.name, loop, "the DFDT refinement does not re-run the step on the tail beyond ceil(knee/2) and re-add the cutoff",
                          f"knee' = {_short(knee_new, 120)}; cutoff' = {_short(cut_new, 80)}", "knee' = step(g[cutoff:]) + cutoff; cutoff' = ceil(knee'/2)",
                          construct="dfdt refinement")
    # loop test: last < knee and len(x) - cutoff > 2
    n = sym("n")
    if len(last) != 1:
        raise AnalysisError("dfdt.knee: cannot identify the previous-knee variable")
    lname = last[0]
    want_test = g_and(canon_sign(sym(lname) - sym(kname), OPS["<"]), canon_sign(n - sym(cut) - C(2), OPS[">"]))
    alt_test = g_and(canon_sign(sym(lname) - sym(kname), OPS["<"]), canon_sign(n - sym(cut) - C(3), OPS[">="]))
    test_ok = g_equiv(test, want_test) or g_equiv(test, alt_test)
    last_new = outb.env.get(lname)
    carried_ok = isinstance(last_new, Rat) and last_new.equals(sym(kname))
    if rule_term:
        if test_ok and carried_ok and step_ok and good_step:
            res.ok(rule_term, "dfdt.knee:variant", "strict progress: continues only while last_knee < knee, last_knee <- knee, knee bounded by n-2 (step interval) => terminates")
        else:
            res.violation(rule_term, fi.module, fi.name, loop,
                          "the DFDT refinement loop has no recognisable variant (continue iff the knee moved right and the tail has > 2 points; previous <- current; knee <= n-2)",
                          f"test {test}; last' = {_short(last_new, 60)}; step interval ok = {step_ok}", f"{want_test}", construct="dfdt loop variant")
    if rule_range:
        # returned value: initial 0 (loop not entered) or step(...) + cutoff in [cutoff + 1, n - 2]
        init = env.get(kname)
        init_ok = isinstance(init, Rat) and init.is_const() == 0
        cut_init = env.get(cut)
        cut_ok = isinstance(cut_init, Rat) and cut_init.is_const() == 0
        if step_ok and good_step and init_ok and cut_ok and test_ok:
            res.ok(rule_range, "dfdt.knee", "returns 0 (no iteration) or step(g[cutoff:]) + cutoff in [cutoff+1, n-2] (tail has > 2 points by the loop test)")
        else:
            res.violation(rule_range, fi.module, fi.name, fi.node, "the DFDT detector can return an index outside [0, n-2]",
                          f"step interval ok={step_ok}, refinement ok={good_step}, init={init}, test ok={test_ok}", "index in [0, n-2]", construct="dfdt range")


# --------------------------------------------------------------------------
# Menger
# --------------------------------------------------------------------------

def menger(rc: RuleCtx, rule_range: Optional[str], rule_crit: Optional[str]):
    res = rc.res
    fi = rc.func("menger.knee")
    ev = rc.new_eval()
    ev.no_inline.add("menger.menger_curvature")
    pts = ev.point("points", True)
    ev.len_map = {"points": sym("n")}
    pre, loop, post = split_at_loop(fi, kind=(ast.For,))
    env = {"points": pts}
    fr = Frame(ev, fi, 0)
    fr.block(pre, env, TRUE)
    lists = [k for k, v in env.items() if isinstance(v, Vec) and v.kind == "list"]
    if len(lists) != 1:
        raise AnalysisError("menger.knee: cannot identify the curvature list")
    L = lists[0]
    head = env[L]
    ra = range_args(loop)
    lo = fr.expr(ra[0], env) if ra and len(ra) == 2 else None
    hi = fr.expr(ra[1], env) if ra and len(ra) == 2 else None
    i = ev.symbol(loop.target.id)
    benv = dict(env)
    benv[loop.target.id] = i
    benv[L] = ev.symbol(L + "@list")
    out = ev.eval_loop_body(fi, loop, benv)
    apps = [e for e in out.events if e.kind == "append" and e.target == L]
    fr2 = Frame(ev, fi, 0)
    penv = dict(env)
    penv[L] = Vec([], "list")
    fr2.block(post, penv, TRUE)
    tail_apps = [e for e in fr2.events if e.kind == "append" and e.target == L]
    rets = fr2.returns
    pad_ok = len(head.items) == 1 and isinstance(head.items[0], Rat) and len(tail_apps) == 1 and isinstance(tail_apps[0].args[0], Rat) \
        and head.items[0].equals(tail_apps[0].args[0]) and head.items[0].is_const() is not None
    range_ok = isinstance(lo, Rat) and lo.is_const() == 1 and isinstance(hi, Rat) and hi.equals(sym("n") - C(1))
    one_app = len(apps) == 1 and apps[0].guard.kind == "true"
    ret_ok = False
    if len(rets) == 1 and isinstance(rets[0][1], Rat):
        a = single_atom(rets[0][1])
        ret_ok = a is not None and a.name == "argmax"
    if rule_range:
        if pad_ok and range_ok and one_app and ret_ok:
            res.ok(rule_range, "menger.knee", "argmax over [pad] + n-2 interior values + [same pad]: the first maximum is never the last index => index in [0, n-2]")
        else:
            res.violation(rule_range, fi.module, fi.name, fi.node,
                          "the Menger detector can return the last index: the curvature vector is not [c] + (one value per interior point) + [c] followed by argmax",
                          f"pad ok={pad_ok}, range ok={range_ok} ({ast.unparse(loop.iter)}), one append={one_app}, argmax={ret_ok}",
                          "curvature = [0] + [k(i) for i in 1..n-2] + [0]; np.argmax(curvature)", construct="menger range")
    if rule_crit:
        ok = pad_ok and head.items[0].is_zero() and one_app and range_ok and ret_ok
        triple_ok = False
        if one_app and isinstance(apps[0].args[0], Rat):
            a = single_atom(apps[0].args[0])
            if a is not None and a.name == "call:menger.menger_curvature" and len(a.args) == 3:
                want = []
                for off in (0, -1, 1):
                    want.append(ev.to_rat(Vec([_at(pts.items[0], i + C(off)), _at(pts.items[1], i + C(off))], "point")))
                got_keys = sorted(x.key for x in a.args)
                triple_ok = got_keys == sorted(w.key for w in want)
        if ok and triple_ok:
            res.ok(rule_crit, "menger.knee", "maximises menger_curvature of the consecutive triples {i-1, i, i+1}, i = 1..n-2, zero padding at both ends")
        else:
            res.violation(rule_crit, fi.module, fi.name, loop, "the Menger detector does not maximise the Menger curvature of the consecutive triples {i-1, i, i+1}",
                          _short(apps[0].args[0], 200) if apps else "no append", "menger_curvature(points[i-1], points[i], points[i+1]) for i in 1..n-2", construct="menger criterion")


# --------------------------------------------------------------------------
# L-method
# --------------------------------------------------------------------------

def lmethod(rc: RuleCtx, rule_range: Optional[str], rule_crit: Optional[str], rule_term: Optional[str]):
    res = rc.res
    fg = rc.func("lmethod.get_knee")
    ev = rc.new_eval()
    ev.no_inline.add("lmethod.compute_error")
    x, y = ev.symbol("x", True), ev.symbol("y", True)
    ev.len_map = {"x": sym("n"), "y": sym("n")}
    pre, loop, post = split_at_loop(fg, kind=(ast.For,))
    env = {"x": x, "y": y, "fit": ev.symbol("fit"), "cost": ev.symbol("cost")}
    fr = Frame(ev, fg, 0)
    fr.block(pre, env, TRUE)
    # roles: the split index is the first component of the returned tuple; the running error is the variable
    # the candidate error is compared with; the total length is x[-1] - x[0]
    fr_r = Frame(ev, fg, 0)
    penv_r = {nme: (ev.symbol(nme) if not isinstance(v, Vec) else v) for nme, v in env.items()}
    fr_r.block(post, penv_r, TRUE)
    iname = None
    if len(fr_r.returns) == 1 and isinstance(fr_r.returns[0][1], Vec) and fr_r.returns[0][1].items and isinstance(fr_r.returns[0][1].items[0], Rat):
        a0 = single_atom(fr_r.returns[0][1].items[0])
        if a0 is not None and a0.kind == "sym" and a0.name in env:
            iname = a0.name
    if iname is None:
        raise AnalysisError("lmethod.get_knee: expected a returned tuple whose first component is the split index variable")
    idx0 = env.get(iname)
    ra = range_args(loop)
    lo = fr.expr(ra[0], env) if ra and len(ra) == 2 else None
    hi = fr.expr(ra[1], env) if ra and len(ra) == 2 else None
    n = sym("n")
    cand_ok = isinstance(idx0, Rat) and idx0.is_const() == 2 and isinstance(lo, Rat) and lo.is_const() == 3 and isinstance(hi, Rat) and hi.equals(n - C(2))
    i = ev.symbol(loop.target.id)
    benv = dict(env)
    benv[loop.target.id] = i
    carried_names = [nme for nme in stored_names(loop) if nme in env]
    for nme in carried_names:
        benv[nme] = ev.symbol(nme)
    out = ev.eval_loop_body(fg, loop, benv)
    idx_new = out.env.get(iname)
    lengths = [v for v in env.values() if isinstance(v, Rat) and v.equals(_at(x, C(-1)) - _at(x, C(0)))]
    length_v = lengths[0] if lengths else sym("length")
    cur = anf.opaque("item", anf.opaque("call:lmethod.compute_error", x, y, i, length_v,
                                        ev.to_rat(env["fit"]), ev.to_rat(env["cost"]), array=True, extra=("x", "y", "index", "length", "fit", "cost")), C(0), array=False)
    # the running error: the carried variable whose new value is `cur` on the improving path
    enames = [nme for nme in carried_names if nme != iname and any(isinstance(v, Rat) and v.equals(cur) for _g, v in cases_of(out.env.get(nme)))]
    ename = enames[0] if enames else None
    err_new = out.env.get(ename) if ename else None
    upd_ok = False
    if ename:
        better_strict = canon_sign(cur - sym(ename), OPS["<"])
        better_weak = canon_sign(cur - sym(ename), OPS["<="])
        for better in (better_strict, better_weak):
            want_idx = mk_pw([(better, i), (g_not(better), sym(iname))])
            want_err = mk_pw([(better, cur), (g_not(better), sym(ename))])
            if veq(idx_new, want_idx) and veq(err_new, want_err):
                upd_ok = True
    # return value: first component is index
    fr2 = Frame(ev, fg, 0)
    penv = dict(env)
    penv[iname] = sym(iname)
    fr2.block(post, penv, TRUE)
    ret_ok = len(fr2.returns) == 1 and isinstance(fr2.returns[0][1], Vec) and isinstance(fr2.returns[0][1].items[0], Rat) \
        and fr2.returns[0][1].items[0].equals(sym(iname))
    # initial error is the error at index 2
    err0 = env.get(ename) if ename else None
    init_ok = isinstance(err0, Rat) and any(a.name == "call:lmethod.compute_error" for a in err0.all_atoms())
    if rule_range:
        if cand_ok and ret_ok and upd_ok:
            res.ok(rule_range, "lmethod.get_knee", "index starts at 2 and is only replaced by i in range(3, n-2): index in [2, max(2, n-3)] within [0, n-2]")
        else:
            res.violation(rule_range, fg.module, fg.name, fg.node, "the L-method step can return a split outside 2..n-3",
                          f"start {idx0}, range {ast.unparse(loop.iter)}, update ok={upd_ok}", "index = 2; for i in range(3, len(x)-2)", construct="lmethod range")
    if rule_crit:
        if cand_ok and upd_ok and init_ok and ret_ok:
            res.ok(rule_crit, "lmethod.get_knee", "minimises compute_error over the split candidates 2..n-3 (first minimum; comparator < or <=)")
        else:
            res.violation(rule_crit, fg.module, fg.name, loop, "the L-method step does not minimise the two-line fitting error over the split candidates 2..n-3",
                          f"candidates ok={cand_ok}; index' = {_short(idx_new, 120)}", "if current_error < error: error, index = current_error, i", construct="lmethod minimisation")
        _lmethod_error(rc, rule_crit)
    # ---- knee(): forwards fit, visited-state variant ---------------------------------------
    fi = rc.func("lmethod.knee")
    pre, loop, post = split_at_loop(fi, kind=(ast.While,))
    calls = [c for c in ast.walk(loop) if isinstance(c, ast.Call) and isinstance(c.func, ast.Name) and c.func.id == "get_knee"]
    if rule_crit:
        fwd = len(calls) == 1 and ((len(calls[0].args) >= 3 and ast.unparse(calls[0].args[2]) == "fit") or any(kw.arg == "fit" and ast.unparse(kw.value) == "fit" for kw in calls[0].keywords))
        if fwd:
            res.ok(rule_crit, "lmethod.knee:fit", "the fit option is forwarded to every get_knee call")
        else:
            res.violation(rule_crit, fi.module, fi.name, loop, "lmethod.knee does not forward its `fit` option to get_knee (least-squares lines are silently replaced by endpoint lines)",
                          ast.unparse(calls[0]) if calls else "", "get_knee(x[0:cutoff+1], y[0:cutoff+1], fit)", construct="lmethod fit forwarded")
    if rule_range:
        # the slice passed is x[0:cutoff+1]: a prefix, so the returned index is an index of the whole curve
        pref = len(calls) == 1 and all(isinstance(a, ast.Subscript) and isinstance(a.slice, ast.Slice) and a.slice.lower is not None
                                        and ast.unparse(a.slice.lower) == "0" for a in calls[0].args[:2])
        if pref:
            res.ok(rule_range, "lmethod.knee", "get_knee runs on a prefix x[0:cutoff+1]: its index is an index of the whole curve")
        else:
            res.violation(rule_range, fi.module, fi.name, loop, "lmethod.knee does not run the step on a prefix of the curve: the returned index is not in whole-curve coordinates",
                          ast.unparse(calls[0]) if calls else "", "get_knee(x[0:cutoff+1], y[0:cutoff+1], ...)", construct="lmethod prefix")
    if rule_term:
        _visited_state(rc, rule_term, fi, loop)


def _lmethod_error(rc: RuleCtx, rule: str):
    """K4: compute_error == r_l*w_l + r_r*w_r (rss) / w_l*sqrt(r_l*w_l) + w_r*sqrt(w_r*r_r) (rmse), weights
    (x_i - x_0)/length and (x_n - x_i)/length, left fit on [0..i], right fit on [i..] (shared point)."""
    res = rc.res
    fi = rc.func("lmethod.compute_error")
    for fit in ("point_fit", "best_fit"):
        for cost in ("rmse", "rss"):
            ev = rc.new_eval()
            x, y = ev.symbol("x", True), ev.symbol("y", True)
            ev.len_map = {"x": sym("n"), "y": sym("n")}
            idx, length = ev.symbol("index"), ev.symbol("length")
            env = {"x": x, "y": y, "index": idx, "length": length, "fit": Obj("enum", f"Fit.{fit}"), "cost": Obj("enum", f"Cost.{cost}")}
            try:
                out = ev.eval_function(fi, env)
            except Unsupported as e:
                raise AnalysisError(f"lmethod.compute_error: not modelled: {e}")
            val = out.value()
            if not (isinstance(val, Vec) and len(val.items) == 3):
                res.violation(rule, fi.module, fi.name, fi.node, "compute_error does not return (error, coef_left, coef_right)", _short(val), "", construct="compute_error return")
                continue
            err = val.items[0]
            wl = (_at(x, idx) - _at(x, C(0))) / length
            wr = (_at(x, C(-1)) - _at(x, idx)) / length
            xl = anf.opaque("slice", x, C(0), idx + C(1), array=True)
            yl = anf.opaque("slice", y, C(0), idx + C(1), array=True)
            xr = anf.opaque("slice", x, idx, sym("None"), array=True)
            yr = anf.opaque("slice", y, idx, sym("None"), array=True)
            if fit == "point_fit":
                def resid(xs, ys, i0, i1):
                    x0, xn, y0, yn = _at(x, i0), _at(x, i1), _at(y, i0), _at(y, i1)
                    m = (y0 - yn) / (x0 - xn)
                    b = y0 - m * x0
                    d = ys - (xs * m + b)
                    return anf.f_sum(d * d, ev.length_of(xs))
                rl = resid(xl, yl, C(0), idx)
                rr = resid(xr, yr, idx, C(-1))
            else:
                # residual of np.polyfit(deg 1, full=True): second return value, first entry
                def pf(xs, ys):
                    call = rc.eval_expr(fi, "np.polyfit(xs, ys, 1, full=True)", {"xs": xs, "ys": ys})
                    return anf.opaque("item", anf.opaque("item", call, C(1), array=False), C(0), array=False)
                rl, rr = pf(xl, yl), pf(xr, yr)
            if cost == "rss":
                want = rl * wl + rr * wr
            else:
                want = wl * anf.f_sqrt(rl * wl) + wr * anf.f_sqrt(wr * rr)
            ok = False
            for g, v in cases_of(err):
                if isinstance(v, Rat) and v.equals(want):
                    ok = True
                elif fit == "point_fit" and isinstance(v, Rat) and g_sat(g):
                    # degenerate x0 == xn cases of the endpoint fit are outside the domain
                    pass
            if ok:
                res.ok(rule, f"lmethod.compute_error[{fit},{cost}]", "length-weighted two-line error with the stated weights and shared split point")
            else:
                res.violation(rule, fi.module, fi.name, fi.node,
                              f"[{fit}, {cost}] compute_error is not the length-weighted two-line fitting error (left fit on [0..i], right fit on [i..], weights (x_i-x_0)/len and (x_n-x_i)/len)",
                              _short(err, 300), _short(want, 300), construct=f"compute_error {fit} {cost}")


def _visited_state(rc: RuleCtx, rule: str, fi, loop: ast.While):
    """E7(e): the loop exits when the tuple of all loop-carried variables that feed the next iteration
    repeats; the tuple is recorded on every iteration; every component has a finite range."""
    res = rc.res
    # exit flag: a name tested negatively in the loop test and set to True when the state is already in the set
    flag_names = [n.operand.id for n in ast.walk(loop.test) if isinstance(n, ast.UnaryOp) and isinstance(n.op, ast.Not) and isinstance(n.operand, ast.Name)]
    def membership(expr):
        """(tuple text list, set name, tuple node) when expr is `<tuple> in <name>`."""
        if isinstance(expr, ast.Compare) and len(expr.ops) == 1 and isinstance(expr.ops[0], ast.In) and isinstance(expr.left, ast.Tuple) \
                and isinstance(expr.comparators[0], ast.Name):
            return [ast.unparse(e) for e in expr.left.elts], expr.comparators[0].id, expr.left
        return None

    found = None
    for k, st in enumerate(loop.body):
        m = None
        if isinstance(st, ast.If) and not st.orelse:
            m = membership(st.test)
            sets_flag = any(isinstance(b, ast.Assign) and isinstance(b.targets[0], ast.Name) and b.targets[0].id in flag_names
                            and isinstance(b.value, ast.Constant) and b.value.value is True for b in st.body)
            if m is None or not sets_flag:
                m = None
        elif isinstance(st, ast.Assign) and isinstance(st.targets[0], ast.Name) and st.targets[0].id in flag_names:
            v = st.value
            m = membership(v)
            if m is None and isinstance(v, ast.BoolOp) and isinstance(v.op, ast.Or):
                for part in v.values:
                    m = m or membership(part)
        if m is not None:
            found = (k, m[0], m[1], m[2])
    ok = False
    why = "no `if <state tuple> in <set>: <exit flag> = True` (or `<exit flag> = <state tuple> in <set>`) in the loop body"
    if found is not None:
        k, comps, setname, tup = found
        adds = [j for j, b in enumerate(loop.body) if isinstance(b, ast.Expr) and isinstance(b.value, ast.Call) and ast.unparse(b.value.func) == f"{setname}.add"
                and b.value.args and ast.unparse(b.value.args[0]) == ast.unparse(tup)]
        rebound = any(isinstance(n, ast.Name) and isinstance(n.ctx, ast.Store) and n.id == setname for b in loop.body for n in ast.walk(b))
        comp_names = {n.id for n in ast.walk(tup) if isinstance(n, ast.Name)}
        # index of the last top-level statement that (re)binds a component of the state, or the exit flag to True/anything
        last_assign = -1
        for j, b in enumerate(loop.body):
            if any(isinstance(n, ast.Name) and isinstance(n.ctx, ast.Store) and n.id in comp_names for n in ast.walk(b)):
                last_assign = j
        # the flag must not be reset to False after the membership test
        reset_after = any(isinstance(n, ast.Assign) and isinstance(n.targets[0], ast.Name) and n.targets[0].id in flag_names
                          and not (isinstance(n.value, ast.Constant) and n.value.value is True) and membership(n.value) is None
                          for b in loop.body[k + 1:] for n in ast.walk(b))
        if not adds:
            why = "the visited state is not recorded unconditionally on every iteration"
        elif rebound:
            why = "the visited set is re-bound inside the loop"
        elif min(adds) < k:
            why = "the state is recorded before it is looked up: the lookup always succeeds"
        elif last_assign >= k:
            why = (f"a component of the state {comps} is re-assigned after the membership test (statement {last_assign + 1} of the body): the state that is "
                   "looked up is not the state that is recorded / carried to the next iteration, so a repeated state is never recognised")
        elif reset_after:
            why = "the exit flag is overwritten after the membership test"
        else:
            # read-before-write analysis of the body: carried names read before being written
            written = set()
            rbw = set()

            def scan(stmts, written):
                for s_ in stmts:
                    if isinstance(s_, ast.If):
                        for n in ast.walk(s_.test):
                            if isinstance(n, ast.Name) and isinstance(n.ctx, ast.Load) and n.id not in written:
                                rbw.add(n.id)
                        w1, w2 = set(written), set(written)
                        scan(s_.body, w1)
                        scan(s_.orelse, w2)
                        written |= (w1 & w2)
                        continue
                    loads = [n for n in ast.walk(s_) if isinstance(n, ast.Name) and isinstance(n.ctx, ast.Load)]
                    for n in loads:
                        if n.id not in written:
                            rbw.add(n.id)
                    for n in ast.walk(s_):
                        if isinstance(n, ast.Name) and isinstance(n.ctx, ast.Store):
                            written.add(n.id)
            scan(loop.body, written)
            carried = {n.id for b in loop.body for n in ast.walk(b) if isinstance(n, ast.Name) and isinstance(n.ctx, ast.Store)}
            feeding = (rbw & carried) - {setname} - set(flag_names)
            missing = feeding - set(comps)
            if missing:
                why = f"the recorded state {comps} omits loop-carried variable(s) {sorted(missing)} that feed the next iteration"
            else:
                ok = True
                why = f"state {comps} covers every loop-carried variable read before written ({sorted(feeding)}); looked up then recorded after its last update on every iteration; exit when it repeats"
    if ok:
        res.ok(rule, f"{fi.qualname}:variant", "visited-state idiom: " + why + "; components are integer knees / cut-offs bounded by the curve length => finitely many states")
    else:
        res.violation(rule, fi.module, fi.name, loop,
                      "the L-method refinement loop has no variant: it exits only when two consecutive knees are equal (data dependent) and nothing bounds the number of iterations - "
                      + why, ast.unparse(loop.test), "a visited-state check (or another recognised variant) that forces termination", construct="lmethod loop variant")


# --------------------------------------------------------------------------
# Kneedle
# --------------------------------------------------------------------------

def kneedle(rc: RuleCtx, rule_range: Optional[str], rule_link: Optional[str]):
    res = rc.res
    fi = rc.func("kneedle._knee")
    mod = fi.module
    # the value returned: pd.highest_peak(Dd, pd.all_peaks(Dd)) or None
    ev = rc.new_eval()
    pts = ev.point("points", True)
    ev.len_map = {"points": sym("n")}
    try:
        out = ev.eval_function(fi, {"points": pts, "t": ev.symbol("t"), "cd": ev.symbol("cd"), "cc": ev.symbol("cc")})
    except Unsupported as e:
        raise AnalysisError(f"kneedle._knee: not modelled: {e}")
    ok_shape = True
    for g, v in out.returns:
        if isinstance(v, Obj) and v.tag == "none":
            continue
        if isinstance(v, Rat):
            a = single_atom(v)
            if a is not None and a.name == "dep:uts.peak_detection.highest_peak":
                inner = [b for b in a.args[1].all_atoms() if b.kind == "fn" and b.name == "dep:uts.peak_detection.all_peaks"]
                if inner:
                    continue
        ok_shape = False
    # dependency contract, confirmed on the installed source
    contract = _peak_contract()
    if rule_range:
        if ok_shape and contract[0]:
            res.ok(rule_range, "kneedle._knee", "returns None or highest_peak(all_peaks(Dd)); installed uts.peak_detection.all_peaks yields np.where(y[1:-1] ...)[0] + 1: interior indices")
        else:
            res.violation(rule_range, mod, fi.name, fi.node, "the Kneedle detector's result is not (None or an interior peak index of the difference curve)",
                          f"shape ok={ok_shape}; dependency contract: {contract[1]}", "pd.highest_peak(Dd, pd.all_peaks(Dd)) or None", construct="kneedle range")
    if rule_link:
        link_errors = []
        for q in ("kneedle.knee", "kneedle._knee", "kneedle.differences", "kneedle.multi_knee"):
            f2 = rc.func(q)
            for node in ast.walk(f2.node):
                if isinstance(node, (ast.Attribute, ast.Name)) and isinstance(getattr(node, "ctx", None), ast.Load):
                    r = rc.lk.resolve(f2.module, node)
                    if r.kind == "error" and (r.at is node or r.at is None):
                        link_errors.append((f2, node, r))
        if link_errors:
            for f2, node, r in link_errors:
                res.violation(rule_link, f2.module, f2.name, node, f"Kneedle cannot run: {r.extra}: {r.msg}", ast.unparse(node), "a name/attribute that resolves", )
        else:
            res.ok(rule_link, "kneedle", "knee/_knee/differences/multi_knee: every name and dependency attribute resolves")


def _peak_contract():
    try:
        pd = deps.import_dep("uts.peak_detection")
        src = inspect.getsource(pd.all_peaks)
        tree = ast.parse(src)
    except Exception as e:
        return False, f"source of uts.peak_detection.all_peaks not available: {e}"
    fn = tree.body[0]
    rets = [n for n in ast.walk(fn) if isinstance(n, ast.Return) and n.value is not None]
    plus_one = False
    for r in rets:
        v = r.value
        if isinstance(v, ast.BinOp) and isinstance(v.op, ast.Add) and isinstance(v.right, ast.Constant) and v.right.value == 1 \
                and "where" in ast.unparse(v.left):
            plus_one = True
    interior = "[1:-1]" in src.replace(" ", "")
    if plus_one and interior:
        return True, "np.where(peaks)[0] + 1 over y[1:-1]"
    return False, "the installed all_peaks no longer has the form np.where(<mask over y[1:-1]>)[0] + 1"
