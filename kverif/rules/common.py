"""Helpers shared by the rule modules."""

from __future__ import annotations

import ast
from typing import Any, Dict, Iterable, List, Optional, Sequence, Tuple

from .. import AnalysisError, anf
from ..anf import Rat
from ..guards import G, TRUE, FALSE, g_and, g_or, g_not, g_equiv, g_implies, g_sat, OPS, OP_OF_SIGNS, canon_sign
from ..gvn import Evaluator, PW, Vec, Obj, Unsupported, cases_of, mk_pw, veq, vkey
from ..model import FuncInfo, Module, norm_text

UNDERSTOOD_PREFIXES = ("abs", "sqrt", "log", "max", "min", "Sum", "pow", "at", "slice", "len", "item", "amax", "amin",
                       "argmax", "argmin", "int", "ceil", "floor", "exp", "take", "median", "vec")


def foreign_atoms(r: Rat, allowed: Iterable[str] = ()) -> List[str]:
    """Opaque atoms whose meaning the algebra does not know (dependency calls, unknown methods...)."""
    out = []
    allowed = set(allowed)
    for a in r.all_atoms():
        if a.kind != "fn":
            continue
        if a.name in UNDERSTOOD_PREFIXES or a.name in allowed:
            continue
        out.append(a.name)
    return sorted(set(out))


def judge(got: Rat, want: Rat) -> Tuple[str, str]:
    """equal | differs | inconclusive, with a short explanation."""
    if got.equals(want):
        return "equal", ""
    unknown = sorted(s_ for s_ in got.symbols() if "@after" in s_ or "#" in s_)
    if unknown:
        return "inconclusive", f"the value depends on a loop the evaluator could not summarise (unknown after the loop: {unknown[:4]})"
    fa = [x for x in foreign_atoms(got) if x not in foreign_atoms(want)]
    if fa:
        return "inconclusive", f"the code's normal form contains calls the algebra does not interpret: {fa[:5]}"
    return "differs", anf.explain_difference(got, want)


from ..guards import equalities_of  # noqa: E402


class RuleCtx:
    """Small façade over Context for rule modules."""

    def __init__(self, ctx):
        self.ctx = ctx
        self.res = ctx.result
        self.repo = ctx.repo
        self.lk = ctx.linker
        self.ev = Evaluator(self.lk, inline_depth=6 if ctx.thorough else 4)

    def func(self, qual: str) -> FuncInfo:
        return self.repo.func(qual)

    def new_eval(self) -> Evaluator:
        anf.INT_ATOMS.clear()        # integer facts are established per evaluation, never inherited
        self.ev = Evaluator(self.lk, inline_depth=6 if self.ctx.thorough else 4)
        return self.ev

    # ------------------------------------------------------------------
    def eval_fn(self, qual: str, args: Dict[str, Any]):
        fi = self.func(qual)
        try:
            return fi, self.ev.eval_function(fi, args)
        except Unsupported as e:
            raise AnalysisError(f"{qual}: the body uses a construct the evaluator does not model: {e}")

    def eval_expr(self, fi: FuncInfo, text: str, env: Dict[str, Any]):
        """Evaluate an expression (Python text) in the context of `fi`'s module."""
        from ..gvn import Frame
        fr = Frame(self.ev, fi, 0)
        from ..model import keep
        node = keep(ast.parse(text.strip(), mode="eval")).body
        # names in the text resolve through the function's scope
        for n in ast.walk(node):
            fi.module.node_scope[id(n)] = fi.scope
        return fr.expr(node, dict(env))

    def expect_equal(self, rule: str, fi: FuncInfo, got, want: Rat, what: str, node=None, under: G = TRUE) -> bool:
        """`got` (possibly piecewise) must equal `want` in every case compatible with `under`."""
        ok = True
        for g, v in cases_of(got):
            gg = g_and(g, under)
            if gg.kind == "false" or not g_sat(gg):
                continue
            if not isinstance(v, Rat):
                self.res.violation(rule, fi.module, fi.name, node or fi.node, f"{what}: returns a non-numeric value {v!r}",
                                   repr(v), str(want), construct=f"{what}")
                ok = False
                continue
            verdict, why = judge(v, want)
            if verdict == "equal":
                continue
            eqs = equalities_of(gg)
            if eqs:
                # on this path some symbols have a known value (`if m == 0: ...`): compare under that knowledge
                try:
                    verdict2, _w2 = judge(anf.replace_atoms(v, eqs), anf.replace_atoms(want, eqs))
                except ZeroDivisionError:
                    verdict2 = "differs"
                if verdict2 == "equal":
                    continue
            ok = False
            if verdict == "inconclusive":
                self.res.error(f"INCONCLUSIVE {rule} {fi.qualname} ({what}): {why}")
            else:
                self.res.violation(rule, fi.module, fi.name, node or fi.node,
                                   f"{what}: the value computed by the code is not the required formula ({why})",
                                   _short(v), _short(want), construct=what)
        if ok:
            self.res.ok(rule, f"{fi.qualname}", f"{what}: {_short(want)}", f"{fi.module.relpath}:{fi.lineno}")
            self.res.sample({"rule": rule, "function": fi.qualname, "what": what, "normal_form": _short(want, 300)})
        return ok


def _short(v, n: int = 160) -> str:
    s = str(v)
    return s if len(s) <= n else s[: n - 3] + "..."


def sign_set_name(signs) -> str:
    return OP_OF_SIGNS.get(frozenset(signs), str(sorted(signs)))


# --------------------------------------------------------------------------
# AST helpers
# --------------------------------------------------------------------------

def loops_of(fi: FuncInfo, kind=(ast.For, ast.While)) -> List[ast.AST]:
    out = []

    def walk(stmts, depth):
        for st in stmts:
            if isinstance(st, kind):
                out.append((depth, st))
            for fld in ("body", "orelse"):
                sub = getattr(st, fld, None)
                if isinstance(sub, list):
                    walk(sub, depth + (1 if isinstance(st, (ast.For, ast.While)) else 0))
    walk(fi.node.body, 0)
    return [st for _d, st in out]


def top_loops(fi: FuncInfo, kind=(ast.For, ast.While)) -> List[ast.AST]:
    """Loops that are not nested inside another loop (but possibly inside ifs)."""
    out = []

    def walk(stmts):
        for st in stmts:
            if isinstance(st, kind):
                out.append(st)
                continue
            if isinstance(st, (ast.For, ast.While)):
                continue
            for fld in ("body", "orelse"):
                sub = getattr(st, fld, None)
                if isinstance(sub, list):
                    walk(sub)
    walk(fi.node.body)
    return out


def calls_in(node, name_pred) -> List[ast.Call]:
    return [n for n in ast.walk(node) if isinstance(n, ast.Call) and name_pred(n)]


def method_calls(node, method: str, base: Optional[str] = None) -> List[ast.Call]:
    out = []
    for n in ast.walk(node):
        if isinstance(n, ast.Call) and isinstance(n.func, ast.Attribute) and n.func.attr == method:
            if base is None or (isinstance(n.func.value, ast.Name) and n.func.value.id == base):
                out.append(n)
    return out


def split_at_loop(fi: FuncInfo, which: int = 0, kind=(ast.For, ast.While)):
    """(statements before, the loop, statements after) for the `which`-th top-level loop of the body."""
    body = fi.node.body
    idxs = [i for i, st in enumerate(body) if isinstance(st, kind)]
    if len(idxs) <= which and ast.For in (kind if isinstance(kind, tuple) else (kind,)):
        body = desugar_comprehensions(fi)
        idxs = [i for i, st in enumerate(body) if isinstance(st, kind)]
    if len(idxs) <= which:
        raise AnalysisError(f"{fi.qualname}: expected a top-level loop #{which} - shape not recognised")
    if STRICT_LOOPS and len(idxs) > 1 and fi.qualname in FLATTENED:
        raise AnalysisError(f"{fi.qualname}: {len(idxs)} top-level loops in the helper-flattened form; which one is the function's own is not decided")
    k = idxs[which]
    nl_ = normalise_while(fi, body[k])
    READ_LOOPS[fi.qualname] = (fi, body[k])
    NORMAL_LOOPS[fi.qualname] = nl_
    return body[:k], nl_, body[k + 1:]


READ_LOOPS: Dict[str, Any] = {}          # qualname -> FuncInfo of every function whose main loop a rule took apart in this run
NORMAL_LOOPS: Dict[str, Any] = {}        # qualname -> the same loop with its guard-clause breaks folded into the test (what the rules read)
ACCOUNTED: Dict[str, list] = {}          # qualname -> predicates over ast.Return nodes: early exits a rule has judged
STRICT_LOOPS = False          # second reading (helper-flattened program): "the loop" of a function must be the only candidate
FLATTENED: set = set()        # qualnames read in flattened form
_DESUGARED: Dict[int, list] = {}
_NORMAL_WHILE: Dict[int, ast.While] = {}


def normalise_while(fi: FuncInfo, loop):
    """`while T: if C1: break; if C2: break; BODY`  ==>  `while T and not C1 and not C2: BODY` (the tests are pure
    expressions evaluated in the same order; a `while True` keeps only the folded tests).  Exits written as guard
    clauses at the top of the body are the loop condition; writing them there lets the loop rules read it."""
    from ..model import keep
    if not isinstance(loop, ast.While) or loop.orelse:
        return loop
    if id(loop) in _NORMAL_WHILE:
        return _NORMAL_WHILE[id(loop)]
    import copy
    k = 0
    tests = []
    temps: Dict[str, ast.expr] = {}          # pure temporaries assigned in front of a guard clause: read through them
    kept = []

    class _Inline(ast.NodeTransformer):
        def visit_Name(self, node):
            if isinstance(node.ctx, ast.Load) and node.id in temps:
                return copy.deepcopy(temps[node.id])
            return node

    def _pure(e) -> bool:
        return not any(isinstance(n, (ast.Call, ast.NamedExpr, ast.Lambda, ast.ListComp, ast.GeneratorExp, ast.Await, ast.Yield)) and not _pure_call(n) for n in ast.walk(e))
    while k < len(loop.body):
        st = loop.body[k]
        if isinstance(st, ast.If) and not st.orelse and len(st.body) == 1 and isinstance(st.body[0], ast.Break) and _pure(st.test):
            tests.append(_Inline().visit(copy.deepcopy(st.test)) if temps else st.test)
            k += 1
        elif isinstance(st, ast.Assign) and len(st.targets) == 1 and isinstance(st.targets[0], ast.Name) and _pure(st.value) \
                and st.targets[0].id not in temps and any(isinstance(s2, ast.If) and not s2.orelse and len(s2.body) == 1 and isinstance(s2.body[0], ast.Break)
                                                          for s2 in loop.body[k + 1:k + 4]):
            temps[st.targets[0].id] = _Inline().visit(copy.deepcopy(st.value)) if temps else st.value
            kept.append(st)
            k += 1
        else:
            break
    if not tests or k == len(loop.body):
        return loop
    parts = [] if (isinstance(loop.test, ast.Constant) and loop.test.value is True) else [loop.test]
    parts += [ast.UnaryOp(op=ast.Not(), operand=t) for t in tests]
    test = parts[0] if len(parts) == 1 else ast.BoolOp(op=ast.And(), values=parts)
    new = ast.While(test=test, body=kept + loop.body[k:], orelse=[])
    ast.copy_location(new, loop)
    ast.fix_missing_locations(new)
    keep(new)
    for n in ast.walk(new):
        if id(n) not in fi.module.node_scope:
            fi.module.node_scope[id(n)] = fi.scope
    _NORMAL_WHILE[id(loop)] = new
    return new


def _pure_call(n) -> bool:
    return isinstance(n, ast.Call) and isinstance(n.func, ast.Name) and n.func.id in ("len", "abs", "min", "max", "int", "float")


def desugar_comprehensions(fi: FuncInfo) -> list:
    """`t = F([E for v in IT if C])`  ==>  `t__items = []; for v in IT: (if C:) t__items.append(E); t = F(t__items)`.

    A list comprehension is a loop; writing it out lets the loop rules read it.  Only top-level
    assignments to one name with exactly one single-generator list comprehension are rewritten, and
    only when the comprehension variable is bound nowhere else in the function (a comprehension
    variable does not leak, a loop variable does)."""
    from ..model import keep
    if id(fi.node) in _DESUGARED:
        return _DESUGARED[id(fi.node)]
    out = []
    bound_elsewhere = {}
    for n in ast.walk(fi.node):
        if isinstance(n, ast.Name) and isinstance(n.ctx, ast.Store):
            bound_elsewhere[n.id] = bound_elsewhere.get(n.id, 0) + 1
    for a in fi.node.args.args + fi.node.args.kwonlyargs:
        bound_elsewhere[a.arg] = bound_elsewhere.get(a.arg, 0) + 1
    def _register(new, st):
        for nn in new:
            for sub in ast.walk(nn):
                if isinstance(sub, (ast.expr, ast.stmt)):
                    ast.copy_location(sub, st)
            ast.fix_missing_locations(nn)
            keep(nn)
            for sub in ast.walk(nn):
                fi.module.node_scope[id(sub)] = fi.scope
    for st in fi.node.body:
        # `L.extend(E for v in IT if C)` (generator or list comprehension)  ==>  `for v in IT: (if C:) L.append(E)`
        if isinstance(st, ast.Expr) and isinstance(st.value, ast.Call) and isinstance(st.value.func, ast.Attribute) and st.value.func.attr == "extend" \
                and isinstance(st.value.func.value, ast.Name) and len(st.value.args) == 1 and not st.value.keywords \
                and isinstance(st.value.args[0], (ast.GeneratorExp, ast.ListComp)) and len(st.value.args[0].generators) == 1 \
                and not st.value.args[0].generators[0].is_async:
            comp = st.value.args[0]
            gen = comp.generators[0]
            tnames = [n.id for n in ast.walk(gen.target) if isinstance(n, ast.Name)]
            if all(bound_elsewhere.get(t, 0) == 1 for t in tnames) and not any(isinstance(n, (ast.Lambda, ast.GeneratorExp, ast.ListComp, ast.SetComp, ast.DictComp))
                                                                                for n in ast.walk(comp.elt)):
                src = (f"for {ast.unparse(gen.target)} in {ast.unparse(gen.iter)}:\n"
                       + "".join(f"    if not ({ast.unparse(c)}):\n        continue\n" for c in gen.ifs)
                       + f"    {st.value.func.value.id}.append({ast.unparse(comp.elt)})\n")
                new = ast.parse(src).body
                _register(new, st)
                out.extend(new)
                continue
        comps = [n for n in ast.walk(st) if isinstance(n, ast.ListComp)] if isinstance(st, ast.Assign) else []
        if not (len(comps) == 1 and len(st.targets) == 1 and isinstance(st.targets[0], ast.Name) and len(comps[0].generators) == 1
                and not comps[0].generators[0].is_async and isinstance(comps[0].generators[0].target, ast.Name)
                and bound_elsewhere.get(comps[0].generators[0].target.id, 0) == 1
                and not any(isinstance(n, (ast.Lambda, ast.GeneratorExp, ast.SetComp, ast.DictComp)) for n in ast.walk(st))):
            out.append(st)
            continue
        comp = comps[0]
        gen = comp.generators[0]
        items = st.targets[0].id + "__items"
        src = (f"{items} = []\nfor {gen.target.id} in {ast.unparse(gen.iter)}:\n"
               + "".join(f"    if not ({ast.unparse(c)}):\n        continue\n" for c in gen.ifs)
               + f"    {items}.append({ast.unparse(comp.elt)})\n")

        class Sub(ast.NodeTransformer):
            def visit_ListComp(self, node):
                return ast.Name(id=items, ctx=ast.Load())
        import copy
        tail = Sub().visit(copy.deepcopy(st))
        new = ast.parse(src).body + [tail]
        for nn in new:
            for sub in ast.walk(nn):
                if not hasattr(sub, "lineno") or True:
                    ast.copy_location(sub, st) if isinstance(sub, (ast.expr, ast.stmt)) else None
            ast.fix_missing_locations(nn)
            keep(nn)
            for sub in ast.walk(nn):
                fi.module.node_scope[id(sub)] = fi.scope
        out.extend(new)
    _DESUGARED[id(fi.node)] = out
    keep(fi.node)
    return out


def stored_names(node) -> List[str]:
    out = []
    for n in ast.walk(node):
        if isinstance(n, ast.Name) and isinstance(n.ctx, ast.Store) and n.id not in out:
            out.append(n.id)
    return out


def range_args(loop: ast.For):
    """The argument expressions of `for v in range(...)`, or None."""
    it = loop.iter
    if isinstance(it, ast.Call) and isinstance(it.func, ast.Name) and it.func.id == "range":
        return it.args
    return None


def locate_loop(fi: FuncInfo, which: int = 0, kind=(ast.For, ast.While)):
    """Finds the `which`-th loop that is not nested in another loop (it may sit inside
    if-branches).  Returns (pre, loop, post, conditions): `pre` are the statements executed
    before the loop along the nesting path (outer blocks first), `post` the statements of the
    loop's own block after it, `conditions` the (test, branch_taken) pairs of the enclosing ifs."""
    found = []

    def walk(stmts, pre, conds):
        for k, st in enumerate(stmts):
            if isinstance(st, kind):
                found.append((pre + stmts[:k], st, stmts[k + 1:], list(conds)))
            elif isinstance(st, (ast.For, ast.While)):
                pass
            elif isinstance(st, ast.If):
                walk(st.body, pre + stmts[:k], conds + [(st.test, True)])
                walk(st.orelse, pre + stmts[:k], conds + [(st.test, False)])
    walk(fi.node.body, [], [])
    if len(found) <= which and ast.For in (kind if isinstance(kind, tuple) else (kind,)):
        # a comprehension is a loop: read the written-out form
        found.clear()
        walk(desugar_comprehensions(fi), [], [])
    if len(found) <= which:
        raise AnalysisError(f"{fi.qualname}: expected a loop #{which} outside other loops - shape not recognised")
    if STRICT_LOOPS and len({id(f_[1]) for f_ in found}) > 1 and fi.qualname in FLATTENED:
        raise AnalysisError(f"{fi.qualname}: {len(found)} loops outside other loops in the helper-flattened form; which one is the function's own is not decided")
    pre_, loop_, post_, conds_ = found[which]
    nl_ = normalise_while(fi, loop_)
    READ_LOOPS[fi.qualname] = (fi, loop_)
    NORMAL_LOOPS[fi.qualname] = nl_
    return pre_, nl_, post_, conds_


def returned_names(stmts) -> Optional[set]:
    """Names that flow into the (single) return value of a statement list, following the simple
    assignments that precede it (`_rv = np.array(out); return _rv` still returns `out`)."""
    rets = [(k, st) for k, st in enumerate(stmts) if isinstance(st, ast.Return)]
    if len(rets) != 1 or rets[0][1].value is None:
        return None
    k, ret = rets[0]
    names = {n.id for n in ast.walk(ret.value) if isinstance(n, ast.Name)}
    for st in reversed(stmts[:k]):
        if isinstance(st, ast.Assign) and len(st.targets) == 1 and isinstance(st.targets[0], ast.Name) and st.targets[0].id in names:
            names |= {n.id for n in ast.walk(st.value) if isinstance(n, ast.Name)}
    return names


# --------------------------------------------------------------------------
# loop headers: `for i in range(..)`, `for x in arr`, `for x in arr[1:]`, `for k, x in enumerate(arr)`
# --------------------------------------------------------------------------

class LoopBinding:
    """The positions a `for` loop visits, as an index symbol `idx` ranging over [lo, hi) with step 1,
    plus the values its target names take at position idx."""

    def __init__(self, idx: Rat, lo: Rat, hi: Rat, bindings: Dict[str, Any], what: str):
        self.idx, self.lo, self.hi, self.bindings, self.what = idx, lo, hi, bindings, what

    def visits(self, lo_want, hi_want: Rat) -> bool:
        lo_ok = self.lo.is_const() == lo_want if isinstance(lo_want, int) else self.lo.equals(lo_want)
        return lo_ok and self.hi.equals(hi_want)


def bind_loop(ev: Evaluator, fr, loop: ast.For, env: Dict[str, Any]) -> Optional[LoopBinding]:
    """None when the header has no recognised shape."""
    from ..gvn import Frame
    from ..intervals import single_atom
    it = loop.iter
    tgt = loop.target

    def names_of(t):
        if isinstance(t, ast.Name):
            return [t.id]
        if isinstance(t, (ast.Tuple, ast.List)):
            out = []
            for e in t.elts:
                sub = names_of(e)
                if sub is None:
                    return None
                out.extend(sub)
            return out
        return None
    tn = names_of(tgt)
    if tn is None:
        return None
    # range(...)
    if isinstance(it, ast.Call) and isinstance(it.func, ast.Name) and it.func.id == "range" and not it.keywords and isinstance(tgt, ast.Name):
        args = [fr.expr(a, env) for a in it.args]
        if not all(isinstance(a, Rat) for a in args):
            return None
        if len(args) == 1:
            lo, hi = Rat.const(0), args[0]
        elif len(args) == 2:
            lo, hi = args
        elif len(args) == 3 and args[2].is_const() == 1:
            lo, hi = args[0], args[1]
        else:
            return None
        idx = ev.symbol(tgt.id)
        return LoopBinding(idx, lo, hi, {tgt.id: idx}, f"range({lo}, {hi})")
    # enumerate(<zip / other recognised iterable>, start) with a nested target: bind the inner loop, then the counter
    if isinstance(it, ast.Call) and isinstance(it.func, ast.Name) and it.func.id == "enumerate" and it.args and isinstance(tgt, ast.Tuple) and len(tgt.elts) == 2 \
            and isinstance(tgt.elts[0], ast.Name) and isinstance(it.args[0], ast.Call) and isinstance(it.args[0].func, ast.Name) and it.args[0].func.id in ("zip", "range"):
        startv = Rat.const(0)
        if len(it.args) == 2:
            startv = fr.expr(it.args[1], env)
        for kw in it.keywords:
            if kw.arg == "start":
                startv = fr.expr(kw.value, env)
        if not isinstance(startv, Rat):
            return None
        inner = bind_loop(ev, fr, ast.For(target=tgt.elts[1], iter=it.args[0], body=[], orelse=[]), env)
        if inner is None:
            return None
        bindings = dict(inner.bindings)
        bindings[tgt.elts[0].id] = inner.idx.sub(inner.lo).add(startv)
        return LoopBinding(inner.idx, inner.lo, inner.hi, bindings, "enumerate of " + inner.what)
    # zip(a[k1:m1], a[k2:m2], ...): position p visits a[k1+p], a[k2+p], ... ; zip stops with its shortest member (lengths that differ by constants have a known minimum)
    if isinstance(it, ast.Call) and isinstance(it.func, ast.Name) and it.func.id == "zip" and not it.keywords and len(it.args) >= 2 \
            and isinstance(tgt, (ast.Tuple, ast.List)) and len(tgt.elts) == len(it.args) and all(isinstance(e, ast.Name) for e in tgt.elts):
        idx = ev.symbol("pos!" + tn[0])
        bindings = {}
        lens = []
        for e_t, a_node in zip(tgt.elts, it.args):
            if isinstance(a_node, ast.Call) and isinstance(a_node.func, ast.Name) and a_node.func.id == "range" and not a_node.keywords and 1 <= len(a_node.args) <= 2:
                ra_ = [fr.expr(x_, env) for x_ in a_node.args]
                if not all(isinstance(x_, Rat) for x_ in ra_):
                    return None
                rlo, rhi = (Rat.const(0), ra_[0]) if len(ra_) == 1 else (ra_[0], ra_[1])
                bindings[e_t.id] = rlo.add(idx)
                lens.append(rhi.sub(rlo))
                continue
            v = fr.expr(a_node, env)
            cols = v.items if (isinstance(v, Vec) and v.kind == "point") else [v]
            els = []
            for c in cols:
                if not (isinstance(c, Rat) and c.is_array()):
                    return None
                a = single_atom(c)
                if a is not None and a.kind == "fn" and a.name == "slice" and (a.args[1].is_const() is None or a.args[1].is_const() >= 0):
                    els.append(anf.opaque("at", a.args[0], a.args[1].add(idx), array=False))
                else:
                    els.append(anf.opaque("at", c, idx, array=False))
                lens.append(ev.length_of(c))
            bindings[e_t.id] = Vec(els, "point") if isinstance(v, Vec) else els[0]
        count = None
        for ln in lens:
            ds = [o.sub(ln).is_const() for o in lens]
            if all(d is not None and d >= 0 for d in ds):
                count = ln
                break
        if count is None:
            return None
        return LoopBinding(idx, Rat.const(0), count, bindings, f"zip of {len(it.args)} members (shortest length {count})")
    # enumerate(arr[, start])
    start = Rat.const(0)
    enum = False
    seq_node = it
    if isinstance(it, ast.Call) and isinstance(it.func, ast.Name) and it.func.id == "enumerate" and it.args and isinstance(tgt, ast.Tuple) and len(tgt.elts) == 2 \
            and isinstance(tgt.elts[0], ast.Name):
        enum = True
        seq_node = it.args[0]
        if len(it.args) == 2:
            sv = fr.expr(it.args[1], env)
            if not isinstance(sv, Rat):
                return None
            start = sv
        for kw in it.keywords:
            if kw.arg == "start":
                sv = fr.expr(kw.value, env)
                if not isinstance(sv, Rat):
                    return None
                start = sv
    seq = fr.expr(seq_node, env)
    idx = ev.symbol("pos!" + (tn[-1] if tn else "i"))
    lo = Rat.const(0)

    def element(arrv, pos):
        if isinstance(arrv, Vec) and arrv.kind == "point" and arrv.items and isinstance(arrv.items[0], Rat) and arrv.items[0].is_array():
            ats = [single_atom(c) for c in arrv.items]
            if all(a is not None and a.kind == "fn" and a.name == "slice" and a.args[2].symbols() == {"None"} for a in ats) \
                    and all(a.args[1].equals(ats[0].args[1]) for a in ats) and (ats[0].args[1].is_const() is None or ats[0].args[1].is_const() >= 0):
                return ("slice", Vec([a.args[0] for a in ats], "point"), ats[0].args[1]), None
            return Vec([anf.opaque("at", c, pos, array=False) for c in arrv.items], "point"), ev.length_of(arrv)
        if isinstance(arrv, Rat) and arrv.is_array():
            a = single_atom(arrv)
            if a is not None and a.kind == "fn" and a.name == "slice":
                base, slo, shi = a.args
                if shi.symbols() == {"None"} and (slo.is_const() is None or slo.is_const() >= 0):
                    # x[k:] : positions k .. len(x)-1 of x itself
                    return ("slice", base, slo), None
            return anf.opaque("at", arrv, pos, array=False), ev.length_of(arrv)
        return None, None
    el, n = element(seq, idx)
    if isinstance(el, tuple) and el and el[0] == "slice":
        _t, base, slo = el
        lo = slo
        if isinstance(base, Vec):
            el = Vec([anf.opaque("at", c, idx, array=False) for c in base.items], "point")
        else:
            el = anf.opaque("at", base, idx, array=False)
        n = ev.length_of(base)
    if el is None:
        return None
    bindings: Dict[str, Any] = {}
    vt = tgt.elts[1] if enum else tgt
    if enum:
        bindings[tgt.elts[0].id] = idx.sub(lo).add(start)
    if isinstance(vt, ast.Name):
        bindings[vt.id] = el
    elif isinstance(vt, (ast.Tuple, ast.List)) and isinstance(el, Vec) and len(vt.elts) == len(el.items) and all(isinstance(e, ast.Name) for e in vt.elts):
        for e, c in zip(vt.elts, el.items):
            bindings[e.id] = c
    else:
        return None
    return LoopBinding(idx, lo, n, bindings, f"elements {lo}..len of {norm_text(seq_node)}")


def borrow(rc, rule: str, *sections, note: str = ""):
    """Run rule sections that belong to another property under this property's rule id `rule`: the contracts of the
    helpers a property leans on are part of what has to hold for it (its own rules treat those helpers as opaque calls)."""
    res = rc.res
    sf, so = len(res.findings), len(res.obligations)
    for sec in sections:
        sec(rc)
    for f in res.findings[sf:]:
        f.message = f"[helper contract, {f.rule}] " + f.message
        f.rule = rule
    for o in res.obligations[so:]:
        o.rule = rule


def mutation_analysis(rc):
    """One alias / mutation / dtype analysis per run (it is a whole-package fixpoint)."""
    ctx = rc.ctx if hasattr(rc, "ctx") else rc
    ma = getattr(ctx, "_mutation_analysis", None)
    if ma is None:
        from ..mutation import MutationAnalysis
        ma = MutationAnalysis(ctx.repo, ctx.linker)
        ctx._mutation_analysis = ma
    return ma


def hidden_state(rc, rule: str, roots, what: str):
    """Borrow C20's "a function of its arguments" contract for the functions reachable from `roots`."""
    from . import c20
    rc.res.rule(rule, f"{what}: the result is computed from the arguments only - nothing reachable keeps state between calls (a module-level memo, counter or "
                      "registry) or calls a nondeterminism source (id(), hash(), random, time)")
    borrow(rc, rule, lambda rc_: c20.sec_hidden_state(rc_, roots, what))


def carry(ev, loop, env, benv, skip=()):
    """Loop-carried state: a name the loop body assigns and that already has a value before the loop may hold, at the start
    of an iteration, whatever an earlier iteration left in it (`best = None` before the loop, re-assigned only on some
    paths inside it).  Evaluating one iteration with the *initial* value would model the first iteration only: every
    such name that the caller has not given a value of its own is replaced by an unknown `<name>@carried`."""
    body = ast.Module(body=list(loop.body), type_ignores=[])
    targets = {n.id for n in ast.walk(loop.target) if isinstance(n, ast.Name)} if isinstance(loop, ast.For) else set()
    out = []
    for nme in stored_names(body):
        if nme in targets or nme in skip or nme not in env:
            continue
        if nme in benv and benv[nme] is not env[nme]:
            continue                    # the caller models this one itself
        v = env[nme]
        if isinstance(v, Vec) and v.kind == "list":
            continue                    # accumulators are handled by the rules (appends are events)
        benv[nme] = ev.symbol(nme + "@carried", isinstance(v, Rat) and v.is_array())
        out.append(nme)
    return out


def stray_stores(out, allowed=()) -> list:
    """Element / slice / masked stores into arrays that a whole-function evaluation did not turn into values (a preallocated array
    is modelled by its initial content: `a = np.zeros(n); a[mask] = v` still *reads* as zeros).  A rule that decides a function by
    the value it returns must not trust that value while such stores exist: the names they hit."""
    return sorted({e.target for e in out.events if e.kind == "store" and e.target not in allowed and e.target != "cache"})


def unread_helper(*values):
    """The name of a private helper the evaluator had to keep opaque (its body has loops or lies too deep) when one of the
    given values or guards depends on its result - such a value is a placeholder, not a fact about the code."""
    from .. import report
    for v in values:
        t = str(v)
        for name in report.OPAQUE_FALLBACKS:
            if name + "(" in t:
                return name
    return None


def affine_positions(ev, fi, loop, benv, carried, env, idx: Rat, first: Rat) -> dict:
    """Loop-carried *position* variables: a name that starts at a constant and is set, on every path of an iteration, to the
    position of the next iteration plus the same offset (`prev = i` at the end of each round) *is* idx + c at the head of
    every iteration - an inductive invariant (base: its initial value at the first position `first`; step: checked on the
    body's transfer function under the hypothesis).  Returns {name: idx + c} for the names where the induction goes through."""
    from ..gvn import cases_of, Unsupported
    cand = {n: idx + (env[n] - first) for n in carried if isinstance(env.get(n), Rat) and env[n].is_const() is not None}
    while cand:
        trial = dict(benv)
        trial.update(cand)
        try:
            out = ev.eval_loop_body(fi, loop, trial)
        except Unsupported:
            return {}
        bad = []
        for n, hyp in cand.items():
            new = out.env.get(n)
            live = [(g, v) for g, v in cases_of(new) if g_sat(g)]
            if not live or not all(isinstance(v, Rat) and v.equals(hyp + Rat.const(1)) for _g, v in live):
                bad.append(n)
        if not bad:
            return cand
        for n in bad:
            del cand[n]
    return {}


def section(rc, fn, *args, **kwargs):
    """Run one independent part of a property's rules: a shape that part cannot read (AnalysisError) is recorded and the
    other parts are still decided - a violation found elsewhere is not lost because one function was rewritten."""
    try:
        return fn(rc, *args, **kwargs)
    except AnalysisError as e:
        rc.res.error(str(e))
        return None


def log_only_local(fi, name: str) -> bool:
    """A local that is only ever read inside logging calls (a counter kept for a debug message): updating it is not an
    effect of the function."""
    if name in {a.arg for a in fi.node.args.args + fi.node.args.kwonlyargs}:
        return False
    parents = {}
    for p_ in ast.walk(fi.node):
        for c_ in ast.iter_child_nodes(p_):
            parents[id(c_)] = p_
    seen = False
    for n in ast.walk(fi.node):
        if isinstance(n, ast.Name) and n.id == name:
            if not isinstance(n.ctx, ast.Load):
                continue
            seen = True             # (a name that is never read at all is not a log counter: it stays visible to the rules)
            cur, ok = n, False
            while id(cur) in parents:
                cur = parents[id(cur)]
                if isinstance(cur, ast.Call) and isinstance(cur.func, ast.Attribute) and isinstance(cur.func.value, ast.Name) \
                        and cur.func.value.id in ("logger", "logging", "log") and cur.func.attr in ("debug", "info", "warning", "error", "log"):
                    ok = True
                    break
                if isinstance(cur, ast.stmt):
                    break
            if not ok:
                return False
        elif isinstance(n, (ast.Global, ast.Nonlocal)) and name in n.names:
            return False
    return seen


def early_exits_bounded(rc, rule: str, fi, returns, size: Rat, limit: int, what: str) -> bool:
    """Returns taken before the main loop of a pass skip that pass.  That is only the same function when nothing is left
    for the pass to decide: every such exit must be confined to inputs of at most `limit` elements (`size` is the
    input's length).  An exit that also takes larger inputs is reported: for them the rule of the pass is skipped."""
    from ..intervals import int_bounds
    res = rc.res
    ok = True
    for g, _v in returns:
        if not g_sat(g):
            continue
        parts = g.a if g.kind == "or" else (g,)
        for part in parts:
            if not g_sat(part):
                continue
            _lo, hi = int_bounds(part, size)
            if hi is None or hi > limit:
                ok = False
                res.violation(rule, fi.module, fi.name, fi.node,
                              f"{what}: a result is returned before the pass under {_short(part, 100)}, which admits inputs of more than {limit} element(s): "
                              "for them the rule of the pass is skipped", _short(part, 160), f"an early exit only for at most {limit} element(s)", construct=f"early exit {fi.name}")
    return ok


def account_exits(fi, predicate=None):
    """A rule declares that it has judged the early exits of fi that satisfy `predicate` (all of them when None)."""
    ACCOUNTED.setdefault(fi.qualname, []).append(predicate or (lambda r: True))


def early_returns(fi, loop) -> list:
    """Return statements that can be taken before the main loop starts (textually in front of it, outside any loop)."""
    out = []
    line = getattr(loop, "lineno", None)
    if line is None:
        return out

    def walk(stmts):
        for st in stmts:
            if st is loop or getattr(st, "lineno", 0) >= line:
                return True
            if isinstance(st, ast.Return):
                out.append(st)
            elif isinstance(st, ast.If):
                if walk(st.body) or walk(st.orelse):
                    return True
            elif isinstance(st, (ast.With, ast.Try)):
                for blk in [getattr(st, "body", []), getattr(st, "orelse", []), getattr(st, "finalbody", [])] + [h.body for h in getattr(st, "handlers", [])]:
                    if walk(blk):
                        return True
        return False
    walk(fi.node.body)
    return out


def audit_early_exits(res):
    """A pass that is taken apart loop first says nothing about a `return` in front of the loop: every such exit must have
    been judged by a rule (short-input clauses, zero-iteration exits, size bounds).  One that no rule has judged is a shape
    that was not read - exit 2, never a silent pass."""
    for q, (fi, loop) in sorted(READ_LOOPS.items()):
        preds = ACCOUNTED.get(q, [])
        for r in early_returns(fi, loop):
            if any(p(r) for p in preds):
                continue
            res.error(f"{q}: the exit `{ast.unparse(r)[:60]}` (line {r.lineno}) in front of the main loop is not judged by any rule of this property - shape not recognised")


def justify_prefix_returns(rc, fi, ev, returns, env, loop, post) -> list:
    """Of the (guard, value) returns taken in front of `loop`, those that are NOT zero-iteration exits.  A zero-iteration exit
    is taken only when the loop would not run at all and returns exactly what the statements after the loop return on the
    state the loop starts from - the same function, written with a shortcut."""
    from ..gvn import Frame, vkey, Unsupported
    out = []
    b = None
    if isinstance(loop, ast.For):
        try:
            b = bind_loop(ev, Frame(ev, fi, 0), loop, dict(env))
        except Exception:
            b = None
    v0 = None
    if b is not None:
        try:
            fr2 = Frame(ev, fi, 0)
            fr2.block(list(post), dict(env), TRUE)
            if len(fr2.returns) == 1 and fr2.returns[0][0].kind == "true":
                v0 = fr2.returns[0][1]
        except Unsupported:
            v0 = None
    for g, v in returns:
        if not g_sat(g):
            continue
        if b is not None and v0 is not None and g_implies(g, canon_sign(b.hi.sub(b.lo), OPS["<="])) and vkey(v) == vkey(v0):
            continue
        out.append((g, v))
    return out


ACCOUNTED_RET: Dict[str, list] = {}      # qualname -> predicates over ast.Return nodes after the main loop that a rule has judged by value


def _ALL(_r) -> bool:
    return True


def account_returns(fi, predicate=None):
    """A rule declares that it has judged (by value) the returns after the main loop of fi that satisfy `predicate` (all of
    them, and every statement after the loop with them, when None: the rule evaluated the whole tail)."""
    ACCOUNTED_RET.setdefault(fi.qualname, []).append(predicate or _ALL)


def _plain_return(e, fi, lk) -> bool:
    """A return expression that only hands over what the function built: names, tuples of them, np.array / np.asarray of
    them, calls of package functions on them.  Anything that transforms the result on its way out (a slice, a reversal, a
    sort, arithmetic, a comprehension) is not plain."""
    if e is None or isinstance(e, (ast.Name, ast.Constant)):
        return True
    if isinstance(e, (ast.Tuple, ast.List)):
        return all(_plain_return(x, fi, lk) for x in e.elts)
    if isinstance(e, ast.Call):
        f = norm_text(e.func)
        if f in ("np.array", "np.asarray", "numpy.array", "numpy.asarray"):
            return len(e.args) == 1 and _plain_return(e.args[0], fi, lk) and all(k.arg == "dtype" for k in e.keywords)
        try:
            r = lk.resolve(fi.module, e.func)
        except Exception:
            return False
        if r.kind == "func":
            return all(not isinstance(a, ast.Starred) and _plain_return(a, fi, lk) for a in e.args) and all(k.arg is not None and _plain_return(k.value, fi, lk) for k in e.keywords)
    return False


def audit_return_forms(ctx):
    """The loop readers identify the list a pass builds and decide how it is built; what the function then does with it on
    the way out is a separate fact.  Every `return` after the main loop must either hand the result over unchanged (a plain
    form) or have been judged by value by a rule (`account_returns`); a return that transforms the result and that no rule
    looked at is a shape that was not read - exit 2."""
    res = ctx.result
    lk = ctx.linker
    for q, (fi, loop) in sorted(READ_LOOPS.items()):
        end = getattr(loop, "end_lineno", None) or getattr(loop, "lineno", 0)
        preds = ACCOUNTED_RET.get(q, [])
        filled_ = {c.func.value.id for c in ast.walk(loop) if isinstance(c, ast.Call) and isinstance(c.func, ast.Attribute) and c.func.attr in ("append", "extend")
                   and isinstance(c.func.value, ast.Name)}
        judged_all = any(p is _ALL for p in preds)
        if not judged_all:
            # statements after the loop that change the collected list in place (pop / remove / insert / reverse / clear / a descending
            # sort / an element store or deletion) are part of "what is returned" just as the return expression is
            for st in ast.walk(fi.node):
                if getattr(st, "lineno", 0) <= end or not isinstance(st, (ast.Expr, ast.Assign, ast.AugAssign, ast.Delete)):
                    continue
                hit = None
                if isinstance(st, ast.Expr) and isinstance(st.value, ast.Call) and isinstance(st.value.func, ast.Attribute) and isinstance(st.value.func.value, ast.Name) \
                        and st.value.func.value.id in filled_:
                    m_ = st.value.func.attr
                    if m_ in ("pop", "remove", "insert", "reverse", "clear") or (m_ == "sort" and any(k.arg == "reverse" and not (isinstance(k.value, ast.Constant) and not k.value.value)
                                                                                                         for k in st.value.keywords)):
                        hit = st
                tg = st.targets if isinstance(st, (ast.Assign, ast.Delete)) else ([st.target] if isinstance(st, ast.AugAssign) else [])
                for t in tg:
                    if isinstance(t, ast.Subscript) and isinstance(t.value, ast.Name) and t.value.id in filled_:
                        hit = st
                    # the collected list re-bound after the loop to something made from it (a filtered copy, a comprehension over it):
                    # a conversion of the whole list (np.array(L), list(L), sorted(L)) is not a change of what was collected
                    if isinstance(t, ast.Name) and t.id in filled_ and isinstance(st, (ast.Assign, ast.AugAssign)):
                        v_ = st.value
                        conv = isinstance(v_, ast.Call) and norm_text(v_.func) in ("np.array", "np.asarray", "numpy.array", "list", "tuple", "sorted") and len(v_.args) == 1 \
                            and isinstance(v_.args[0], ast.Name) and v_.args[0].id == t.id and all(k.arg == "dtype" for k in v_.keywords)
                        # (np.append(L, v) / np.append(np.array(L), v) adds an element: the rules that read the loop judge what is appended)
                        if isinstance(v_, ast.Call) and norm_text(v_.func) in ("np.append", "numpy.append") and len(v_.args) == 2 and not v_.keywords:
                            a0 = v_.args[0]
                            if isinstance(a0, ast.Call) and norm_text(a0.func) in ("np.array", "np.asarray") and len(a0.args) == 1:
                                a0 = a0.args[0]
                            conv = isinstance(a0, ast.Name) and a0.id == t.id
                        if not conv:
                            hit = st
                if hit is not None:
                    res.error(f"{q}: `{ast.unparse(hit)[:70]}` (line {hit.lineno}) changes the list collected by the main loop after the loop and is not judged by any rule of this property - shape not recognised")
        for r in ast.walk(fi.node):
            if not isinstance(r, ast.Return) or getattr(r, "lineno", 0) <= end:
                continue
            rexpr = returned_expr(fi, r)
            if any(p(r) for p in preds) or _plain_return(rexpr, fi, lk):
                continue
            # a list the pass fills by append, returned with a constant slice or reversed: elements the rules have just shown to
            # belong to the result are dropped, or their order is inverted, on the way out
            filled = {c.func.value.id for c in ast.walk(loop) if isinstance(c, ast.Call) and isinstance(c.func, ast.Attribute) and c.func.attr in ("append", "extend")
                      and isinstance(c.func.value, ast.Name)}
            cut = None
            for sub in ast.walk(rexpr):
                if isinstance(sub, ast.Subscript) and isinstance(sub.value, ast.Name) and sub.value.id in filled and isinstance(sub.slice, ast.Slice):
                    parts = [sub.slice.lower, sub.slice.upper, sub.slice.step]

                    def _c(e):
                        if e is None:
                            return True
                        if isinstance(e, ast.UnaryOp) and isinstance(e.op, ast.USub):
                            e = e.operand
                        return isinstance(e, ast.Constant) and isinstance(e.value, int)
                    trivial = (sub.slice.lower is None or (isinstance(sub.slice.lower, ast.Constant) and sub.slice.lower.value == 0)) and sub.slice.upper is None and sub.slice.step is None
                    if all(_c(e) for e in parts) and not trivial:
                        cut = sub
            if cut is not None:
                res.rule("A-ret", "what a pass has collected is returned whole and in order: no constant slice or reversal of the list the main loop fills on the way out")
                res.violation("A-ret", fi.module, fi.name, r, f"the list `{cut.value.id}` filled by the main loop is returned as `{ast.unparse(cut)}`: collected elements are dropped or their order is inverted on the way out",
                              ast.unparse(r)[:100], f"return the whole list ({cut.value.id})", construct=f"returned slice {fi.name}")
                continue
            res.error(f"{q}: the return `{ast.unparse(r)[:70]}` (line {r.lineno}) after the main loop transforms the result and is not judged by any rule of this property - shape not recognised")


ACCOUNTED_LOOP: Dict[str, bool] = {}     # qualname -> a rule has judged the break / return statements of the main loop


def account_loop_exits(fi):
    """A rule declares that it has judged every way the main loop of fi can be left early (its breaks and returns)."""
    ACCOUNTED_LOOP[fi.qualname] = True


def audit_loop_exits(res):
    """A pass that can be left early does not visit everything it is stated to visit.  The loop readers take one iteration
    apart; a `break` or `return` inside the main loop is only part of that picture when the rule looks at it.  One that no
    rule has judged is a shape that was not read - exit 2."""
    for q, (fi, loop) in sorted(READ_LOOPS.items()):
        if ACCOUNTED_LOOP.get(q):
            continue
        found = []

        def walk(stmts, depth):
            for st in stmts:
                if isinstance(st, (ast.FunctionDef, ast.AsyncFunctionDef, ast.ClassDef)):
                    continue
                if isinstance(st, ast.Break) and depth == 0:
                    found.append(st)
                elif isinstance(st, ast.Return):
                    found.append(st)
                for f_ in ("body", "orelse", "finalbody"):
                    sub = getattr(st, f_, None)
                    if isinstance(sub, list) and sub and isinstance(sub[0], ast.stmt):
                        walk(sub, depth + (1 if isinstance(st, (ast.For, ast.While)) and f_ == "body" else 0))
                for h in getattr(st, "handlers", []):
                    walk(h.body, depth)
        walk(NORMAL_LOOPS.get(q, loop).body, 0)     # (guard-clause breaks folded into the loop test are part of the test the rules read)
        for n in found:
            res.error(f"{q}: the main loop can be left early by `{ast.unparse(n)[:40]}` (line {n.lineno}), which no rule of this property has judged - shape not recognised")


def returned_expr(fi, r: ast.Return):
    """The expression a return statement hands over, read through a temporary assigned just in front of it
    (`_rv = E; return _rv` returns E)."""
    e = r.value
    if not isinstance(e, ast.Name):
        return e
    for blk in ast.walk(fi.node):
        for f_ in ("body", "orelse", "finalbody"):
            stmts = getattr(blk, f_, None)
            if isinstance(stmts, list) and r in stmts:
                k = stmts.index(r)
                if k > 0 and isinstance(stmts[k - 1], ast.Assign) and len(stmts[k - 1].targets) == 1 and isinstance(stmts[k - 1].targets[0], ast.Name) \
                        and stmts[k - 1].targets[0].id == e.id:
                    return stmts[k - 1].value
    return e
