"""Helpers shared by the rule modules."""

from __future__ import annotations

import ast
from typing import Any, Dict, Iterable, List, Optional, Sequence, Tuple

from .. import AnalysisError, anf
from ..anf import Rat
from ..guards import G, TRUE, FALSE, g_and, g_or, g_not, g_equiv, g_implies, g_sat, OPS, OP_OF_SIGNS, canon_sign
from ..gvn import Evaluator, PW, Vec, Obj, Unsupported, cases_of, mk_pw, veq, vkey
from ..model import FuncInfo, Module, norm_text

UNDERSTOOD_PREFIXES = ("abs", "sqrt", "log", "max", "min", "Sum", "pow", "at", "slice", "len", "item", "amax", "amin",
                       "argmax", "argmin", "int", "ceil", "floor", "exp", "take", "median", "vec")


def foreign_atoms(r: Rat, allowed: Iterable[str] = ()) -> List[str]:
    """Opaque atoms whose meaning the algebra does not know (dependency calls, unknown methods...)."""
    out = []
    allowed = set(allowed)
    for a in r.all_atoms():
        if a.kind != "fn":
            continue
        if a.name in UNDERSTOOD_PREFIXES or a.name in allowed:
            continue
        out.append(a.name)
    return sorted(set(out))


def judge(got: Rat, want: Rat) -> Tuple[str, str]:
    """equal | differs | inconclusive, with a short explanation."""
    if got.equals(want):
        return "equal", ""
    fa = [x for x in foreign_atoms(got) if x not in foreign_atoms(want)]
    if fa:
        return "inconclusive", f"the code's normal form contains calls the algebra does not interpret: {fa[:5]}"
    return "differs", anf.explain_difference(got, want)


class RuleCtx:
    """Small façade over Context for rule modules."""

    def __init__(self, ctx):
        self.ctx = ctx
        self.res = ctx.result
        self.repo = ctx.repo
        self.lk = ctx.linker
        self.ev = Evaluator(self.lk, inline_depth=6 if ctx.thorough else 4)

    def func(self, qual: str) -> FuncInfo:
        return self.repo.func(qual)

    def new_eval(self) -> Evaluator:
        self.ev = Evaluator(self.lk, inline_depth=6 if self.ctx.thorough else 4)
        return self.ev

    # ------------------------------------------------------------------
    def eval_fn(self, qual: str, args: Dict[str, Any]):
        fi = self.func(qual)
        try:
            return fi, self.ev.eval_function(fi, args)
        except Unsupported as e:
            raise AnalysisError(f"{qual}: the body uses a construct the evaluator does not model: {e}")

    def eval_expr(self, fi: FuncInfo, text: str, env: Dict[str, Any]):
        """Evaluate an expression (Python text) in the context of `fi`'s module."""
        from ..gvn import Frame
        fr = Frame(self.ev, fi, 0)
        from ..model import keep
        node = keep(ast.parse(text.strip(), mode="eval")).body
        # names in the text resolve through the function's scope
        for n in ast.walk(node):
            fi.module.node_scope[id(n)] = fi.scope
        return fr.expr(node, dict(env))

    def expect_equal(self, rule: str, fi: FuncInfo, got, want: Rat, what: str, node=None, under: G = TRUE) -> bool:
        """`got` (possibly piecewise) must equal `want` in every case compatible with `under`."""
        ok = True
        for g, v in cases_of(got):
            gg = g_and(g, under)
            if gg.kind == "false" or not g_sat(gg):
                continue
            if not isinstance(v, Rat):
                self.res.violation(rule, fi.module, fi.name, node or fi.node, f"{what}: returns a non-numeric value {v!r}",
                                   repr(v), str(want), construct=f"{what}")
                ok = False
                continue
            verdict, why = judge(v, want)
            if verdict == "equal":
                continue
            ok = False
            if verdict == "inconclusive":
                self.res.error(f"INCONCLUSIVE {rule} {fi.qualname} ({what}): {why}")
            else:
                self.res.violation(rule, fi.module, fi.name, node or fi.node,
                                   f"{what}: the value computed by the code is not the required formula ({why})",
                                   _short(v), _short(want), construct=what)
        if ok:
            self.res.ok(rule, f"{fi.qualname}", f"{what}: {_short(want)}", f"{fi.module.relpath}:{fi.lineno}")
            self.res.sample({"rule": rule, "function": fi.qualname, "what": what, "normal_form": _short(want, 300)})
        return ok


def _short(v, n: int = 160) -> str:
    s = str(v)
    return s if len(s) <= n else s[: n - 3] + "..."


def sign_set_name(signs) -> str:
    return OP_OF_SIGNS.get(frozenset(signs), str(sorted(signs)))


# --------------------------------------------------------------------------
# AST helpers
# --------------------------------------------------------------------------

def loops_of(fi: FuncInfo, kind=(ast.For, ast.While)) -> List[ast.AST]:
    out = []

    def walk(stmts, depth):
        for st in stmts:
            if isinstance(st, kind):
                out.append((depth, st))
            for fld in ("body", "orelse"):
                sub = getattr(st, fld, None)
                if isinstance(sub, list):
                    walk(sub, depth + (1 if isinstance(st, (ast.For, ast.While)) else 0))
    walk(fi.node.body, 0)
    return [st for _d, st in out]


def top_loops(fi: FuncInfo, kind=(ast.For, ast.While)) -> List[ast.AST]:
    """Loops that are not nested inside another loop (but possibly inside ifs)."""
    out = []

    def walk(stmts):
        for st in stmts:
            if isinstance(st, kind):
                out.append(st)
                continue
            if isinstance(st, (ast.For, ast.While)):
                continue
            for fld in ("body", "orelse"):
                sub = getattr(st, fld, None)
                if isinstance(sub, list):
                    walk(sub)
    walk(fi.node.body)
    return out


def calls_in(node, name_pred) -> List[ast.Call]:
    return [n for n in ast.walk(node) if isinstance(n, ast.Call) and name_pred(n)]


def method_calls(node, method: str, base: Optional[str] = None) -> List[ast.Call]:
    out = []
    for n in ast.walk(node):
        if isinstance(n, ast.Call) and isinstance(n.func, ast.Attribute) and n.func.attr == method:
            if base is None or (isinstance(n.func.value, ast.Name) and n.func.value.id == base):
                out.append(n)
    return out


def split_at_loop(fi: FuncInfo, which: int = 0, kind=(ast.For, ast.While)):
    """(statements before, the loop, statements after) for the `which`-th top-level loop of the body."""
    body = fi.node.body
    idxs = [i for i, st in enumerate(body) if isinstance(st, kind)]
    if len(idxs) <= which:
        raise AnalysisError(f"{fi.qualname}: expected a top-level loop #{which} - shape not recognised")
    k = idxs[which]
    return body[:k], body[k], body[k + 1:]


def stored_names(node) -> List[str]:
    out = []
    for n in ast.walk(node):
        if isinstance(n, ast.Name) and isinstance(n.ctx, ast.Store) and n.id not in out:
            out.append(n.id)
    return out


def range_args(loop: ast.For):
    """The argument expressions of `for v in range(...)`, or None."""
    it = loop.iter
    if isinstance(it, ast.Call) and isinstance(it.func, ast.Name) and it.func.id == "range":
        return it.args
    return None


def locate_loop(fi: FuncInfo, which: int = 0, kind=(ast.For, ast.While)):
    """Finds the `which`-th loop that is not nested in another loop (it may sit inside
    if-branches).  Returns (pre, loop, post, conditions): `pre` are the statements executed
    before the loop along the nesting path (outer blocks first), `post` the statements of the
    loop's own block after it, `conditions` the (test, branch_taken) pairs of the enclosing ifs."""
    found = []

    def walk(stmts, pre, conds):
        for k, st in enumerate(stmts):
            if isinstance(st, kind):
                found.append((pre + stmts[:k], st, stmts[k + 1:], list(conds)))
            elif isinstance(st, (ast.For, ast.While)):
                pass
            elif isinstance(st, ast.If):
                walk(st.body, pre + stmts[:k], conds + [(st.test, True)])
                walk(st.orelse, pre + stmts[:k], conds + [(st.test, False)])
    walk(fi.node.body, [], [])
    if len(found) <= which:
        raise AnalysisError(f"{fi.qualname}: expected a loop #{which} outside other loops - shape not recognised")
    return found[which]


def returned_names(stmts) -> Optional[set]:
    """Names that flow into the (single) return value of a statement list, following the simple
    assignments that precede it (`_rv = np.array(out); return _rv` still returns `out`)."""
    rets = [(k, st) for k, st in enumerate(stmts) if isinstance(st, ast.Return)]
    if len(rets) != 1 or rets[0][1].value is None:
        return None
    k, ret = rets[0]
    names = {n.id for n in ast.walk(ret.value) if isinstance(n, ast.Name)}
    for st in reversed(stmts[:k]):
        if isinstance(st, ast.Assign) and len(st.targets) == 1 and isinstance(st.targets[0], ast.Name) and st.targets[0].id in names:
            names |= {n.id for n in ast.walk(st.value) if isinstance(n, ast.Name)}
    return names
