"""C20 -- public functions are pure, deterministic, layout-independent and fully linked.

Decided statically:
  N  every name / attribute of an imported module / intra-package call signature
     resolves on every path (E1 + E2);
  P  no public function writes an array or list argument (E3);
  D  no nondeterminism source is reachable (API ban over resolved callees, no
     module-level mutable state written by a function);
  Y  layout / dtype independence is NOT decided; only guarded by a ban on
     layout-revealing APIs applied to argument-derived arrays.
"""

from __future__ import annotations

import ast

from .. import deps
from ..linker import definite_assignment_findings
from ..model import norm_text

FLOOR_FUNCTIONS = 120      # functions analysed (139 today)
FLOOR_CALLS = 150          # intra-package call sites arity-checked (confirmed by reading: > 200 today)


def run(ctx):
    res = ctx.result
    res.level = "other"
    res.rule("N-name", "every Name in load context resolves through local/enclosing/module/builtin scope (NameError otherwise)")
    res.rule("N-attr", "every attribute chain rooted in an import resolves in the package source or by getattr on the installed dependency (AttributeError otherwise)")
    res.rule("N-attr-local", "an attribute on a local whose type is determined by all reaching definitions exists on that type")
    res.rule("N-arity", "every call whose callee resolves to a package def (directly, via alias, dispatch table or function-pointer slot) binds to its signature (arity TypeError otherwise)")
    res.rule("N-arity-dep", "calls to dependency callables bind to inspect.signature when available")
    res.rule("N-unbound", "every use of a function local is assigned on every path reaching it (UnboundLocalError is a NameError)")
    lk = ctx.linker
    nfun = 0
    for mod in ctx.repo.package_modules():
        def on_error(rule, fname, node, msg, extracted="", expected="", _m=mod):
            res.violation(rule, _m, fname, node, msg, extracted, expected)

        def on_ok(rule, site, _m=mod):
            res.ok(rule, site)
        lk.check_module(mod, on_error, on_ok)
        for fi in mod.all_functions:
            nfun += 1
            for (name, use, idiom) in definite_assignment_findings(mod, fi):
                fname = fi.name if not fi.cls else f"{fi.cls}.{fi.name}"
                if idiom:
                    res.ok("N-unbound", f"{fi.qualname}:{name}", f"correlated-guard idiom under `{idiom}`")
                    continue
                res.violation("N-unbound", mod, fname, use,
                              f"UnboundLocalError: local '{name}' is not assigned on every path reaching this use",
                              f"use of '{name}'", "a definition of the name on every path from the function entry",
                              construct=f"{name} @ {norm_text(mod.parent(use)) if mod.parent(use) is not None else name}")
            res.ok("N-unbound", fi.qualname, "all local uses definitely assigned") if True else None
    lk.stats["functions"] = nfun
    res.analysed["linker"] = dict(lk.stats)
    res.analysed["dependency_versions"] = deps.versions()
    res.analysed["function_pointer_slots"] = {f"{k[0]}({k[1]})": sorted(v) for k, v in lk.flows.items()}
    res.analysed["unresolved_receiver_sites"] = len(lk.unresolved_sites)
    res.require_instances("N (functions analysed)", nfun, FLOOR_FUNCTIONS)
    res.require_instances("N-arity (call sites checked)", lk.stats["calls_checked"], FLOOR_CALLS)
    # client call sites (demos/examples/test): notes only
    if ctx.thorough:
        for cm in ctx.repo.clients.values():
            def c_err(rule, fname, node, msg, extracted="", expected="", _m=cm):
                res.note(f"client {_m.relpath}:{getattr(node, 'lineno', 0)} {rule}: {msg}")

            def c_ok(rule, site):
                pass
            try:
                lk.check_module(cm, c_err, c_ok)
            except deps.DepError as e:
                res.note(f"client {cm.relpath}: {e}")
    res.not_decided += [
        "layout (C/F/view) and dtype (int64/float64) independence of results",
        "determinism of the dependencies themselves",
    ]
