"""C20 -- public functions are pure, deterministic, layout-independent and fully linked.

Decided statically:
  N  every name / attribute of an imported module / intra-package call signature
     resolves on every path (E1 + E2);
  P  no public function writes an array or list argument (E3);
  D  no nondeterminism source is reachable (API ban over resolved callees, no
     module-level mutable state written by a function);
  Y  layout / dtype independence is NOT decided; only guarded by a ban on
     layout-revealing APIs applied to argument-derived arrays.
"""

from __future__ import annotations

import ast

import os

from .. import deps
from ..linker import definite_assignment_findings
from ..model import norm_text
from ..mutation import MutationAnalysis

CONTROL = os.path.join(os.path.dirname(os.path.dirname(os.path.abspath(__file__))), "controls", "c20_controls.py")
CONTROL_NAME = "kneeliverse._kverif_control"

# positive controls: function -> (event kind, minimum count)
CONTROL_EXPECT = {
    "ctl_write_sort": ("write", 1), "ctl_write_view": ("write", 1), "ctl_write_store": ("write", 1),
    "ctl_write_via_callee": ("write", 1), "ctl_write_put": ("write", 1), "ctl_copy_is_fine": ("write", 0),
    "ctl_random": ("nondet", 2), "ctl_time": ("nondet", 1), "ctl_layout": ("layout", 1), "ctl_dtype": ("dtype", 1),
    "ctl_global_state": ("global-write", 1),
}

# in/out parameters that are written by design; one line of reason each
WRITE_EXEMPT = {
    # C20 speaks of the array and list arguments of *public* functions; these are private loop bodies whose
    # callers (rdp_fixed / grdp / mp_grdp) pass freshly built local lists
    ("rdp._rdp_fixed", "stack"): "private worker: in/out work stack owned by the public caller",
    ("rdp._rdp_fixed", "reduced"): "private worker: in/out result list owned by the public caller",
    ("rdp._grdp", "stack"): "private worker: in/out work stack owned by the public caller",
    ("rdp._grdp", "reduced"): "private worker: in/out result list owned by the public caller",
}

BANNED_MODULE_PREFIXES = ("random", "numpy.random", "time", "uuid", "secrets", "datetime")
BANNED_BUILTINS = {"id", "hash", "input"}
BANNED_OS = {"urandom", "getpid", "times"}
# callables that set process-wide state every later numeric call of the process runs under (module level or not): once one of
# them runs, a public function's result / termination depends on that hidden state and not on its arguments alone
PROCESS_STATE_SETTERS = {("numpy", "seterr"), ("numpy", "seterrcall"), ("numpy", "setbufsize"), ("warnings", "filterwarnings"),
                         ("warnings", "simplefilter"), ("warnings", "resetwarnings"), ("sys", "setrecursionlimit"),
                         ("sys", "setswitchinterval"), ("locale", "setlocale"), ("decimal", "setcontext")}

FLOOR_FUNCTIONS = 120      # functions analysed (139 today)
FLOOR_CALLS = 150          # intra-package call sites arity-checked (confirmed by reading: > 200 today)


def run(ctx):
    res = ctx.result
    res.level = "other"
    res.rule("N-name", "every Name in load context resolves through local/enclosing/module/builtin scope (NameError otherwise)")
    res.rule("N-attr", "every attribute chain rooted in an import resolves in the package source or by getattr on the installed dependency (AttributeError otherwise)")
    res.rule("N-attr-local", "an attribute on a local whose type is determined by all reaching definitions exists on that type")
    res.rule("N-arity", "every call whose callee resolves to a package def (directly, via alias, dispatch table or function-pointer slot) binds to its signature (arity TypeError otherwise)")
    res.rule("N-arity-dep", "calls to dependency callables bind to inspect.signature when available")
    res.rule("N-unbound", "every use of a function local is assigned on every path reaching it (UnboundLocalError is a NameError)")
    ctx.repo.add_module(CONTROL_NAME, CONTROL)
    lk = ctx.linker
    nfun = 0
    for mod in ctx.repo.package_modules():
        def on_error(rule, fname, node, msg, extracted="", expected="", _m=mod, construct=None):
            res.violation(rule, _m, fname, node, msg, extracted, expected, construct=construct)

        def on_ok(rule, site, _m=mod):
            res.ok(rule, site)
        lk.check_module(mod, on_error, on_ok)
        for fi in mod.all_functions:
            nfun += 1
            for (name, use, idiom) in definite_assignment_findings(mod, fi):
                fname = fi.name if not fi.cls else f"{fi.cls}.{fi.name}"
                if idiom:
                    res.ok("N-unbound", f"{fi.qualname}:{name}", f"correlated-guard idiom under `{idiom}`")
                    continue
                res.violation("N-unbound", mod, fname, use,
                              f"UnboundLocalError: local '{name}' is not assigned on every path reaching this use",
                              f"use of '{name}'", "a definition of the name on every path from the function entry",
                              construct=f"{name} @ {norm_text(mod.parent(use)) if mod.parent(use) is not None else name}")
            res.ok("N-unbound", fi.qualname, "all local uses definitely assigned") if True else None
    lk.stats["functions"] = nfun
    res.analysed["linker"] = dict(lk.stats)
    res.analysed["dependency_versions"] = deps.versions()
    res.analysed["function_pointer_slots"] = {f"{k[0]}({k[1]})": sorted(v) for k, v in lk.flows.items()}
    res.analysed["unresolved_receiver_sites"] = len(lk.unresolved_sites)
    res.require_instances("N (functions analysed)", nfun, FLOOR_FUNCTIONS)
    res.require_instances("N-arity (call sites checked)", lk.stats["calls_checked"], FLOOR_CALLS)
    # client call sites (demos/examples/test): notes only
    if ctx.thorough:
        for cm in ctx.repo.clients.values():
            def c_err(rule, fname, node, msg, extracted="", expected="", _m=cm, construct=None):
                res.note(f"client {_m.relpath}:{getattr(node, 'lineno', 0)} {rule}: {msg}")

            def c_ok(rule, site):
                pass
            try:
                lk.check_module(cm, c_err, c_ok)
            except deps.DepError as e:
                res.note(f"client {cm.relpath}: {e}")
            except Exception as e:      # client files may use constructs outside the analysed subset (try/with/...)
                res.note(f"client {cm.relpath}: not analysed ({type(e).__name__}: {e})")
    _run_pdy(ctx)
    res.not_decided += [
        "layout (C/F/view) and dtype (int64/float64) independence of results",
        "determinism of the dependencies themselves",
    ]


def _nondet_events(ctx, mod):
    """Sites in `mod` that resolve into a nondeterminism source."""
    lk = ctx.linker
    out = []
    for node in ast.walk(mod.tree):
        if isinstance(node, (ast.Attribute, ast.Name)) and isinstance(getattr(node, "ctx", None), ast.Load):
            parent = mod.parent(node)
            if isinstance(parent, ast.Attribute) and parent.value is node:
                continue        # judge the full chain only
            r = lk.resolve(mod, node)
            if r.kind != "dep" or r.obj is None:
                continue
            obj = r.obj
            import types
            if isinstance(obj, types.ModuleType):
                continue
            om = getattr(obj, "__module__", None) or ""
            nm = getattr(obj, "__name__", "") or ""
            slf = getattr(obj, "__self__", None)
            if slf is not None and not isinstance(slf, types.ModuleType):
                om = type(slf).__module__ or om
            hit = None
            if any(om == p or om.startswith(p + ".") for p in BANNED_MODULE_PREFIXES):
                hit = f"{om}.{nm}"
            elif om == "builtins" and nm in BANNED_BUILTINS and isinstance(parent, ast.Call) and parent.func is node:
                hit = f"builtins.{nm}"
            elif om in ("os", "posix", "nt") and nm in BANNED_OS:
                hit = f"os.{nm}"
            elif (om.split(".")[0], nm) in PROCESS_STATE_SETTERS and isinstance(parent, ast.Call) and parent.func is node:
                hit = f"procstate:{om.split('.')[0]}.{nm}"
            if hit:
                out.append((node, hit))
        elif isinstance(node, ast.For):
            t = lk.expr_type(mod, _enclosing_func(mod, node), node.iter)
            if t is set or t is frozenset:
                out.append((node.iter, "iteration over a set (order depends on hashing)"))
    return out


def sec_hidden_state(rc, roots, what: str):
    """The functions reachable from `roots` compute their result from their arguments only: none of them mutates a
    module-level object (a memo, a counter, a registry) or calls into a nondeterminism source (id(), hash(), random, time).
    Borrowed by the functional properties: "for every input" presumes that the result is a function of the input."""
    res = rc.res
    lk = rc.lk
    seen, todo = {}, [rc.func(q) for q in roots]
    while todo:
        f = todo.pop()
        if f.qualname in seen or f.module.role == "control":
            continue
        seen[f.qualname] = f
        for c in ast.walk(f.node):
            if isinstance(c, ast.Call):
                r = lk.resolve(f.module, c.func)
                if r.kind == "func" and r.obj is not None:
                    todo.append(r.obj)
    from .common import mutation_analysis
    ma = mutation_analysis(rc)
    bad = 0
    for q, f in sorted(seen.items()):
        for e in ma.events.get(q, []):
            if e.kind == "global-write":
                bad += 1
                res.violation("D-global", f.module, f.name, e.node, f"{q} (reached from {what}) keeps state between calls: it mutates the module-level object "
                              f"{e.param} - the result depends on earlier calls, not only on the arguments", norm_text(e.node), "no module-level state",
                              construct=f"hidden state {q}")
    by_mod = {}
    for q, f in seen.items():
        by_mod.setdefault(f.module.short, (f.module, []))[1].append(f)
    for mod, fs in by_mod.values():
        for node, hit in _nondet_events(rc.ctx, mod):
            owner = _enclosing_func(mod, node)
            if owner is not None and any(owner is f.node for f in fs):
                bad += 1
                res.violation("D-nondet", mod, owner.name, node, f"{what} reaches a nondeterminism source: {hit} - equal inputs need not give equal results",
                              norm_text(node), "no reference into a nondeterministic API", construct=f"nondeterminism {owner.name}")
    if not bad:
        res.ok("D-global", what, f"{len(seen)} reachable function(s): no module-level state is written, no nondeterminism source is called")


def _enclosing_func(mod, node):
    cur = mod.parent(node)
    while cur is not None and not isinstance(cur, ast.FunctionDef):
        cur = mod.parent(cur)
    return cur


def _run_pdy(ctx):
    res = ctx.result
    res.rule("P-write", "no public function performs a write event (subscript/attribute store, augmented assignment, del, "
                        "mutating method, out=, np.put-family, writing callee) on a value that may alias one of its array/list parameters")
    res.rule("D-nondet", "no call/attribute in the package resolves into random, numpy.random, time, uuid, secrets, datetime, os.urandom, id(), hash(); no iteration over a set")
    res.rule("D-global", "no function mutates a module-level object in place")
    res.rule("D-procstate", "no call in the package (module level included) resolves to a process-wide state setter: numpy.seterr / seterrcall / setbufsize, "
             "warnings.filterwarnings / simplefilter / resetwarnings, sys.setrecursionlimit / setswitchinterval, locale.setlocale, decimal.setcontext")
    res.rule("D-default", "no parameter that a function stores into (directly or through a callee) has a mutable default value: a default is one object shared by "
                          "every call that omits the argument, i.e. hidden state between calls")
    res.rule("D-uninit", "an array created with np.empty / np.empty_like (not zero-sized) is written completely - a whole-array store, a permutation scatter, .fill(), "
                         "or a loop that stores into it on every path of every iteration - before it is read: its initial content is whatever the allocator returns")
    _uninit(ctx)
    from .c15 import _mutable_defaults
    from .common import RuleCtx as _RC
    _mutable_defaults(_RC(ctx), rule="D-default", modules=None, need_one=True)
    res.rule("Y-layout", "guard only: no layout-revealing API (.strides .flags .data .ctypes .base .view() .tobytes() np.frombuffer order='K|A|F') applied to an argument-derived array")
    res.rule("Y-dtype", "guard only: no float-valued store into an array whose dtype is inherited from an argument (*_like / .copy() / np.array(arg))")
    res.rule("Y-int", "guard only: no geometric primitive, metric or fit helper computes in fixed-width integer arithmetic an intermediate that can wrap around for "
                      "integer-typed input (the int64 and the float64 representation of the same curve must give the same result)")
    from . import c16 as _c16, c17 as _c17
    from .common import RuleCtx as _RC2
    _rc2 = _RC2(ctx)
    _c17._sec_intwidth(_rc2, "Y-int", dict(_c17.INT_SHAPES, **_c16.INT_SHAPES))
    _jit_float_only(ctx)
    ma = MutationAnalysis(ctx.repo, ctx.linker)
    res.analysed["mutation_fixpoint_rounds"] = ma.rounds
    res.analysed["summaries_writing"] = {q: s.writes for q, s in ma.summaries.items() if s.writes}
    res.analysed["summaries_returning_param"] = {q: sorted(s.returns) for q, s in ma.summaries.items() if s.returns}
    control_counts = {}
    npub = 0
    for q, fi in sorted(ma.funcs.items()):
        is_control = fi.module.role == "control"
        evs = ma.events.get(q, [])
        if is_control:
            for e in evs:
                control_counts[(fi.name, e.kind)] = control_counts.get((fi.name, e.kind), 0) + 1
            continue
        if not fi.is_public:
            continue
        npub += 1
        bad = False
        for e in evs:
            rule = {"write": "P-write", "layout": "Y-layout", "dtype": "Y-dtype", "global-write": "D-global"}[e.kind]
            if e.kind == "write" and (q, e.param) in WRITE_EXEMPT:
                res.ok(rule, f"{q}({e.param})", "exempt: " + WRITE_EXEMPT[(q, e.param)])
                continue
            bad = True
            res.violation(rule, fi.module, fi.name, e.node,
                          f"public function {q} {('writes its argument' if e.kind == 'write' else 'depends on')} '{e.param}': {e.how}",
                          norm_text(e.node), "no write / layout-revealing event on a value that may alias a parameter")
        if not bad:
            res.ok("P-write", q, f"tracked parameters {ma.tracked_params.get(q, [])}: no write event on any alias")
    # private functions: global state
    for q, fi in sorted(ma.funcs.items()):
        if fi.module.role == "control" or fi.is_public:
            continue
        for e in ma.events.get(q, []):
            if e.kind == "global-write":
                res.violation("D-global", fi.module, fi.name, e.node, f"{q} mutates module-level object {e.param}: {e.how}")
    # determinism sources
    nsites = 0
    for mod in ctx.repo.modules.values():
        evs = _nondet_events(ctx, mod)
        if mod.role == "control":
            for node, hit in evs:
                fn = mod.enclosing_function_name(node)
                control_counts[(fn, "nondet")] = control_counts.get((fn, "nondet"), 0) + 1
            continue
        for node, hit in evs:
            nsites += 1
            if hit.startswith("procstate:"):
                res.violation("D-procstate", mod, mod.enclosing_function_name(node), node,
                              f"process-wide state set by the library: {hit[10:]} (every numeric call of the process, this package's included, runs under it from then on)",
                              norm_text(node), "no call into a process-wide state setter")
                continue
            res.violation("D-nondet", mod, mod.enclosing_function_name(node), node,
                          f"nondeterminism source reachable: {hit}", norm_text(node), "no reference into a nondeterministic API")
    res.ok("D-nondet", "package", f"{len(ctx.repo.package_modules())} modules scanned, {nsites} banned references")
    # positive controls
    for fn, (kind, minimum) in CONTROL_EXPECT.items():
        got = control_counts.get((fn, kind), 0)
        if minimum == 0:
            if got != 0:
                res.error(f"positive control {fn}: the copy idioms are reported as writes ({got}) - the alias analysis has lost precision")
            else:
                res.ok("control", fn, "copying idioms (boolean mask, arithmetic) not reported")
        elif got < minimum:
            res.error(f"positive control {fn}: expected >= {minimum} '{kind}' event(s), found {got} - the rule has gone blind")
        else:
            res.ok("control", fn, f"{got} '{kind}' event(s) reported as required")
    res.analysed["public_functions"] = npub
    res.require_instances("P-write (public functions analysed)", npub, 100)



def _uninit(ctx):
    """D-uninit: reads of np.empty(...) storage that some path has not written."""
    res = ctx.result
    lk = ctx.linker
    np_ = deps.import_dep("numpy")
    n_sites = 0
    for mod in ctx.repo.package_modules():
        for fi in mod.all_functions:
            for st in ast.walk(fi.node):
                if not (isinstance(st, ast.Assign) and len(st.targets) == 1 and isinstance(st.targets[0], ast.Name) and isinstance(st.value, ast.Call)):
                    continue
                r = lk.resolve(mod, st.value.func)
                if not (r.kind == "dep" and r.obj in (getattr(np_, "empty", None), getattr(np_, "empty_like", None))):
                    continue
                shape = st.value.args[0] if st.value.args else None
                if isinstance(shape, ast.Tuple) and any(isinstance(e_, ast.Constant) and e_.value == 0 for e_ in shape.elts):
                    continue            # zero-sized: nothing uninitialised
                if isinstance(shape, ast.Constant) and shape.value == 0:
                    continue
                n_sites += 1
                X = st.targets[0].id
                bad = _first_uninit_read(mod, fi, st, X)
                if bad is None:
                    res.ok("D-uninit", f"{fi.qualname}:{X}", "completely written before it is read")
                else:
                    res.violation("D-uninit", mod, fi.name, bad,
                                  f"'{X}' is allocated with {ast.unparse(st.value.func)} and read here although on some path not every element has been written: "
                                  "the result depends on stale memory (different answers for identical arguments)", ast.unparse(bad)[:100] if hasattr(bad, "lineno") else X,
                                  f"np.zeros(...) or a store into every element of {X} on every path", construct=f"uninitialised {X}")
    res.analysed["np_empty_sites"] = n_sites


def _store_root(t):
    while isinstance(t, ast.Subscript):
        t = t.value
    return t.id if isinstance(t, ast.Name) else None


def _all_paths_store(stmts, X: str) -> bool:
    for s_ in stmts:
        if isinstance(s_, (ast.Assign, ast.AugAssign)):
            tg = s_.targets if isinstance(s_, ast.Assign) else [s_.target]
            if any(isinstance(t_, ast.Subscript) and _store_root(t_) == X for t_ in tg):
                return True
        if isinstance(s_, ast.If) and s_.orelse and _all_paths_store(s_.body, X) and _all_paths_store(s_.orelse, X):
            return True
    return False


def _row_views(loop: ast.For, X: str):
    it, tg = loop.iter, loop.target
    pairs = []
    if isinstance(it, ast.Name):
        pairs = [(tg, it)]
    elif isinstance(it, ast.Call) and isinstance(it.func, ast.Name) and it.func.id == "zip" and isinstance(tg, ast.Tuple) and len(tg.elts) == len(it.args):
        pairs = list(zip(tg.elts, it.args))
    elif isinstance(it, ast.Call) and isinstance(it.func, ast.Name) and it.func.id == "enumerate" and it.args and isinstance(tg, ast.Tuple) and len(tg.elts) == 2:
        pairs = [(tg.elts[1], it.args[0])]
    return [t_.id for t_, src_ in pairs if isinstance(t_, ast.Name) and isinstance(src_, ast.Name) and src_.id == X]


def _reads(node, X: str):
    """Name nodes that read X inside `node`, except as the base of a store target."""
    skip = set()
    for n in ast.walk(node):
        if isinstance(n, (ast.Assign, ast.AugAssign)):
            for t_ in (n.targets if isinstance(n, ast.Assign) else [n.target]):
                b_ = t_
                while isinstance(b_, ast.Subscript):
                    b_ = b_.value
                if isinstance(b_, ast.Name) and isinstance(t_, ast.Subscript):
                    skip.add(id(b_))
    return [n for n in ast.walk(node) if isinstance(n, ast.Name) and n.id == X and isinstance(n.ctx, ast.Load) and id(n) not in skip]


_SHAPE: dict = {}


def _join(a, b):
    if a is True:
        return b
    if b is True:
        return a
    if not a or not b:
        return False
    c = frozenset(a) & frozenset(b)
    return c or False


def _empty_guard(test) -> bool:
    """`len(A) == 0` (or `< 1`, `not len(A)`) where the buffer's leading dimension is that very len(A): the buffer has no element there."""
    lead = _SHAPE.get("lead")
    if lead is None:
        return False
    if isinstance(test, ast.UnaryOp) and isinstance(test.op, ast.Not):
        return ast.unparse(test.operand) == lead
    if isinstance(test, ast.Compare) and len(test.ops) == 1 and ast.unparse(test.left) == lead and isinstance(test.comparators[0], ast.Constant):
        c = test.comparators[0].value
        return (isinstance(test.ops[0], ast.Eq) and c == 0) or (isinstance(test.ops[0], ast.Lt) and c == 1) or (isinstance(test.ops[0], ast.LtE) and c == 0)
    return False


def _scan(stmts, X: str, init, argsort_names: set):
    """(state after the statements, first offending read or None, tracking stopped?)."""
    for s_ in stmts:
        if isinstance(s_, ast.Assign) and any(isinstance(t_, ast.Name) and t_.id == X for t_ in s_.targets):
            rd = _reads(s_.value, X)
            if rd and init is not True:
                return init, rd[0], True
            return True, None, True                       # re-bound: no longer the np.empty storage
        if isinstance(s_, ast.Assign) and any(isinstance(t_, ast.Subscript) and _store_root(t_) == X for t_ in s_.targets):
            t_ = [t_ for t_ in s_.targets if isinstance(t_, ast.Subscript)][0]
            sl = t_.slice
            whole = (isinstance(sl, ast.Slice) and sl.lower is None and sl.upper is None) or (isinstance(sl, ast.Constant) and sl.value is Ellipsis) \
                or (isinstance(sl, ast.Name) and sl.id in argsort_names and isinstance(t_.value, ast.Name))
            rd = _reads(s_.value, X)
            if rd and init is not True:
                return init, rd[0], False
            if whole:
                init = True
            elif init is not True and isinstance(sl, ast.Tuple) and len(sl.elts) == 2 and isinstance(sl.elts[0], ast.Slice) and sl.elts[0].lower is None \
                    and sl.elts[0].upper is None and sl.elts[0].step is None and isinstance(sl.elts[1], ast.Constant) and isinstance(sl.elts[1].value, int) \
                    and isinstance(t_.value, ast.Name) and "ncols" in _SHAPE and 0 <= sl.elts[1].value < _SHAPE["ncols"]:
                cols = (frozenset(init) if init else frozenset()) | {sl.elts[1].value}
                init = True if len(cols) == _SHAPE["ncols"] else cols
            continue
        if isinstance(s_, ast.Expr) and isinstance(s_.value, ast.Call) and isinstance(s_.value.func, ast.Attribute) and s_.value.func.attr == "fill" \
                and isinstance(s_.value.func.value, ast.Name) and s_.value.func.value.id == X:
            init = True
            continue
        if isinstance(s_, (ast.For, ast.While)):
            if init is not True:
                rd = [n for b_ in s_.body for n in _reads(b_, X)]
                if rd:
                    return init, rd[0], False
                if isinstance(s_, ast.For):
                    # rows handed out by iterating X itself (for row in X / zip(X, ..) / enumerate(X)) are views: a store through them is a store into X
                    views = _row_views(s_, X)
                    if _all_paths_store(s_.body, X) or any(_all_paths_store(s_.body, v_) for v_ in views):
                        init = True
            continue
        if isinstance(s_, ast.If):
            rd = _reads(s_.test, X)
            if rd and init is not True:
                return init, rd[0], False
            i1, b1, st1 = _scan(s_.body, X, True if _empty_guard(s_.test) else init, argsort_names)
            if b1 is not None:
                return init, b1, False
            i2, b2, st2 = _scan(s_.orelse, X, init, argsort_names)
            if b2 is not None:
                return init, b2, False
            leaves = bool(s_.body) and isinstance(s_.body[-1], (ast.Return, ast.Raise, ast.Continue, ast.Break))
            init = i2 if (leaves or _empty_guard(s_.test)) else _join(i1, i2)
            continue
        rd = _reads(s_, X)
        if rd and init is not True:
            return init, rd[0], False
    return init, None, False


def _first_uninit_read(mod, fi, creation, X: str):
    argsort_names = {t_.id for n in ast.walk(fi.node) if isinstance(n, ast.Assign) and isinstance(n.value, ast.Call)
                     and ((isinstance(n.value.func, ast.Attribute) and n.value.func.attr == "argsort")) for t_ in n.targets if isinstance(t_, ast.Name)}
    cur = creation
    init = False
    # a two-dimensional buffer np.empty((n, k)) with a literal k can be filled one whole column at a time (X[:, c] = ...)
    _SHAPE.clear()
    shp = creation.value.args[0] if creation.value.args else None
    if isinstance(shp, ast.Tuple) and len(shp.elts) == 2:
        _SHAPE["lead"] = ast.unparse(shp.elts[0])
        if isinstance(shp.elts[1], ast.Constant) and isinstance(shp.elts[1].value, int) and 1 <= shp.elts[1].value <= 8:
            _SHAPE["ncols"] = shp.elts[1].value
    elif isinstance(shp, ast.Attribute) and shp.attr == "shape" and isinstance(shp.value, ast.Name):
        # same shape as an argument: as many rows; the columns are those the function addresses column-wise anywhere (the element-wise
        # form `X[i][c] = ..` in a loop over the rows is read with the same leniency)
        _SHAPE["lead"] = f"len({shp.value.id})"
        cols = set()
        for n_ in ast.walk(fi.node):
            if isinstance(n_, ast.Subscript) and isinstance(n_.ctx, ast.Store) and isinstance(n_.value, ast.Name) and n_.value.id == X and isinstance(n_.slice, ast.Tuple) \
                    and len(n_.slice.elts) == 2 and isinstance(n_.slice.elts[1], ast.Constant) and isinstance(n_.slice.elts[1].value, int):
                cols.add(n_.slice.elts[1].value)
        if cols and cols == set(range(len(cols))):
            _SHAPE["ncols"] = len(cols)
    elif shp is not None:
        _SHAPE["lead"] = ast.unparse(shp)
    while cur is not fi.node:
        parent = mod.parent(cur)
        if parent is None:
            break
        block = None
        for fld in ("body", "orelse", "finalbody"):
            b_ = getattr(parent, fld, None)
            if isinstance(b_, list) and any(x is cur for x in b_):
                block = b_
        if block is None:
            cur = parent
            continue
        k = [i for i, x in enumerate(block) if x is cur][0]
        init, bad, stop = _scan(block[k + 1:], X, init, argsort_names)
        if bad is not None:
            return bad
        if stop or isinstance(parent, (ast.For, ast.While, ast.FunctionDef)):
            return None
        cur = parent
    return None


# numpy functions numba's nopython mode implements for floating-point / complex arrays only (they go through BLAS / LAPACK): an
# integer-typed call does not compile (TypingError at the first call with that type), so the int64 representation of a curve
# raises where the float64 one returns a value
JIT_FLOAT_ONLY = {"dot", "vdot", "matmul", "inner", "outer", "kron", "trace"}


def _jit_float_only(ctx):
    res = ctx.result
    res.rule("Y-jit", "guard only: no numba nopython function calls a numpy routine that numba implements for floating-point arrays only (np.dot, np.vdot, np.matmul / @, "
                      "np.linalg.*) on values that inherit the dtype of an argument: the int64 representation of the input would not compile")
    n = 0
    for mod in ctx.repo.package_modules():
        for fi in mod.all_functions:
            decos = [norm_text(d) for d in fi.node.decorator_list]
            if not any(d.startswith(("jit", "njit", "numba.jit", "numba.njit", "nb.jit", "nb.njit")) for d in decos):
                continue
            n += 1
            params = {a.arg for a in fi.node.args.args}
            # names whose dtype comes from an argument: the arguments and anything computed from them without a float-producing step
            floaty = set()

            def inherits(e) -> bool:
                if isinstance(e, ast.Name):
                    return e.id in params or (e.id in derived and e.id not in floaty)
                if isinstance(e, ast.BinOp):
                    if isinstance(e.op, ast.Div):
                        return False
                    return inherits(e.left) or inherits(e.right)
                if isinstance(e, ast.UnaryOp):
                    return inherits(e.operand)
                if isinstance(e, ast.Subscript):
                    return inherits(e.value)
                if isinstance(e, ast.Call):
                    f = norm_text(e.func)
                    if f.split(".")[-1] in ("sqrt", "log", "exp", "mean", "float64", "astype", "true_divide", "divide"):
                        return False
                    return any(inherits(a) for a in e.args)
                return False
            derived = set()
            for _round in range(3):
                for st in ast.walk(fi.node):
                    if isinstance(st, ast.Assign) and len(st.targets) == 1 and isinstance(st.targets[0], ast.Name):
                        if inherits(st.value):
                            derived.add(st.targets[0].id)
                        else:
                            floaty.add(st.targets[0].id)
            bad = []
            for c in ast.walk(fi.node):
                if isinstance(c, ast.Call):
                    f = norm_text(c.func)
                    parts = f.split(".")
                    if parts[0] in ("np", "numpy") and (parts[-1] in JIT_FLOAT_ONLY or (len(parts) >= 3 and parts[1] == "linalg")) and any(inherits(a) for a in c.args):
                        bad.append((c, f))
                elif isinstance(c, ast.BinOp) and isinstance(c.op, ast.MatMult) and (inherits(c.left) or inherits(c.right)):
                    bad.append((c, "@"))
            for c, f in bad:
                res.violation("Y-jit", fi.module, fi.name, c,
                              f"{f} inside a numba nopython function on a value that inherits the dtype of an argument: numba implements it for floating-point arrays only, "
                              "so integer-typed input raises a TypingError where float64 input returns a value", norm_text(c)[:100],
                              "an element-wise formulation (np.sum(np.square(..))) or an explicit float conversion", construct=f"jit float-only {f}")
            if not bad:
                res.ok("Y-jit", fi.qualname, "no float-only numpy routine applied to argument-typed values inside the nopython function")
    if n == 0:
        res.note("Y-jit: no numba-jitted function in the package")
