"""C08-V4: index-space typing of the end-to-end pipelines in demos/*.py.

Two index spaces: F (the original curve) and R (the reduced curve).  A small
flow-sensitive type system over the demo's ``main``:

    rdp.*(c: Curve[F])                      -> (Red, Removed)
    c[Red]                                  -> Curve[R]
    X.multi_knee / X.knee / kneedle.knees / zmethod.knees (c: Curve[s]) -> Idx[s]
    pp.filter_* / select_* (c: Curve[s], k: Idx[s], ...)               -> Idx[s]
    rdp.mapping(k: Idx[R], Red, Removed)    -> Idx[F]
    pp.add_points_even(c: Curve[F], Red, k: Idx[R], Removed)           -> Idx[F]
    pp.add_points_even_knees(c: Curve[s], k: Idx[s])                   -> Idx[s]
    evaluation.*(c: Curve[s], k: Idx[s], ...)                          (spaces must agree)
    c[k], c[:, j][k]                        (spaces must agree)

An index of the reduced curve used against the original curve (or the reverse)
is a different point: that is the clause "each of which is a retained
simplification point whose coordinates equal those of the reduced-space knee".
"""

from __future__ import annotations

import ast
from typing import Dict, List, Optional, Tuple

from ..linker import Linker
from ..model import Module, norm_text

SIMPLIFIERS = {"rdp.rdp", "rdp.rdp_fixed", "rdp.grdp", "rdp.mp_grdp", "rdp.min_point_rdp"}
DETECT = {f"{d}.{f}" for d in ("curvature", "dfdt", "menger", "lmethod", "kneedle") for f in ("multi_knee", "knee")} | {"kneedle.knees", "zmethod.knees", "zmethod.knees2"}
FILTERS = {"postprocessing.filter_worst_knees", "postprocessing.filter_corner_knees", "postprocessing.select_corner_knees",
           "postprocessing.filter_clusters", "postprocessing.filter_clusters_corners", "postprocessing.add_points_even_knees"}
EVAL = {"evaluation.rmspe", "evaluation.rmse", "evaluation.mse", "evaluation.mae", "evaluation.cm", "evaluation.accuracy_knee",
        "evaluation.accuracy_trace"}

T = Tuple  # type alias: ('curve', s) | ('idx', s) | ('col', s) | ('red',) | ('removed',) | ('other',) | ('conflict', a, b) | ('len', s)
OTHER = ("other",)


def show(t) -> str:
    if t[0] in ("curve", "idx", "col", "len"):
        return f"{ {'curve': 'Curve', 'idx': 'Idx', 'col': 'Column', 'len': 'Len'}[t[0]] }[{t[1]}]"
    if t[0] == "conflict":
        return f"{show(t[1])} | {show(t[2])}"
    return t[0].capitalize()


class PipelineTyper:
    def __init__(self, linker: Linker, mod: Module, func: ast.FunctionDef):
        self.lk = linker
        self.mod = mod
        self.func = func
        self.problems: List[Tuple[ast.AST, str]] = []
        self.typed_calls = 0
        self.stages: List[str] = []

    def run(self):
        env: Dict[str, T] = {}
        self.block(self.func.body, env)
        return self.problems

    # ------------------------------------------------------------------
    def block(self, stmts, env):
        for st in stmts:
            self.stmt(st, env)

    def join(self, a: Dict[str, T], b: Dict[str, T]) -> Dict[str, T]:
        out = {}
        for k in set(a) | set(b):
            ta, tb = a.get(k), b.get(k)
            if ta == tb:
                out[k] = ta
            elif ta is None or tb is None:
                out[k] = ta or tb
            elif ta == OTHER or tb == OTHER:
                out[k] = ta if tb == OTHER else tb
            else:
                out[k] = ("conflict", ta, tb)
        return out

    def stmt(self, st, env):
        if isinstance(st, ast.Assign):
            t = self.expr(st.value, env)
            for tgt in st.targets:
                self.bind(tgt, t, env)
        elif isinstance(st, ast.AugAssign):
            self.expr(st.value, env)
        elif isinstance(st, ast.Expr):
            self.expr(st.value, env)
        elif isinstance(st, ast.If):
            self.expr(st.test, env)
            a, b = dict(env), dict(env)
            self.block(st.body, a)
            self.block(st.orelse, b)
            env.clear()
            env.update(self.join(a, b))
        elif isinstance(st, (ast.For, ast.While)):
            if isinstance(st, ast.For):
                self.expr(st.iter, env)
            for _ in range(2):
                a = dict(env)
                self.block(st.body, a)
                j = self.join(env, a)
                env.clear()
                env.update(j)
        elif isinstance(st, ast.With):
            for it in st.items:
                self.expr(it.context_expr, env)
            self.block(st.body, env)
        elif isinstance(st, ast.Return) and st.value is not None:
            self.expr(st.value, env)
        elif isinstance(st, ast.Try):
            self.block(st.body, env)
            for h in st.handlers:
                self.block(h.body, env)
            self.block(st.finalbody, env)

    def bind(self, tgt, t, env):
        if isinstance(tgt, ast.Name):
            env[tgt.id] = t
        elif isinstance(tgt, (ast.Tuple, ast.List)):
            if t[0] == "pair" and len(tgt.elts) == 2:
                self.bind(tgt.elts[0], t[1], env)
                self.bind(tgt.elts[1], t[2], env)
            else:
                for e in tgt.elts:
                    self.bind(e, OTHER, env)

    def callee(self, call: ast.Call) -> Optional[str]:
        r = self.lk.resolve(self.mod, call.func)
        if r.kind == "func":
            return r.obj.qualname
        return None

    def need(self, node, got: T, want_kind: str, want_space: Optional[str], what: str):
        if got[0] == "conflict":
            self.problems.append((node, f"{what}: value has different index spaces on different paths ({show(got)})"))
            return None
        if got == OTHER:
            return None       # untyped value: nothing is claimed
        if got[0] != want_kind:
            self.problems.append((node, f"{what}: expected {want_kind}, found {show(got)}"))
            return None
        if len(got) < 2:
            return "-"
        if want_space is not None and got[1] != want_space:
            self.problems.append((node, f"{what}: expected {show((want_kind, want_space))}, found {show(got)}"))
        return got[1]

    def arg(self, call: ast.Call, i: int, name: str, env) -> Tuple[Optional[ast.AST], T]:
        if i < len(call.args):
            return call.args[i], self.expr(call.args[i], env)
        for kw in call.keywords:
            if kw.arg == name:
                return kw.value, self.expr(kw.value, env)
        return None, OTHER

    def expr(self, e, env) -> T:
        if e is None:
            return OTHER
        if isinstance(e, ast.Name):
            return env.get(e.id, OTHER)
        if isinstance(e, ast.Call):
            q = self.callee(e)
            if q in SIMPLIFIERS:
                self.typed_calls += 1
                self.stages.append("simplify")
                n, t = self.arg(e, 0, "points", env)
                if t == OTHER and isinstance(n, ast.Name):
                    env[n.id] = ("curve", "F")        # the curve handed to the simplifier defines the original space
                else:
                    self.need(n, t, "curve", "F", f"{q}(points)")
                return ("pair", ("red",), ("removed",))
            if q in DETECT:
                self.typed_calls += 1
                self.stages.append("detect")
                n, t = self.arg(e, 0, "points", env)
                s = self.need(n, t, "curve", None, f"{q}(points)")
                return ("idx", s) if s else OTHER
            if q in FILTERS:
                self.typed_calls += 1
                self.stages.append("filter")
                n0, t0 = self.arg(e, 0, "points", env)
                n1, t1 = self.arg(e, 1, "knees", env)
                s = self.need(n0, t0, "curve", None, f"{q}(points)")
                if s:
                    self.need(n1, t1, "idx", s, f"{q}(points: {show(t0)}, knees)")
                    return ("idx", s)
                return t1 if t1[0] == "idx" else OTHER
            if q == "rdp.mapping":
                self.typed_calls += 1
                self.stages.append("map")
                n0, t0 = self.arg(e, 0, "indexes", env)
                n1, t1 = self.arg(e, 1, "reduced", env)
                n2, t2 = self.arg(e, 2, "removed", env)
                self.need(n0, t0, "idx", "R", "rdp.mapping(indexes)")
                self.need(n1, t1, "red", None, "rdp.mapping(reduced)")
                self.need(n2, t2, "removed", None, "rdp.mapping(removed)")
                return ("idx", "F")
            if q == "postprocessing.add_points_even":
                self.typed_calls += 1
                self.stages.append("map")
                n0, t0 = self.arg(e, 0, "points", env)
                n1, t1 = self.arg(e, 1, "reduced", env)
                n2, t2 = self.arg(e, 2, "knees", env)
                n3, t3 = self.arg(e, 3, "removed", env)
                self.need(n0, t0, "curve", "F", "add_points_even(points)")
                self.need(n1, t1, "red", None, "add_points_even(reduced)")
                self.need(n2, t2, "idx", "R", "add_points_even(knees)")
                self.need(n3, t3, "removed", None, "add_points_even(removed)")
                return ("idx", "F")
            if q in EVAL:
                self.typed_calls += 1
                n0, t0 = self.arg(e, 0, "points", env)
                n1, t1 = self.arg(e, 1, "knees", env)
                s = self.need(n0, t0, "curve", None, f"{q}(points)")
                if s:
                    self.need(n1, t1, "idx", s, f"{q}(points: {show(t0)}, knees)")
                return OTHER
            # numpy helpers that preserve the index space
            fn = norm_text(e.func)
            if fn in ("np.unique", "np.array", "np.sort", "np.asarray", "np.concatenate") and e.args:
                ts = [self.expr(a, env) for a in (e.args[0].elts if isinstance(e.args[0], (ast.Tuple, ast.List)) else [e.args[0]])]
                idx = [t for t in ts if t[0] == "idx"]
                if idx and all(t == idx[0] for t in idx):
                    return idx[0]
                if len({t for t in idx}) > 1:
                    self.problems.append((e, f"{fn} mixes indices of different spaces: {[show(t) for t in idx]}"))
                return OTHER
            if fn == "len" and e.args:
                t = self.expr(e.args[0], env)
                if t == ("red",):
                    return ("len", "R")
                if t[0] == "curve":
                    return ("len", t[1])
                return OTHER
            if fn == "np.arange" and e.args:
                t = self.expr(e.args[-1], env)
                if t[0] == "len":
                    return ("idx", t[1])
                return OTHER
            if isinstance(e.func, ast.Attribute) and e.func.attr in ("astype", "copy", "flatten", "tolist"):
                return self.expr(e.func.value, env)
            for a in e.args:
                self.expr(a, env)
            for kw in e.keywords:
                self.expr(kw.value, env)
            return OTHER
        if isinstance(e, ast.Subscript):
            b = self.expr(e.value, env)
            sl = e.slice
            if isinstance(sl, ast.Tuple) and len(sl.elts) == 2 and isinstance(sl.elts[0], ast.Slice) and b[0] == "curve":
                return ("col", b[1])
            if isinstance(sl, ast.Slice):
                return b if b[0] in ("curve", "col") else OTHER
            i = self.expr(sl, env)
            if b[0] in ("curve", "col"):
                if i == ("red",):
                    if b[1] != "F":
                        self.problems.append((e, f"{norm_text(e)}: the retained index list indexes the original curve, found {show(b)}"))
                    return (b[0], "R")
                if i[0] == "idx":
                    if i[1] != b[1]:
                        self.problems.append((e, f"{norm_text(e)}: {show(i)} used to index {show(b)} - a position of one curve is read from the other"))
                    return OTHER
                if i[0] == "conflict":
                    self.problems.append((e, f"{norm_text(e)}: index has different spaces on different paths ({show(i)})"))
                return OTHER
            if b[0] == "idx":
                return b          # masks / sub-selections of an index array stay in its space
            return OTHER
        if isinstance(e, ast.Compare):
            self.expr(e.left, env)
            for c in e.comparators:
                self.expr(c, env)
            return OTHER
        if isinstance(e, (ast.BinOp,)):
            a, b = self.expr(e.left, env), self.expr(e.right, env)
            return OTHER
        if isinstance(e, ast.IfExp):
            a, b = self.expr(e.body, env), self.expr(e.orelse, env)
            return a if a == b else OTHER
        if isinstance(e, (ast.Tuple, ast.List)):
            for x in e.elts:
                self.expr(x, env)
            return OTHER
        if isinstance(e, ast.Attribute):
            return OTHER
        for c in ast.iter_child_nodes(e):
            if isinstance(c, ast.expr):
                self.expr(c, env)
        return OTHER
