"""C02 -- recursive multi-knee detection terminates, is well-formed and self-similar.

M1  size gate: a range is examined only if len(pt) > t2.
M2  straightness gate: recursion iff SMAPE of the endpoint line >= t1 (R2: < t1).
M3  children == {(left, k+1), (k+1, right)} with k = detector(pt) + left.
M4  exactly one knees.append(k) per accepted step, absolute index.
M5  knees.sort() on the way to the return.
M6  every function flowing into the get_knee slot returns None or an index in [0, len-2].
M7  a possibly-None detector result is tested before it is used.
M8  the call graph of each of the five multi_knee entry points resolves.
Termination: with M3 + M6 both children are strictly shorter than the parent (k+1 <= right-1
and k+1 >= left+1), so the work stack empties after at most n pops.
"""

from __future__ import annotations

import ast

from .. import AnalysisError, anf
from ..anf import Rat, sym
from ..guards import (G, TRUE, FALSE, g_and, g_not, g_or, g_equiv, g_implies, g_sat, compare, canon_sign, OPS, count_true)
from ..gvn import Frame, Obj, PW, Vec, cases_of, veq, mk_pw, Unsupported
from ..intervals import single_atom
from . import detectors as d
from . import rdp_model as rm
from .common import section, RuleCtx, _short, sign_set_name, returned_names

C = Rat.const
DETECTORS = ["curvature", "dfdt", "menger", "lmethod", "kneedle"]


def run(ctx):
    rc = RuleCtx(ctx)
    res = ctx.result
    res.level = "other"
    for k, v in {"M1": "events of a step happen only under sign(len(pt) - t2) in {+}",
                 "M2": "r == smape_points(pt, linear_fit_points(pt)) (linear_r2_points under R2); recursion iff r >= t1 (R2: r < t1)",
                 "M3": "pushes == {(left, k+1), (k+1, right)}, k = get_knee(pt) + left",
                 "M4": "exactly one knees.append(k) per accepted step", "M5": "knees.sort() before the return",
                 "M6": "each detector bound to the get_knee slot returns None or an index in [0, len-2]",
                 "M7": "the detector result is compared with None before arithmetic",
                 "M8": "names / attributes / signatures reachable from each multi_knee entry point resolve; the slot receives exactly the five knee functions"}.items():
        res.rule(k, v)
    res.rule("M9", "helpers the gate relies on keep their contract: smape_points / linear_r2_points == the metric of (y, endpoint line), "
                   "linear_fit_points == the line through the end points; detectors store no float into an array of the input's dtype")
    from .c16 import helper_contracts
    helper_contracts(rc, "M9", ("smape_points", "linear_r2_points", "linear_fit_points"))
    d.dtype_guard(rc, "M9", DETECTORS)
    section(rc, _no_recursion)
    section(rc, _driver)
    # ---- M6 ---------------------------------------------------------------------
    d.curvature(rc, "M6", None)
    d.dfdt(rc, "M6", None, None)
    d.menger(rc, "M6", None)
    d.lmethod(rc, "M6", None, None)
    d.kneedle(rc, "M6", "M8")
    section(rc, _link)
    res.analysed["termination_argument"] = ("M3 + M6: k = rv + left with rv in [0, L-2] => left child (left, k+1) has length rv+1 <= L-1 and right child (k+1, right) has "
                                            "length L-rv-1 <= L-1; both strictly shorter than the parent, so at most n pops")
    res.assumptions += ["t2 >= the detector minimum (>= 3), t1 >= 0", "dependency contracts of uts.peak_detection (checked on the installed source) and uts.gradient"]
    res.not_decided += ["that the result equals the stated union formula on concrete curves (it follows from M1-M5 by induction on the stack discipline; the facts are checked, the induction is a paper argument)",
                        "SMAPE numerics"]
    from .common import hidden_state as _hidden_state
    _hidden_state(rc, "M10", ['multi_knee.multi_knee', 'curvature.multi_knee', 'dfdt.multi_knee', 'menger.multi_knee', 'lmethod.multi_knee', 'kneedle.multi_knee', 'curvature.knee', 'dfdt.knee', 'menger.knee', 'lmethod.knee', 'kneedle.knee'], "recursive multi-knee detection")
    res.require_instances("C02 obligations", len(res.obligations), 18)


def _no_recursion(rc: RuleCtx):
    """M11: the recursive detection is driven by an explicit work stack.  A function that calls itself on the two parts has a call
    depth of up to the number of knees (one-sided splits: a smooth convex curve splits off a few points at a time), and CPython
    raises RecursionError beyond about a thousand frames - "completes for every curve" fails for long curves."""
    res = rc.res
    res.rule("M11", "no function reachable from multi_knee calls itself (directly, or as a nested def): the depth of the knee tree is bounded by the input size only, "
                    "not by the interpreter's recursion limit")
    todo, seen = [rc.func("multi_knee.multi_knee")], {}
    while todo:
        f = todo.pop()
        if f.qualname in seen:
            continue
        seen[f.qualname] = f
        for c in ast.walk(f.node):
            if isinstance(c, ast.Call):
                r = rc.lk.resolve(f.module, c.func)
                if r.kind == "func" and r.obj is not None and r.obj.module.role != "control":
                    todo.append(r.obj)
    bad = 0
    for q, f in sorted(seen.items()):
        defs = [n for n in ast.walk(f.node) if isinstance(n, ast.FunctionDef)]
        for d in defs:
            calls_self = [c for c in ast.walk(d) if isinstance(c, ast.Call) and isinstance(c.func, ast.Name) and c.func.id == d.name]
            # (a nested def that shadows nothing: the name it calls is itself)
            inner_same = [n for n in ast.walk(d) if isinstance(n, ast.FunctionDef) and n is not d and n.name == d.name]
            if calls_self and not inner_same:
                bad += 1
                res.violation("M11", f.module, f.name, calls_self[0], f"{d.name}() calls itself: the knee tree is explored by recursion, whose depth can reach the number of "
                              "detected knees (one-sided splits) - beyond the interpreter's recursion limit multi_knee raises RecursionError instead of returning",
                              ast.unparse(calls_self[0])[:100], "an explicit work stack (while stack: ... stack.append(...))", construct=f"recursion {d.name}")
    if not bad:
        res.ok("M11", "multi_knee.multi_knee", f"{len(seen)} reachable function(s), none calls itself: the recursion is an explicit work stack")


def _driver(rc: RuleCtx):
    res = rc.res
    for mname in ("smape", "r2"):
        fi = rc.func("multi_knee.multi_knee")
        ev = rc.new_eval()
        ev.no_inline |= {"linear_fit.linear_fit_points", "linear_fit.smape_points", "linear_fit.linear_r2_points"}
        # build the loop model by hand (same shape as the RDP loops)
        m = rm.build(rc, "multi_knee.multi_knee", {"cost": Obj("enum", f"Metrics.{mname}")})
        ev = m.ev
        tag = f"multi_knee.multi_knee[{mname}]"
        L = m.L
        t2, t1 = sym("t2"), sym("t1")
        gate = canon_sign(L - t2, OPS[">"])
        pushes = m.pushes
        apps = m.appends(m.retained) if m.retained else []
        calls = [e for e in m.events if e.kind == "call" and e.target == "get_knee"]
        step_events = [e for e in m.events if (e.kind == "append") or (e.kind == "call" and e.target == "get_knee")]
        if len(pushes) != 2 or len(apps) != 1 or len(calls) != 1:
            res.violation("M3", m.fi.module, m.fi.name, m.loop, f"{tag}: expected one detector call, one retained knee and two child pushes per step",
                          f"calls {len(calls)}, appends {len(apps)}, pushes {len(pushes)}", "1, 1, 2", construct="step shape")
            continue
        # M1: the size gate, either tested on the popped range or maintained as an invariant of the work stack (the whole curve is
        # only seeded when it has more than t2 points and a child is only pushed when it has)
        early = [g_ for g_, _v in m.frame_pre.returns]
        # an exit in front of the driver loop is the recursion skipped: right only for a curve the size gate rejects (at most t2
        # points: no knee at all), and the value must then be empty
        from .common import account_exits
        from ..intervals import single_atom as _sa
        exits_ok = True
        for g_, v_ in m.frame_pre.returns:
            if not g_sat(g_):
                continue
            a_ = _sa(v_) if isinstance(v_, Rat) else None
            empty_ = (isinstance(v_, Vec) and not v_.items) or (a_ is not None and a_.name in ("np.array", "np.asarray", "np.empty", "np.zeros")
                                                               and (not a_.args or a_.args[0].is_zero() or (_sa(a_.args[0]) is not None and _sa(a_.args[0]).name == "vec" and not _sa(a_.args[0]).args)))
            if not (g_implies(g_, canon_sign(sym("n") - t2, OPS["<="])) and empty_):
                exits_ok = False
                res.violation("M1", m.fi.module, m.fi.name, m.fi.node,
                              f"{tag}: a result is returned before the recursion starts under {_short(g_, 80)}, which is not 'at most t2 points: no knee'", _short(v_, 80),
                              "return an empty array only if len(points) <= t2", construct="early exit multi_knee")
        if exits_ok:
            account_exits(m.fi)
        reach = g_not(g_or(*early)) if early else TRUE
        seed_inv = bool(early) and g_implies(reach, canon_sign(sym("n") - t2, OPS[">"]))
        push_inv = all(isinstance(p.items[-1], Rat) and isinstance(p.items[-2], Rat)
                       and g_implies(p.guard, canon_sign(p.items[-1] - p.items[-2] - t2, OPS[">"])) for p in pushes)
        by_invariant = seed_inv and push_inv
        assume = gate if by_invariant else TRUE
        if by_invariant:
            res.ok("M1", tag, "every range on the work stack has more than t2 points: the whole curve is seeded only if n > t2, a child is pushed only if it has more than t2 points")
        elif all(g_implies(e.guard, gate) for e in step_events):
            res.ok("M1", tag, "detector call, retained knee and pushes all require len(pt) > t2")
        else:
            res.violation("M1", m.fi.module, m.fi.name, m.loop, "a range with at most t2 points can still be examined / split (size gate is not len(pt) > t2)",
                          _short(calls[0].guard, 200), str(gate), construct="size gate")
        # M2: under L > 2 and the gate, the call guard == gate and cost comparison
        pts = m.env_pre["points"]
        if not (isinstance(pts, Vec) and pts.kind == "point"):
            # the curve is re-bound before the recursion starts: the detectors and the gate no longer see the caller's points
            a_ = single_atom(pts) if isinstance(pts, Rat) else None
            lossy = a_ is not None and any(isinstance(x_, str) and "float32" in x_ or "float16" in str(x_) or "int" in str(x_) for x_ in ([a_.extra] if not isinstance(a_.extra, (tuple, list)) else a_.extra)) \
                or "float32" in str(pts) or "float16" in str(pts)
            if lossy:
                res.violation("M2", m.fi.module, m.fi.name, m.fi.node,
                              "the curve is converted to a narrower dtype before it is split: every detector call and every straightness test sees a rounded copy, not the caller's points",
                              _short(pts, 120), "the points argument itself", construct="points rebound")
                continue
            raise AnalysisError(f"{m.fi.qualname}: `points` is re-bound to {_short(pts, 80)} before the recursion starts - shape not recognised")
        pt = Vec([anf.opaque("slice", c, m.left, m.right, array=True) for c in pts.items], "point")
        coef = anf.opaque("call:linear_fit.linear_fit_points", ev.to_rat(pt), array=True, extra=("points",))
        callee = "linear_fit.linear_r2_points" if mname == "r2" else "linear_fit.smape_points"
        r = anf.opaque("call:" + callee, ev.to_rat(pt), coef, array=True, extra=("points", "coef"))
        big = canon_sign(L - C(2), OPS[">"])
        want = g_and(big, gate, canon_sign(r - t1, OPS["<"] if mname == "r2" else OPS[">="]))
        got = g_and(big, assume, calls[0].guard)
        if g_equiv(got, want):
            res.ok("M2", tag, f"recursion iff {'R2' if mname == 'r2' else 'SMAPE'} of the endpoint line {'<' if mname == 'r2' else '>='} t1 (on the popped range)")
        else:
            res.violation("M2", m.fi.module, m.fi.name, m.loop,
                          f"[{mname}] the straightness gate is not '{callee.split('.')[1]}(pt, linear_fit_points(pt)) {'<' if mname == 'r2' else '>='} t1'",
                          _short(got, 300), _short(want, 300), construct=f"straightness gate {mname}")
        # M3 / M4 / M7
        rv = None
        for a in (apps[0].args[0].all_atoms() if isinstance(apps[0].args[0], Rat) else []):
            if a.kind == "fn" and a.name == "slot:get_knee":
                rv = Rat.from_atom(a)
        if rv is None:
            res.violation("M4", m.fi.module, m.fi.name, apps[0].node, "the retained knee is not derived from the detector's answer", _short(apps[0].args[0]), "get_knee(pt) + left",
                          construct="retained knee")
            continue
        rv_atom = single_atom(rv)
        if not (len(rv_atom.args) == 1 and rv_atom.args[0].equals(ev.to_rat(pt))):
            res.violation("M3", m.fi.module, m.fi.name, calls[0].node, "the detector is not applied to exactly the popped range points[left:right]", _short(rv), "get_knee(points[left:right])",
                          construct="detector argument")
        k = rv + m.left
        def _same_step(p):
            if g_equiv(apps[0].guard, p.guard):
                return True
            # with the gate kept as a stack invariant a child is pushed on an accepted step iff it is large enough
            return by_invariant and g_equiv(g_and(assume, p.guard), g_and(assume, apps[0].guard, canon_sign(p.items[-1] - p.items[-2] - t2, OPS[">"])))
        if apps[0].args[0].equals(k) and _same_step(pushes[0]) and _same_step(pushes[1]):
            res.ok("M4", tag, "one knees.append(rv + left) per accepted step, under the same guard as the two pushes")
        else:
            res.violation("M4", m.fi.module, m.fi.name, apps[0].node, "the retained knee is not the absolute index rv + left recorded once per accepted step",
                          _short(apps[0].args[0]), "rv + left", construct="retained knee value")
        want_children = {(m.left.key, (k + C(1)).key), ((k + C(1)).key, m.right.key)}
        got_children = set()
        for p in pushes:
            a, b = p.items[-2], p.items[-1]
            if isinstance(a, Rat) and isinstance(b, Rat):
                got_children.add((a.key, b.key))
        if got_children == want_children:
            res.ok("M3", tag, "children (left, k+1) and (k+1, right)")
        else:
            res.violation("M3", m.fi.module, m.fi.name, pushes[0].node,
                          "the recursion does not continue on points[left..k] and points[k+1..right) (children must be (left, k+1) and (k+1, right))",
                          str([[_short(i, 50) for i in p.items] for p in pushes]), "(left, k+1), (k+1, right)", construct="children")
        # M7: None test dominates the arithmetic
        none_test = False
        gq = apps[0].guard
        items = gq.a if gq.kind == "and" else (gq,)
        for x in items:
            inner = x.a if x.kind == "not" else x
            if inner.kind == "atom" and "none" in repr(inner.a).lower() and "get_knee" in repr(inner.a):
                none_test = x.kind == "not"
        if none_test:
            res.ok("M7", tag, "`rv is not None` guards the index arithmetic")
        else:
            res.violation("M7", m.fi.module, m.fi.name, apps[0].node, "a None answer of the detector (no knee) is used in arithmetic without a test", _short(gq, 200),
                          "if rv is not None", construct="none test")
        if mname == "smape":
            # M5
            fr = Frame(ev, m.fi, 0)
            env = dict(m.env_pre)
            fr.block(m.post, env, TRUE)
            sorts = [e for e in fr.events if e.kind == "sort" and e.target == m.retained and e.guard.kind == "true" and not e.node.keywords]
            rn = returned_names(m.post)
            # ... or the returned value is sorted(knees) (ascending: no key / reverse argument)
            via_sorted = False
            if len(fr.returns) == 1 and not sorts:
                rv_ = fr.returns[0][1]
                try:
                    rr = ev.to_rat(rv_)
                    kn = ev.to_rat(env[m.retained]) if m.retained in env else None
                    for a_ in rr.all_atoms():
                        if a_.kind == "fn" and a_.name.split(".")[-1] == "sorted" and len(a_.args) == 1 and kn is not None and a_.args[0].equals(kn):
                            via_sorted = rr.equals(Rat.from_atom(a_))
                except Unsupported:
                    pass
            if via_sorted:
                from .common import account_returns
                account_returns(m.fi)           # (the returned value was read: np.array(sorted(<the retained list>)), ascending)
                res.ok("M5", "multi_knee.multi_knee", "np.array(sorted(knees)) is returned")
            elif sorts and len(fr.returns) == 1 and rn is not None and m.retained in rn:
                res.ok("M5", "multi_knee.multi_knee", "knees.sort() before np.array(knees) is returned")
            else:
                res.violation("M5", m.fi.module, m.fi.name, m.fi.node, "the knees are not sorted ascending before being returned", str([ast.unparse(s) for s in m.post]),
                              "knees.sort(); return np.array(knees)", construct="sort before return")
            seed = m.env_pre.get(m.stack)
            if isinstance(seed, Vec) and len(seed.items) == 1 and isinstance(seed.items[0], Vec) and seed.items[0].items[0].is_zero() \
                    and seed.items[0].items[1].equals(sym("n")):
                res.ok("M3", "multi_knee.multi_knee:seed", "work stack seeded with the whole curve (0, n)")
            else:
                res.violation("M3", m.fi.module, m.fi.name, m.fi.node, "the recursion does not start from the whole curve (0, len(points))", str(seed), "[(0, n)]", construct="seed")


def _link(rc: RuleCtx):
    res = rc.res
    lk = rc.lk
    want = {f"{dname}.knee" for dname in DETECTORS}
    got = lk.flows.get(("multi_knee.multi_knee", "get_knee"), set())
    pkg_got = {q for q in got if q.split(".")[0] in DETECTORS}
    if pkg_got == want:
        res.ok("M8", "multi_knee.multi_knee(get_knee)", f"slot receives exactly {sorted(want)}")
    else:
        fi = rc.func("multi_knee.multi_knee")
        # a module that hands the slot a local callable (a nested function, a lambda, a functools.partial) is not a module that
        # forgot its detector: what that callable computes is simply not read here
        for q in sorted(want - pkg_got):
            dmod = rc.repo.mod(q.split(".")[0])
            for call in [n for n in ast.walk(dmod.tree) if isinstance(n, ast.Call)]:
                try:
                    r_ = lk.resolve(dmod, call.func)
                except Exception:
                    continue
                if r_.kind != "func" or r_.obj.qualname != "multi_knee.multi_knee":
                    continue
                arg = call.args[0] if call.args and not isinstance(call.args[0], ast.Starred) else next((k.value for k in call.keywords if k.arg == "get_knee"), None)
                if arg is not None and not lk._func_values_of_expr(dmod, arg):
                    raise AnalysisError(f"{dmod.short}: the get_knee slot of multi_knee is bound to `{ast.unparse(arg)[:60]}`, a local callable the linker does not resolve "
                                        "to a package function - shape not recognised")
        res.violation("M8", fi.module, fi.name, fi.node, "the five detector modules do not all bind their `knee` function to the get_knee slot", str(sorted(pkg_got)), str(sorted(want)),
                      construct="get_knee slot")
    # arity of each binding and resolution of each entry point's module
    for dname in DETECTORS:
        mod = rc.repo.mod(dname)
        errs = []

        def on_error(rule, fname, node, msg, extracted="", expected="", construct=None):
            errs.append((fname, node, msg))
        lk.check_module(mod, on_error, lambda *a, **k: None)
        fi = rc.func(f"{dname}.knee")
        msg = fi.signature.check_call(1, [])
        if msg:
            errs.append((fi.name, fi.node, f"TypeError: {dname}.knee() called as get_knee(pt): {msg}"))
        if errs:
            for fname, node, msg in errs:
                res.violation("M8", mod, fname, node, f"multi-knee detection through {dname} cannot run: {msg}", ast.unparse(node)[:80] if hasattr(node, "lineno") else "",
                              "a resolvable name / attribute / signature")
        else:
            res.ok("M8", dname, "module resolves; knee(points) accepts one positional argument")
