"""Shared abstraction of the three RDP work-stack loops (rdp.rdp, rdp._rdp_fixed,
rdp._grdp): one iteration as a transfer function, with pops, pushes, retained
indices, the split index and its interval."""

from __future__ import annotations

import ast
from dataclasses import dataclass, field
from fractions import Fraction
from typing import Any, Dict, List, Optional, Tuple

from .. import AnalysisError, anf
from ..anf import Rat, sym
from ..guards import (G, TRUE, FALSE, g_and, g_not, g_or, g_equiv, g_implies, g_sat, compare, canon_sign, OPS, count_true)
from ..gvn import Evaluator, Frame, Obj, PW, Vec, cases_of, veq, mk_pw, Unsupported, vkey, Event
from ..intervals import K, single_atom, split_const, linear_in, prove_nonneg
from .common import RuleCtx, _short, locate_loop, stored_names

C = Rat.const
DIST_SLOT = "slot:distance_points"
ORDER_FUNCS = ("rdp.order_triangle", "rdp.order_area", "rdp.order_segment")


@dataclass
class Push:
    guard: G
    items: Tuple[Any, ...]
    node: ast.AST
    order: int


@dataclass
class LoopModel:
    qual: str
    fi: Any
    loop: ast.While
    ev: Evaluator
    env_pre: Dict[str, Any]
    env_post: Dict[str, Any]
    left: Rat
    right: Rat
    events: List[Event]
    pushes: List[Push]
    index: Any
    stack: str
    out: Any
    pre: list
    post: list
    frame_pre: Frame
    retained: Optional[str] = None       # the list that receives the retained indices
    removed: Optional[str] = None        # the list that receives the removed-table rows (threshold RDP only)
    index_name: Optional[str] = None

    @property
    def L(self) -> Rat:
        return self.right.sub(self.left)

    def appends(self, name: str) -> List[Event]:
        return [e for e in self.events if e.kind == "append" and e.target == name]

    def length_of(self, v) -> Rat:
        return self.ev.length_of(v)


def install_shape_rules(ev: Evaluator):
    """Output length of the distance callees == length of their first argument (checked separately by
    the shape rule C01-R5 on the bodies of both distance functions)."""
    ev.shape_table[DIST_SLOT] = 0
    ev.shape_table["call:linear_fit.shortest_distance_points"] = 0
    ev.shape_table["call:linear_fit.perpendicular_distance_points"] = 0


BUDGET_NODES: Dict[int, set] = {}       # id(function node) -> ids of the original nodes that spell the budget of a bounded `for`


def _budget_for_as_while(fi, loop: ast.For) -> ast.While:
    """`for _ in range(B): if not S: break; BODY`  is  `while B > 0 and S: BODY; B -= 1`  when the loop variable is
    not used, B is a parameter that nothing else assigns and the emptiness test is the first statement.  The work-stack
    rules are stated for the second form; the first is rewritten into it (synthetic nodes, original positions)."""
    from ..model import keep
    it = loop.iter
    ok = (isinstance(loop.target, ast.Name) and isinstance(it, ast.Call) and isinstance(it.func, ast.Name) and it.func.id == "range"
          and len(it.args) == 1 and not it.keywords and not loop.orelse and loop.body)
    barg = it.args[0] if ok else None
    if ok and isinstance(barg, ast.Call) and isinstance(barg.func, ast.Name) and barg.func.id == "max" and len(barg.args) == 2 and not barg.keywords:
        # range(max(B, 0)) is range(B): a negative budget runs no iteration either way
        others = [a_ for a_ in barg.args if not (isinstance(a_, ast.Constant) and a_.value == 0)]
        if len(others) == 1:
            barg = others[0]
    ok = ok and isinstance(barg, ast.Name)
    if ok:
        B = barg.id
        params = fi.signature.positional + fi.signature.kwonly
        uses_var = any(isinstance(n, ast.Name) and n.id == loop.target.id and isinstance(n.ctx, ast.Load) for st in loop.body for n in ast.walk(st))
        assigned = any(isinstance(n, ast.Name) and n.id == B and isinstance(n.ctx, ast.Store) for n in ast.walk(fi.node))
        first = loop.body[0]
        S = None
        if isinstance(first, ast.If) and not first.orelse and len(first.body) == 1 and isinstance(first.body[0], ast.Break):
            t_ = first.test
            if isinstance(t_, ast.UnaryOp) and isinstance(t_.op, ast.Not) and isinstance(t_.operand, ast.Name):
                S = t_.operand.id
            elif isinstance(t_, ast.Compare) and len(t_.ops) == 1 and isinstance(t_.ops[0], ast.Eq) and ast.unparse(t_.comparators[0]) == "0" \
                    and isinstance(t_.left, ast.Call) and ast.unparse(t_.left.func) == "len" and isinstance(t_.left.args[0], ast.Name):
                S = t_.left.args[0].id
        ok = B in params and not uses_var and not assigned and S is not None
    if not ok:
        raise AnalysisError(f"{fi.qualname}: the work-stack loop is neither `while ... and <stack>` nor `for _ in range(<budget>): if not <stack>: break` - shape not recognised")
    src = f"while {B} > 0 and {S}:\n    pass\n    {B} -= 1\n"
    w = ast.parse(src).body[0]
    w.body = list(loop.body[1:]) + [w.body[1]]
    for sub in [w, w.test] + list(ast.walk(w.test)) + [w.body[-1]] + list(ast.walk(w.body[-1])):
        ast.copy_location(sub, loop)
        fi.module.node_scope[id(sub)] = fi.scope
    ast.fix_missing_locations(w)
    keep(w)
    BUDGET_NODES.setdefault(id(fi.node), set()).update(id(n) for n in ast.walk(it))
    from . import common as _common
    _common.NORMAL_LOOPS[fi.qualname] = w          # (the emptiness break is the second conjunct of this loop's test: the loop-exit audit reads this form)
    return w


def build(rc: RuleCtx, qual: str, bind: Optional[Dict[str, Any]] = None, allow_break: bool = False) -> LoopModel:
    fi = rc.func(qual)
    ev = rc.new_eval()
    install_shape_rules(ev)
    ev.no_inline |= set(ORDER_FUNCS) | {"rdp.compute_cost_coef", "linear_fit.linear_fit_points", "linear_fit.smape_points",
                                        "linear_fit.linear_r2_points"}
    pts = ev.point("points", True)
    ev.len_map = {"points": sym("n")}
    env: Dict[str, Any] = {"points": pts}
    for p in fi.signature.positional:
        if p == "points":
            continue
        if bind and p in bind:
            env[p] = bind[p]
        elif p in ("stack", "reduced"):
            env[p] = ev.symbol(p + "@list")
        else:
            env[p] = ev.symbol(p)
    try:
        pre, loop, post, conds = locate_loop(fi, kind=(ast.While,))
    except AnalysisError:
        pre, loop, post, conds = locate_loop(fi, kind=(ast.For,))
        loop = _budget_for_as_while(fi, loop)
    fr = Frame(ev, fi, 0)
    try:
        fr.block(pre, env, TRUE)
    except Unsupported as e:
        raise AnalysisError(f"{qual}: pre-loop code not modelled: {e}")
    # the work stack: the container tested by the loop and popped in the body
    pops = [n for n in ast.walk(ast.Module(body=loop.body, type_ignores=[])) if isinstance(n, ast.Call)
            and isinstance(n.func, ast.Attribute) and n.func.attr == "pop" and isinstance(n.func.value, ast.Name)]
    if len(pops) != 1:
        raise AnalysisError(f"{qual}: expected exactly one pop in the loop body, found {len(pops)}")
    stack = pops[0].func.value.id
    if stack not in {n.id for n in ast.walk(loop.test) if isinstance(n, ast.Name)}:
        raise AnalysisError(f"{qual}: the popped container is not the one tested by the loop")
    benv = dict(env)
    carried = [n for n in stored_names(ast.Module(body=loop.body, type_ignores=[])) if n in env]
    for nme in carried:
        if not (isinstance(env[nme], Rat) and env[nme].symbols() and nme + "@list" in env[nme].symbols()):
            benv[nme] = ev.symbol(nme)
    for nme, v in list(benv.items()):
        if isinstance(v, Vec) and v.kind == "list":
            benv[nme] = ev.symbol(nme + "@list")
    try:
        ev.fresh = 0                      # fresh names inside one step are numbered from the same origin in every model (they are compared across models)
        out = ev.eval_loop_body(fi, loop, benv)
    except Unsupported as e:
        raise AnalysisError(f"{qual}: loop body not modelled: {e}")
    # `continue` only skips the rest of one step (the evaluator gates what follows it); leaving the loop early is another algorithm
    if out.returns or (out.breaks and not allow_break):
        raise AnalysisError(f"{qual}: break/return inside the work-stack loop")
    left, right = out.env.get("left"), out.env.get("right")
    # the popped range: the two names unpacked from the pop that bound the slice points[left:right]
    pop_st = None
    for st in loop.body:
        if isinstance(st, ast.Assign) and st.value is pops[0]:
            pop_st = st
    if pop_st is None or not isinstance(pop_st.targets[0], ast.Tuple):
        raise AnalysisError(f"{qual}: the pop is not unpacked into a tuple")
    tnames = [e.id for e in pop_st.targets[0].elts if isinstance(e, ast.Name)]
    lname, rname = tnames[-2], tnames[-1]
    left, right = out.env.get(lname), out.env.get(rname)
    if not (isinstance(left, Rat) and isinstance(right, Rat)):
        raise AnalysisError(f"{qual}: popped bounds are not simple values")
    # the popped bounds are integers when they are used, unconditionally, as slice bounds
    for st in loop.body:
        for sub in ast.walk(st) if isinstance(st, (ast.Assign, ast.Expr)) else ():
            if isinstance(sub, ast.Subscript) and isinstance(sub.slice, ast.Slice) and isinstance(sub.slice.lower, ast.Name) \
                    and isinstance(sub.slice.upper, ast.Name) and (sub.slice.lower.id, sub.slice.upper.id) == (lname, rname):
                anf.declare_integer(left)
                anf.declare_integer(right)
    pushes = []
    k = 0
    for e in out.events:
        if e.kind == "append" and e.target == stack:
            k += 1
            v = e.args[0]
            if not isinstance(v, Vec):
                raise AnalysisError(f"{qual}: a non-tuple value is pushed on the work stack")
            pushes.append(Push(e.guard, v.items, e.node, k))
        elif e.kind == "extend" and e.target == stack:
            # stack.extend((a, b)) pushes a then b
            v = e.args[0]
            if not (isinstance(v, Vec) and all(isinstance(x, Vec) for x in v.items)):
                raise AnalysisError(f"{qual}: stack.extend with a value that is not a display of tuples")
            for x in v.items:
                k += 1
                pushes.append(Push(e.guard, x.items, e.node, k))
    # roles are discovered from what the code does, never from variable names
    for e in out.events:
        if e.kind == "call" and isinstance(e.node, ast.Call) and isinstance(e.node.func, ast.Name) and len(e.args) == 3:
            ev.shape_table["slot:" + e.node.func.id] = 0       # a distance slot: one value per row of its first argument
    index_name, index = _find_index(out.env, env)
    retained = removed = None
    for e in out.events:
        if e.kind == "append" and e.target != stack:
            v = e.args[0]
            if isinstance(v, Vec) and len(v.items) == 2 and removed is None:
                removed = e.target
            elif not isinstance(v, Vec) and retained is None:
                retained = e.target
    return LoopModel(qual, fi, loop, ev, env, out.env, left, right, out.events, pushes, index, stack, out, pre, post, fr,
                     retained=retained, removed=removed, index_name=index_name)


def _index_like(v: Rat) -> bool:
    return _position_atom(v) is not None


def _find_index(env_post, env_pre):
    """The split index: the variable assigned in the body whose value is (a constant plus) an argmax / argmin /
    int(...) in at least one case; ties are broken in favour of the one with most such cases."""
    best = (None, None, (0, 0))
    for name, v in env_post.items():
        if name in env_pre and vkey(env_pre[name]) == vkey(v):
            continue
        n = sum(1 for _g, x in cases_of(v) if isinstance(x, Rat) and _index_like(x))
        others = sum(1 for _g, x in cases_of(v) if isinstance(x, Rat) and not _index_like(x))
        # `split = left + index` is index-like as well: the index proper is the one that is a bare position (+ constant)
        bare = sum(1 for _g, x in cases_of(v) if isinstance(x, Rat) and _index_like(x) and _position_atom(x)[2].is_const() is not None)
        if n and not others and (n, bare) > best[2]:
            best = (name, v, (n, bare))
    return best[0], best[1]


# --------------------------------------------------------------------------
# split-index interval
# --------------------------------------------------------------------------

@dataclass
class Interval:
    lo: Rat
    hi: Rat
    why: str
    needs_L3: bool = False
    atom: Any = None          # the position-valued atom of the index (argmax / argmin / searchsorted / int)
    a_lo: Optional[Rat] = None
    a_hi: Optional[Rat] = None


def index_cases(m: LoopModel) -> List[Tuple[G, Rat]]:
    out = []
    for g, v in cases_of(m.index):
        if isinstance(v, Obj) and v.tag == "undefined":
            continue
        if not isinstance(v, Rat):
            raise AnalysisError(f"{m.qual}: split index is not numeric: {v!r}")
        out.append((g, v))
    return out


from ..intervals import position_atom as _position_atom  # noqa: E402
position_atom_ = _position_atom


def scanned_positions(m: LoopModel, idx: Rat):
    from ..intervals import scanned_positions as _sp
    return _sp(idx, m.length_of)


def interval_of(m: LoopModel, idx: Rat) -> Optional[Interval]:
    """Interval of one case of the split index, relative to the segment length L = right - left.  The index is
    rest + (position) or rest - (position) - the second form is how a scan over a reversed view is mapped back."""
    pa = _position_atom(idx)
    if pa is None:
        return None
    a, s, rest = pa
    L = m.L

    def mk(a_lo: Rat, a_hi: Rat, why: str, needs_L3: bool = False) -> Interval:
        lo, hi = (rest.add(a_lo), rest.add(a_hi)) if s > 0 else (rest.sub(a_hi), rest.sub(a_lo))
        return Interval(lo, hi, why + (f" + {rest}" if s > 0 else f", mapped back as {rest} - position"), needs_L3, a, a_lo, a_hi)
    if a.name in ("argmax", "argmin"):
        X = a.args[0]
        xa = single_atom(X)
        if xa is not None and xa.kind == "fn" and xa.name == "slice":
            base, lo, hi = xa.args
            Lb = m.length_of(base)
            if not Lb.equals(L):
                return None
            lo_v = C(0) if lo.symbols() == {"None"} else lo
            if hi.symbols() == {"None"}:
                hi_v = Lb
            else:
                hc = hi.is_const()
                hi_v = Lb.add(hi) if (hc is not None and hc < 0) else hi
            n = hi_v.sub(lo_v)
            return mk(C(0), n.sub(C(1)), f"{a.name} over d[{lo_v}:{hi_v}] (length {n})")
        if xa is not None and xa.kind == "fn" and xa.name == "rslice":
            from ..gvn import rslice_bounds
            Lb = m.length_of(xa.args[0])
            if not Lb.equals(L):
                return None
            first, stop = rslice_bounds(xa, Lb)
            n = first.sub(stop)
            return mk(C(0), n.sub(C(1)), f"{a.name} over the reversed view d[{first}], .., d[{stop.add(C(1))}] (length {n})")
        Lx = m.length_of(X)
        if not Lx.equals(L):
            return None
        return mk(C(0), Lx.sub(C(1)), f"{a.name} over the whole distance vector (length L)")
    if a.name.endswith("searchsorted") and a.args:
        # dependency contract: an insertion position of a sorted array a is any of 0 .. len(a) (both ends included)
        La = m.length_of(a.args[0])
        return mk(C(0), La, f"np.searchsorted returns an insertion position in [0, len] = [0, {La}]")
    if a.name in ("max", "min"):
        from ..intervals import _clamped_position
        cp = _clamped_position(a)
        if cp is not None:
            c_, inner = cp
            iv_in = interval_of(m, inner)
            if iv_in is not None:
                lo_c, hi_c = iv_in.lo.is_const(), iv_in.hi.is_const()
                if a.name == "max":
                    # max(c, e): never below c; the upper end is e's (segments have L >= 3 >= c points for the small constants used)
                    new_lo = C(max(c_.is_const(), lo_c)) if lo_c is not None else iv_in.lo
                    return mk(new_lo, iv_in.hi, f"max({c_}, position in [{iv_in.lo}, {_short_v(iv_in.hi)}])")
                new_hi = C(min(c_.is_const(), hi_c)) if hi_c is not None else None
                if new_hi is not None:
                    return mk(iv_in.lo, new_hi, f"min({c_}, position in [{iv_in.lo}, {iv_in.hi}])")
        return None
    if a.name in ("int", "floor") and len(a.args) == 1:
        inner_iv = interval_of(m, a.args[0]) if position_atom_(a.args[0]) is not None else None
        if inner_iv is not None:
            return mk(inner_iv.lo, inner_iv.hi, f"int({inner_iv.why})")
    if a.name in ("int", "floor"):
        inner = a.args[0]
        if inner.mul(C(2)).equals(L) and s > 0 and rest.is_zero():
            return mk(C(1), L.sub(C(2)), "int(L/2) (or L//2) with integer L >= 3 lies in [1, L-2]", needs_L3=True)
    return None


def subst_L(m: LoopModel, lmin: int) -> Dict[str, Rat]:
    """right := left + lmin + k   (k >= 0): the length fact L >= lmin."""
    ra = single_atom(m.right)
    if ra is None:
        raise AnalysisError(f"{m.qual}: popped right bound is not atomic")
    return {"__right__": None}, ra


def with_length_fact(m: LoopModel, expr: Rat, lmin: int) -> Rat:
    """Rewrite `expr` with right = left + lmin + k, k >= 0."""
    ra = single_atom(m.right)
    if ra is None:
        raise AnalysisError(f"{m.qual}: popped right bound is not atomic")
    probe = "right!"
    # replace the atom `right` by a symbol, then substitute
    e = _replace_atom(expr, ra, sym(probe))
    return e.subst({probe: m.left.add(C(lmin)).add(sym(K))})


def _replace_atom(expr: Rat, a, by: Rat) -> Rat:
    def sub_poly(p):
        acc = C(0)
        for mono, c in p.items():
            term = C(c)
            for at, e in mono:
                term = term.mul(sub_atom(at).pow(e))
            acc = acc.add(term)
        return acc

    def sub_atom(at):
        if at.skey == a.skey:
            return by
        if at.kind == "sym":
            return Rat.from_atom(at)
        return anf.apply_fn(at.name, tuple(_replace_atom(x, a, by) for x in at.args), at.array, at.extra)
    return sub_poly(expr.num).div(sub_poly(expr.den))


def range_obligations(m: LoopModel, A: Rat, B: Rat, idx: Rat, iv: Interval, lmin: int) -> List[Tuple[str, bool, str]]:
    """(A, B) must be a strict, non-empty sub-range of (left, right): A >= left, B <= right, 1 <= B - A <= L - 1
    (integers).  Each obligation is linear in the index atom; the worst end of the interval is plugged in."""
    L = m.L
    obs = [("A >= left", A.sub(m.left)), ("B <= right", m.right.sub(B)), ("B - A >= 2 (has room for both end points)", B.sub(A).sub(C(2))),
           ("B - A <= L - 1 (strictly shorter)", L.sub(C(1)).sub(B.sub(A)))]
    atom = iv.atom
    out = []
    for name, expr in obs:
        ok = False
        why = ""
        lin = linear_in(expr, atom) if atom is not None else None
        if lin is None or lin[0] == 0:
            # the index may cancel out entirely
            e = with_length_fact(m, expr, lmin)
            ok = e.is_nonneg()
            why = f"{expr} >= 0 under L >= {lmin}: {'proved' if ok else 'not proved'}"
        else:
            coef, rest_e = lin
            # expr = coef * position + rest, position in [a_lo, a_hi]: plug in the worst end
            worst = iv.a_lo if coef >= 0 else iv.a_hi
            val = rest_e.add(worst.mul(C(coef)))
            e = with_length_fact(m, val, lmin)
            ok = e.is_nonneg()
            why = f"{name}: worst case at position {'lower' if coef >= 0 else 'upper'} bound gives {val} >= 0 under L >= {lmin}: {'proved' if ok else 'NOT proved'}"
        out.append((name, ok, why))
    return out


# --------------------------------------------------------------------------
# the `distance` option selects the homonymous distance primitive
# --------------------------------------------------------------------------

def _funcs_in(v, acc: set):
    if isinstance(v, Obj) and v.tag == "func":
        acc.add(v.val)
    elif isinstance(v, Vec):
        for i_ in v.items:
            _funcs_in(i_, acc)
    elif isinstance(v, PW):
        for _g, c_ in v.cases:
            _funcs_in(c_, acc)


def check_distance_dispatch(rc, rule: str, qual: str):
    """For every member m of rdp.Distance the function value that reaches the split loop (a local slot or the
    argument of the loop helper) is exactly linear_fit.<m>_distance_points."""
    res = rc.res
    fi = rc.func(qual)
    members = rc.repo.mod("rdp").classes["Distance"].enum_members
    family = {f.qualname for f in rc.repo.mod("linear_fit").all_functions if f.name.endswith("_distance_points")}
    for m_ in members:
        want = f"linear_fit.{m_}_distance_points"
        if want not in family:
            raise AnalysisError(f"Distance.{m_} has no linear_fit.{m_}_distance_points primitive - naming convention not recognised")
        ev = rc.new_eval()
        pts = ev.point("points", True)
        ev.len_map = {"points": sym("n")}
        try:
            out = ev.eval_function(fi, {"points": pts, "distance": Obj("enum", f"Distance.{m_}")})
        except Unsupported as e:
            raise AnalysisError(f"{qual}: not modelled for the distance dispatch: {e}")
        acc: set = set()
        for v in out.env.values():
            _funcs_in(v, acc)
        for e in out.events:
            for a in e.args:
                _funcs_in(a, acc)
        got = acc & family
        if not got:
            raise AnalysisError(f"{qual}: no distance primitive reaches the split loop for Distance.{m_} - shape not recognised")
        if got == {want}:
            res.ok(rule, f"{qual}[Distance.{m_}]", f"splits are chosen with {want}")
        else:
            res.violation(rule, fi.module, fi.name, fi.node,
                          f"with distance=Distance.{m_} the split point is chosen with {sorted(got)} instead of {want}: the retained points are not the farthest ones under the selected distance",
                          str(sorted(got)), want, construct=f"distance dispatch {m_}")


# --------------------------------------------------------------------------
# (reduced, removed) pairs returned by the simplifiers belong together
# --------------------------------------------------------------------------

SIMPLIFIERS = ("rdp.rdp_fixed", "rdp.grdp", "rdp.mp_grdp", "rdp.min_point_rdp")


def check_result_pairing(rc, rule: str, quals=SIMPLIFIERS):
    """Every (reduced, removed) pair a simplifier returns is either another simplifier's own pair, or `removed` is
    compute_removed_points(points, <that very reduced>).  A table computed for another reduction (a stale one kept across
    a fallback) makes mapping() answer for the wrong index set."""
    res = rc.res
    simp_calls = tuple("call:" + q for q in SIMPLIFIERS + ("rdp.rdp",))
    for q in quals:
        fi = rc.func(q)
        ev = rc.new_eval()
        ev.no_inline |= {"rdp.compute_removed_points", "rdp.grdp", "rdp.rdp_fixed", "rdp.mp_grdp", "rdp._grdp", "rdp._rdp_fixed", "rdp.rdp"}
        pts = ev.point("points", True)
        ev.len_map = {"points": sym("n")}
        try:
            out = ev.eval_function(fi, {"points": pts})
        except Unsupported as e:
            raise AnalysisError(f"{q}: not modelled for the result pairing: {e}")
        if not out.returns:
            raise AnalysisError(f"{q}: no return value found")
        ok = True
        for g, v in out.returns:
            if not g_sat(g):
                continue
            for gc, vc in cases_of(v):
                if not g_sat(g_and(g, gc)):
                    continue
                good = False
                if isinstance(vc, Rat):
                    a = single_atom(vc)
                    good = a is not None and a.name in simp_calls and vc.equals(Rat.from_atom(a))
                elif isinstance(vc, Vec) and len(vc.items) == 2:
                    good = True
                    for gr, R in cases_of(vc.items[0]):
                        for gm, M in cases_of(vc.items[1]):
                            if not g_sat(g_and(g, gc, gr, gm)):
                                continue
                            pair_ok = False
                            if isinstance(R, Rat) and isinstance(M, Rat):
                                ma, ra = single_atom(M), single_atom(R)
                                if ma is not None and ma.name == "call:rdp.compute_removed_points" and len(ma.args) == 2 and ma.args[1].equals(R):
                                    pair_ok = True
                                elif ma is not None and ra is not None and ma.name == "item" and ra.name == "item" and ma.args[0].equals(ra.args[0]) \
                                        and ra.args[1].is_zero() and ma.args[1].is_const() == 1:
                                    ca = single_atom(ra.args[0])
                                    pair_ok = ca is not None and ca.name in simp_calls
                            if not pair_ok:
                                good = False
                                res.violation(rule, fi.module, fi.name, fi.node,
                                              f"{q} can return a removed-points table that was not computed for the reduction it returns (stale or foreign table): "
                                              "mapping() with this pair does not give reduced[I]", f"reduced = {_short_v(R)}; removed = {_short_v(M)}",
                                              "removed == compute_removed_points(points, reduced) for the returned reduced", construct=f"result pairing {q}")
                if not good:
                    ok = False
                    if not (isinstance(vc, Vec) and len(vc.items) == 2):
                        raise AnalysisError(f"{q}: returned value {_short_v(vc)} is not a (reduced, removed) pair - shape not recognised")
        if ok:
            res.ok(rule, q, "every returned (reduced, removed) pair belongs together")


def _short_v(v, n: int = 140) -> str:
    t = str(v)
    return t if len(t) <= n else t[:n] + "..."


def sort_key_field(fi, node, depth: int = 0):
    """The tuple field a `key=` argument sorts on: `lambda t: t[k]`, `operator.itemgetter(k)`, a local `def f(t): return t[k]`
    or a name bound once to one of these (hoisted out of the loop).  ("field", k) | None when it is something else."""
    if isinstance(node, ast.Lambda) and len(node.args.args) == 1 and isinstance(node.body, ast.Subscript) and isinstance(node.body.value, ast.Name) \
            and node.body.value.id == node.args.args[0].arg and isinstance(node.body.slice, ast.Constant) and isinstance(node.body.slice.value, int):
        return ("field", node.body.slice.value)
    if isinstance(node, ast.Call) and not node.keywords and len(node.args) == 1 and isinstance(node.args[0], ast.Constant) and isinstance(node.args[0].value, int) \
            and ast.unparse(node.func) in ("operator.itemgetter", "itemgetter"):
        return ("field", node.args[0].value)
    if isinstance(node, ast.Name) and depth < 3:
        defs = []
        for n in ast.walk(fi.module.tree):
            if isinstance(n, ast.Assign) and len(n.targets) == 1 and isinstance(n.targets[0], ast.Name) and n.targets[0].id == node.id:
                defs.append(n.value)
            elif isinstance(n, ast.FunctionDef) and n.name == node.id and len(n.args.args) == 1 and len(n.body) >= 1 and isinstance(n.body[-1], ast.Return) \
                    and all(isinstance(b_, ast.Expr) and isinstance(b_.value, ast.Constant) for b_ in n.body[:-1]):
                r = n.body[-1].value
                if isinstance(r, ast.Subscript) and isinstance(r.value, ast.Name) and r.value.id == n.args.args[0].arg and isinstance(r.slice, ast.Constant):
                    defs.append(ast.Lambda(args=n.args, body=r))
        inside = [d for d in defs if any(d is x for x in ast.walk(fi.node))] or defs
        if len(inside) == 1:
            return sort_key_field(fi, inside[0], depth + 1)
    return None


def threshold_profile(rc, m: LoopModel, rule_range: str, rule_complete: str):
    """The threshold-RDP rules read the original formulation of rdp.rdp: both children are pushed back whatever their size and a
    range of at most two points is accepted when it is popped.  A loop that instead pushes a child only if it has an interior
    point (the formulation of the fixed-size / global loops) and assembles its result afterwards is another, equally valid
    algorithm text: of it only the facts stated for that formulation are decided - children are strict sub-ranges with an
    interior point, and *every* such child is pushed - and the rest is reported as not read (exit 2), never as a violation."""
    pushes_guarded = bool(m.pushes) and all(
        isinstance(p.items[-1], Rat) and isinstance(p.items[-2], Rat) and g_implies(p.guard, canon_sign(p.items[-1].sub(p.items[-2]).sub(C(2)), OPS[">"]))
        for p in m.pushes)
    if not pushes_guarded:
        return
    res = rc.res
    from . import c01 as _c01, c05 as _c05
    sf = len(res.findings)
    _c01._r1(rc, m, f"{m.qual}[guarded pushes]")
    _c01._r1b_push_guards(rc, m, f"{m.qual}[guarded pushes]")
    _c05._x10(rc, m, f"{m.qual}[guarded pushes]")
    for f in res.findings[sf:]:
        f.rule = rule_complete if f.rule == "X10" else rule_range
    for o in res.obligations:
        if o.rule in ("X10", "R1", "R1b") and m.qual in (o.where if hasattr(o, "where") else "") and False:
            pass
    raise AnalysisError(f"{m.qual}: the loop pushes a child only when it has an interior point and assembles its result after the loop - this formulation of "
                        "threshold RDP is read only for the strict-sub-range and every-child-is-pushed facts; the remaining rules are not decided")
