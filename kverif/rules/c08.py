"""C08 -- the end-to-end pipeline yields valid, ordered knees of the original curve.

V1  provenance: every filter stage (worst-knee, corner filter / selector, cluster filter,
    cluster-corner filter) emits only elements of its knees argument, at most one per input
    position / cluster, in increasing position order  => every stage returns a subsequence.
V2  the worst-knee filter keeps h {<=,<} h_min: from that stage on heights are non-increasing
    (a subsequence of a non-increasing sequence is non-increasing).
V3  everything reachable from filter_clusters in hull mode (the demos' default) links.
V4  index-space typing of the pipelines in demos/*.py: knees found on the reduced curve are
    filtered against the reduced curve and mapped (rdp.mapping / add_points_even) before they
    are used against the original curve.
"""

from __future__ import annotations

import ast

from .. import AnalysisError, anf
from ..anf import Rat, sym
from ..guards import (G, TRUE, FALSE, g_and, g_not, g_or, g_equiv, g_implies, g_sat, canon_sign, OPS)
from ..gvn import cases_of
from . import c12, c13
from .common import RuleCtx, _short
from .pipeline_types import PipelineTyper

TYPED_DEMOS = ["curvature", "dfdt", "fusion", "kneedle_rec", "lmethod", "menger", "zmethod"]
NOTED_DEMOS = {"kneedle": "calls kneedle.auto_knees, which the library does not define",
               "kneedle_classic": "has no reduction stage and passes a stale argument list to kneedle.knees"}


def _rename(res, start_f, start_o, mapping):
    for f in res.findings[start_f:]:
        f.rule = mapping.get(f.rule, f.rule)
    for o in res.obligations[start_o:]:
        o.rule = mapping.get(o.rule, o.rule)


def run(ctx):
    rc = RuleCtx(ctx)
    res = ctx.result
    res.level = "other"
    for k, v in {"V1": "each filter emits only knees[...] elements, at most one per position / cluster, positions ascending",
                 "V2": "filter_worst_knees keeps sign(h - h_min) in {-,0} or {-}: kept heights are non-increasing",
                 "V3": "hull-mode cluster filtering links", "V4": "demos: F/R index-space typing of simplify -> detect -> filter -> map -> evaluate"}.items():
        res.rule(k, v)
    # ---- V5: what the pipeline's last stage (rdp.mapping) is handed by its first (the simplifier) ----------------
    res.rule("V5", "each simplifier returns (reduced, removed) pairs that belong together, and mapping / compute_removed_points do not write their arguments: "
                   "reduced-space knees map to retained points of the original curve")
    from . import rdp_model as _rm
    _rm.check_result_pairing(rc, "V5")
    from . import c07 as _c07
    from .common import borrow as _borrow
    _borrow(rc, "V5", _c07._pure)
    res.rule("V6", "the reduced curve has no repeated point: every simplifier loop only pushes ranges with an interior point and retains one new index per step "
                   "(a duplicated retained index makes the detectors divide by zero and shifts the index mapping)")
    from . import c01 as _c01
    _borrow(rc, "V6", _c01.sec_distinct)
    # ---- V1 / V2: worst-knee and corner filters (shared machinery of C13) ---------------------
    sf, so = len(res.findings), len(res.obligations)
    c13._worst(rc)
    c13._corners(rc)
    # V2 accepts `<` as well as `<=`: re-judge a W1 comparator finding under this property's accept-set
    keep = []
    for f in res.findings[sf:]:
        if f.rule == "W1" and f.construct == "keep guard" and "comparator <;" in f.message:
            res.ok("V2", "postprocessing.filter_worst_knees:keep", "kept iff h < h_min (strict): heights still non-increasing")
            continue
        keep.append(f)
    # the corner predicate / partition (W2) and "first knee kept" are C13's facts, not needed for a subsequence
    keep = [f for f in keep if f.rule != "W2" and f.construct != "first knee"]
    res.findings[sf:] = keep
    res.obligations[so:] = [o for o in res.obligations[so:] if o.rule != "W2" and (o.ok or any(o.detail == f.message for f in keep))]
    _rename(res, sf, so, {"W1": "V2", "W3": "V1"})
    # ---- V1: cluster filters (shared machinery of C12) -----------------------------------------
    sf, so = len(res.findings), len(res.obligations)
    # (an exit that hands back the knees argument itself returns a subsequence of it, whatever its condition: C12 / C13 judge when)
    from .common import account_exits
    for q_ in ("postprocessing.filter_clusters", "postprocessing.filter_clusters_corners"):
        from .common import returned_expr as _rexpr
        account_exits(rc.func(q_), lambda r, f_=rc.func(q_): isinstance(_rexpr(f_, r), ast.Name) and _rexpr(f_, r).id == "knees")
    for mode in c12.MODES:
        c12._filter_clusters(rc, mode)
    c12._corners(rc)
    # only the provenance / cardinality facts belong to this property
    res.findings[sf:] = [f for f in res.findings[sf:] if f.rule in ("Q6", "Q1") or "appends per cluster" in f.construct]
    res.obligations[so:] = [o for o in res.obligations[so:] if o.rule in ("Q6", "Q1", "Q4") or not o.ok]
    res.obligations[so:] = [o for o in res.obligations[so:] if o.ok or any(o.detail == f.message for f in res.findings)]
    _rename(res, sf, so, {"Q6": "V1", "Q1": "V1", "Q2": "V1", "Q4": "V1"})
    # ---- V3 -----------------------------------------------------------------------------------
    sf, so = len(res.findings), len(res.obligations)
    c12._q7(rc)
    _rename(res, sf, so, {"Q7": "V3"})
    # ---- V4 -----------------------------------------------------------------------------------
    _demos(rc)
    res.assumptions += ["cluster labels are contiguous non-decreasing runs (C11) so that per-cluster emission is in increasing position order",
                        "demos are the only place where the pipeline stages are composed inside the repository"]
    res.not_decided += ["completion for every configuration (termination of each stage is under C01/C02/C09/C10)",
                        "equality of coordinates between reduced-space knees and mapped knees (follows from C07 once the index spaces are used consistently)"]
    from .common import hidden_state as _hidden_state
    _hidden_state(rc, "V7", ['rdp.rdp', 'rdp.rdp_fixed', 'rdp.grdp', 'rdp.mp_grdp', 'rdp.min_point_rdp', 'multi_knee.multi_knee', 'curvature.multi_knee', 'dfdt.multi_knee', 'menger.multi_knee', 'lmethod.multi_knee', 'kneedle.multi_knee', 'postprocessing.filter_worst_knees', 'postprocessing.filter_corner_knees', 'postprocessing.select_corner_knees', 'postprocessing.filter_clusters', 'postprocessing.filter_clusters_corners', 'rdp.mapping'], "the pipeline stages")
    res.require_instances("C08 obligations", len(res.obligations), 18)


def _demos(rc: RuleCtx):
    res = rc.res
    lk = rc.lk
    typed = 0
    for name in TYPED_DEMOS:
        mod = rc.repo.clients.get(f"demos.{name}")
        if mod is None:
            res.error(f"V4: demos/{name}.py not found or does not parse")
            continue
        mains = [st for st in mod.tree.body if isinstance(st, ast.FunctionDef) and st.name == "main"]
        if len(mains) != 1:
            res.error(f"V4: demos/{name}.py has no main()")
            continue
        tp = PipelineTyper(lk, mod, mains[0])
        problems = tp.run()
        stages = tp.stages
        if not ({"simplify", "detect", "map"} <= set(stages)) and name != "fusion":
            res.violation("V4", mod, "main", mains[0], f"demos/{name}.py no longer has the simplify -> detect -> map shape (stages found: {sorted(set(stages))})",
                          str(stages), "simplify, detect, filter, map", construct=f"pipeline shape {name}")
            continue
        if problems:
            for node, msg in problems:
                res.violation("V4", mod, "main", node, f"demos/{name}.py: {msg}", ast.unparse(node)[:100], "indices used only against the curve they were computed on",
                              construct=f"{name}: {msg[:80]}")
        else:
            typed += 1
            res.ok("V4", f"demos.{name}.main", f"{tp.typed_calls} typed library calls; reduced-space knees are filtered on the reduced curve and mapped before use on the original")
            res.sample({"demo": name, "stages": stages})
    for name, why in NOTED_DEMOS.items():
        res.note(f"demos/{name}.py is not typed: {why} (reported as a note: the property is about the library calls)")
    rc.res.analysed["demos_typed"] = typed
