"""C05 -- fixed-size simplification is an exact-size, nested greedy refinement.

X1  per iteration exactly one reduced.append(left+index) and exactly one `length -= 1`;
    the loop runs while `length > 0 and stack`.
X2  budget passed by rdp_fixed == length - 2 with a 2-element seed.
X3  `length` occurs only in the loop test and in its own decrement (the first k-2 iterations do
    not depend on the budget => results for k and k+1 are nested).
X4  the priority stored with a child is the value of an order_* callee applied to (pt, index,
    distance_points) only; the callees are pure (E3); left child gets component 0, right child 1.
X5  max-priority pop: ascending sort on field 0 after the pushes, pop from the end (or mirrored).
X6  Order dispatch total (3/3); each scorer == its definition (triangle, area, endpoint-fit residual).
X7  a child is pushed only if it has an interior point.            (same fact as C01-R1b)
X8  the split index is interior and is the farthest interior point (same facts as C01-R1, C04-T3).
"""

from __future__ import annotations

import ast

from .. import AnalysisError, anf
from ..anf import Rat, sym
from ..guards import (G, TRUE, FALSE, g_and, g_not, g_or, g_equiv, g_implies, g_sat, compare, canon_sign, OPS, count_true)
from ..gvn import Frame, Obj, PW, Vec, cases_of, veq, Unsupported, lift
from ..intervals import single_atom
from ..mutation import MutationAnalysis
from . import rdp_model as rm
from .c01 import _r1, _r1b_push_guards, _r2_fixed, _ascending
from .c04 import check_split_index, check_children, popped_points
from .common import RuleCtx, _short

C = Rat.const
ORDERS = ["triangle", "area", "segment"]


def check_priorities(rc: RuleCtx, rule: str, m: rm.LoopModel, oname: str, tag: str):
    """X4: cost item of each child == component k of order_<oname>(pt, index[, distance_points])."""
    res = rc.res
    ev = m.ev
    pt = popped_points(m)
    callee = f"rdp.order_{oname}"
    ok = True
    for g, idx in rm.index_cases(m):
        for p in m.pushes:
            if not g_sat(g_and(p.guard, g)) or len(p.items) != 3:
                continue
            for gc, cost in cases_of(p.items[0]):
                if not g_sat(g_and(p.guard, g, gc)):
                    continue
                a = single_atom(cost) if isinstance(cost, Rat) else None
                good = False
                why = "the priority is not a component of the ordering callee's result"
                if a is not None and a.name == "item" and len(a.args) == 2:
                    inner = single_atom(a.args[0])
                    comp = a.args[1].is_const()
                    if inner is not None and inner.name == "call:" + callee:
                        names = list(inner.extra or ())
                        amap = dict(zip(names, inner.args))
                        want_comp = 0 if _is_left_child(m, p, g, idx) else 1
                        if not amap.get("pt", C(0)).equals(ev.to_rat(pt)):
                            why = "the scorer is not applied to the popped range"
                        elif not amap.get("index", C(0)).equals(idx):
                            why = "the scorer is not applied at the split index"
                        elif comp != want_comp:
                            why = f"the {'left' if want_comp == 0 else 'right'} child is stored with the other child's score"
                        elif "distance_points" not in amap and "distance_points" in rc.func(callee).signature.positional:
                            why = ("the scorer is called without the configured distance function and falls back to its default: the ordering score is not the "
                                   "stated one when another distance is selected")
                        elif "distance_points" in amap and "distance_points" in m.env_pre and not amap["distance_points"].equals(ev.to_rat(m.env_pre["distance_points"])):
                            why = ("the scorer measures with " + _short(amap["distance_points"], 60) + " instead of the configured distance function "
                                   "(the one the split point is chosen with): the ordering score is not the stated one for distance=perpendicular")
                        else:
                            extra = [n for n in names if n not in ("pt", "index", "distance_points")]
                            if extra:
                                why = f"the score depends on {extra}, not only on the segment"
                            else:
                                good = True
                    elif inner is not None and inner.name.startswith("call:rdp.order_"):
                        why = f"Order.{oname} is dispatched to {inner.name[5:]}"
                if not good:
                    ok = False
                    res.violation(rule, m.fi.module, m.fi.name, p.node, f"{tag}: {why}", _short(cost, 200),
                                  f"{callee}(pt, index, ...)[{'0' if _is_left_child(m, p, g, idx) else '1'}]", construct=f"priority push{p.order} {oname}")
    if ok:
        res.ok(rule, f"{tag}:priority", f"children carry {callee}(pt, index, ..)[0] / [1]: a function of the segment only")
    return ok


def _is_left_child(m, p, g, idx) -> bool:
    a = p.items[-2]
    for ga, va in cases_of(a):
        if g_sat(g_and(p.guard, g, ga)) and isinstance(va, Rat) and va.equals(m.left):
            return True
    return False


def check_pop_order(rc: RuleCtx, rule: str, m: rm.LoopModel, tag: str):
    res = rc.res
    evs = m.events
    pos = {id(e): k for k, e in enumerate(evs)}
    sorts = [e for e in evs if e.kind == "sort" and e.target == m.stack]
    pops = [e for e in evs if e.kind == "pop" and e.target == m.stack]
    pushes = [e for e in evs if e.kind == "append" and e.target == m.stack]
    ok = False
    why = "no sort of the work stack by priority after the pushes"
    if len(sorts) == 1 and sorts[0].guard.kind == "true" and len(pops) == 1 and all(pos[id(p)] < pos[id(sorts[0])] for p in pushes):
        call = sorts[0].node
        rev = False
        key_ok = True
        for kw in call.keywords:
            if kw.arg == "reverse":
                if isinstance(kw.value, ast.Constant) and isinstance(kw.value.value, bool):
                    rev = kw.value.value
                else:
                    key_ok = False
            elif kw.arg == "key":
                if rm.sort_key_field(m.fi, kw.value) != ("field", 0):
                    key_ok = False
        pop_call = pops[0].node
        pop_from_end = len(pop_call.args) == 0 or (isinstance(pop_call.args[0], ast.UnaryOp) and ast.unparse(pop_call.args[0]) == "-1")
        pop_from_front = len(pop_call.args) == 1 and isinstance(pop_call.args[0], ast.Constant) and pop_call.args[0].value == 0
        if not key_ok:
            why = "the stack is not sorted on its priority field (field 0)"
        elif (not rev and pop_from_end) or (rev and pop_from_front):
            ok = True
        else:
            why = f"sort(reverse={rev}) followed by pop({'' if pop_from_end else ast.unparse(pop_call.args[0])}) removes the LOWEST priority segment"
    if ok:
        res.ok(rule, f"{tag}:max-priority", "stack sorted ascending on field 0 after the pushes; pop() takes the last = maximal priority")
    else:
        res.violation(rule, m.fi.module, m.fi.name, m.loop, f"{tag}: the segment refined next is not the one with the maximal ordering score: {why}",
                      str([ast.unparse(s.node) for s in sorts] + [ast.unparse(p.node) for p in pops]), "stack.sort(key=lambda t: t[0]); ...; stack.pop()",
                      construct=f"priority pop {tag.split('[')[0]}")
    return ok


def run(ctx):
    rc = RuleCtx(ctx)
    res = ctx.result
    res.level = "other"
    for k, v in {"X1": "exactly one reduced.append(left+index) and exactly one `length -= 1` per iteration; loop test `length > 0 and stack`",
                 "X2": "rdp_fixed passes length - 2 as the budget with the 2-element seed [0, n-1]",
                 "X3": "`length` is used only by the loop test and its own decrement",
                 "X4": "child priority == order_*(pt, index, distance_points)[k], k = 0 for the left child and 1 for the right; scorers pure",
                 "X5": "ascending sort on field 0 after the pushes and pop from the end (or the mirrored idiom)",
                 "X6": "Order dispatch total (3/3); triangle == 1/2*|pt[0]-pt[index]|*max d; area == sum d; segment == endpoint-fit residual sum",
                 "X7": "a child is pushed only if its length > 2",
                 "X8": "split index interior ([1, L-2]) and == argmax of the interior distances (int(L/2) under the zero-distance guard)"}.items():
        res.rule(k, v)
    rm.check_distance_dispatch(rc, "X8", "rdp.rdp_fixed")
    from . import c17
    from .common import borrow
    from . import c01 as _c01
    res.rule("X11", "rdp_fixed opens every curve with an interior point to refinement: the work stack starts with the whole curve exactly when len(points) > 2 (otherwise the size clause min(max(k, 2), n) fails for it)")
    borrow(rc, "X11", lambda rc_: _c01._seeds(rc_, only=("rdp_fixed",)))
    borrow(rc, "X8", c17._sec_shortest, c17._sec_perp)        # the distance primitives the split (and the triangle / area scores) are computed with
    members = rc.repo.mod("rdp").classes["Order"].enum_members
    if sorted(members) != sorted(ORDERS):
        res.error(f"X6: rdp.Order has members {members}; the rule table knows {ORDERS}")
    for oname in ORDERS:
        m = rm.build(rc, "rdp._rdp_fixed", {"order": Obj("enum", f"Order.{oname}")})
        tag = f"rdp._rdp_fixed[{oname}]"
        # X1
        _x1(rc, m, tag)
        check_priorities(rc, "X4", m, oname, tag)
        check_pop_order(rc, "X5", m, tag)
        # X7 / X8 (shared facts, reported under this property's rule names)
        before = len(res.findings)
        _r1b_push_guards(rc, m, tag)
        _r1(rc, m, tag)
        for f in res.findings[before:]:
            f.rule = {"R1": "X8", "R1b": "X7"}.get(f.rule, f.rule)
        for o in res.obligations:
            if o.rule in ("R1", "R1b"):
                o.rule = {"R1": "X8", "R1b": "X7"}[o.rule]
        _x10(rc, m, tag)
        if oname == "segment":
            check_split_index(rc, "X8", m, "rdp._rdp_fixed", allow_middle=True)
            check_children(rc, "X8", m, "rdp._rdp_fixed")
            _x3(rc, m)
    _x2(rc)
    _x6(rc)
    ma = MutationAnalysis(rc.repo, rc.lk)
    for q in ("rdp.order_triangle", "rdp.order_area", "rdp.order_segment"):
        s = ma.summaries[q]
        fi = rc.func(q)
        if s.writes:
            res.violation("X4", fi.module, fi.name, fi.node, f"{q} writes its parameter(s) {sorted(s.writes)}: the priority is not a pure function of the segment",
                          construct="scorer purity")
        else:
            res.ok("X4", f"{q}:pure", "no write to any parameter (E3 summary)")
    res.assumptions += ["integer indices; L >= 3 for every popped range (C01-R1b facts re-checked here as X7)"]
    res.not_decided += ["tie-breaking among equal priorities", "'beyond rounding noise' clause"]
    from .common import hidden_state as _hidden_state
    _hidden_state(rc, "X9", ['rdp.rdp_fixed'], "fixed-size RDP")
    res.require_instances("C05 obligations", len(res.obligations), 40)


def _x10(rc: RuleCtx, m: rm.LoopModel, tag: str):
    """Every child that still has an interior point goes back on the work stack: the size budget can only be spent on
    ranges that are on the stack, so a child withheld for another reason (its score, its position) makes the result
    smaller than min(max(k, 2), n) once the other ranges are used up."""
    res = rc.res
    res.rule("X10", "each child range with an interior point (length > 2) is pushed, whatever its priority: otherwise fewer than the requested number of points can be returned")
    for gi, idx in rm.index_cases(m):
        if not g_sat(gi):
            continue
        for name, A, B in (("left", m.left, m.left + idx + C(1)), ("right", m.left + idx, m.right)):
            has_room = canon_sign(B - A - C(2), OPS[">"])
            pushed = FALSE
            for p in m.pushes:
                items = p.items[-2:]
                for gc, ab in cases_of(lift(lambda a, b: Vec([a, b]), items[0], items[1])):
                    a_, b_ = ab.items
                    if isinstance(a_, Rat) and isinstance(b_, Rat) and a_.equals(A) and b_.equals(B):
                        pushed = g_or(pushed, g_and(p.guard, gc))
            want = g_and(gi, has_room)
            if not g_sat(want):
                continue
            if g_implies(want, pushed):
                res.ok("X10", f"{tag}:{name}", f"the {name} child is pushed whenever it has an interior point")
            elif pushed.kind == "false":
                # (a child that is never pushed under these bounds is X8's finding: the children are not the two halves)
                continue
            else:
                res.violation("X10", m.fi.module, m.fi.name, m.loop, f"{tag}: the {name} child can be withheld from the work stack although it has an interior point: "
                              "the loop then runs out of ranges before the size budget is spent and fewer points than requested are returned",
                              _short(pushed, 220), f"pushed whenever {_short(has_room, 80)}", construct=f"child always pushed {name}")


def _x1(rc: RuleCtx, m: rm.LoopModel, tag: str):
    res = rc.res
    before = len(res.findings)
    _r2_fixed(rc, m, tag)
    for f in res.findings[before:]:
        f.rule = "X1"
    for o in res.obligations:
        if o.rule == "R2":
            o.rule = "X1"
    new_len = m.env_post.get("length")
    good = isinstance(new_len, Rat) and new_len.equals(sym("length") - C(1))
    if good:
        res.ok("X1", f"{tag}:budget", "the budget decreases by exactly 1 on every iteration")
    else:
        res.violation("X1", m.fi.module, m.fi.name, m.loop, f"{tag}: the budget is not decremented by exactly 1 on every iteration",
                      _short(new_len, 120), "length - 1", construct="budget decrement")
    # loop test
    fr = Frame(m.ev, m.fi, 0)
    env = dict(m.env_pre)
    env["length"] = sym("length")
    g = fr.cond(m.loop.test, env)
    want_len = canon_sign(sym("length"), OPS[">"])
    items = g.a if g.kind == "and" else (g,)
    has_len = any(x == want_len for x in items)
    has_stack = any(x.kind == "atom" and "stack" in repr(x.a) for x in items)
    if g.kind == "and" and len(items) == 2 and has_len and has_stack:
        res.ok("X1", f"{tag}:test", "loop runs while length > 0 and the stack is not empty")
    else:
        res.violation("X1", m.fi.module, m.fi.name, m.loop, f"{tag}: the loop does not run exactly while budget remains (length > 0) and splittable segments remain",
                      str(g), "length > 0 and stack", construct="loop test")


def _x3(rc: RuleCtx, m: rm.LoopModel):
    res = rc.res
    fi = m.fi
    allowed = set(rm.BUDGET_NODES.get(id(fi.node), ()))        # `range(length)` of a bounded for (rewritten as the while form)
    for n in ast.walk(m.loop.test):
        allowed.add(id(n))
    for st in ast.walk(m.loop):
        if isinstance(st, ast.AugAssign) and isinstance(st.target, ast.Name) and st.target.id == "length":
            allowed.add(id(st.target))
    bad = [n for n in ast.walk(fi.node) if isinstance(n, ast.Name) and n.id == "length" and id(n) not in allowed]
    if bad:
        res.violation("X3", fi.module, fi.name, bad[0], "the remaining budget influences the refinement itself (it is used outside the loop test and its decrement): results for k and k+1 need not be nested",
                      ast.unparse(fi.module.parent(bad[0])) if fi.module.parent(bad[0]) is not None else "length", "length only in `while length > 0` and `length -= 1`",
                      construct="budget use")
    else:
        res.ok("X3", fi.qualname, "`length` occurs only in the loop test and its decrement")


def _x2(rc: RuleCtx):
    res = rc.res
    fi = rc.func("rdp.rdp_fixed")
    ev = rc.new_eval()
    pts = ev.point("points", True)
    ev.len_map = {"points": sym("n")}
    env = {"points": pts, "length": ev.symbol("length"), "distance": ev.symbol("distance"), "order": ev.symbol("order")}
    out = ev.eval_function(fi, env)
    calls = [e for e in out.events if e.kind == "call" and e.target == "rdp._rdp_fixed"]
    if len(calls) != 1:
        raise AnalysisError("rdp.rdp_fixed: expected one call of _rdp_fixed")
    pos = rc.func("rdp._rdp_fixed").signature.positional
    amap = dict(zip(pos, calls[0].args))
    budget = amap.get("length")
    if isinstance(budget, Rat) and budget.equals(sym("length") - C(2)):
        res.ok("X2", fi.qualname, "budget == length - 2 (the two end points are already retained)")
    else:
        res.violation("X2", fi.module, fi.name, fi.node, "the refinement budget is not length - 2", str(budget), "length - 2", construct="budget")
    # return value: (array(reduced result), compute_removed_points(points, reduced))
    val = out.value()
    ok = isinstance(val, Vec) and len(val.items) == 2
    if ok:
        res.ok("X2", f"{fi.qualname}:return", "returns (reduced, compute_removed_points(points, reduced))")
    else:
        res.violation("X2", fi.module, fi.name, fi.node, "rdp_fixed does not return the pair (reduced, removed)", _short(val), "(reduced, removed)", construct="return pair")


def _x6(rc: RuleCtx):
    res = rc.res
    texts = {
        "triangle": ("(0.5 * np.linalg.norm(pt[0] - pt[index]) * distance_points(pt[0:index+1], pt[0:index+1][0], pt[0:index+1][-1]).max(), "
                     "0.5 * np.linalg.norm(pt[index] - pt[-1]) * distance_points(pt[index:], pt[index:][0], pt[index:][-1]).max())"),
        "area": ("(np.sum(distance_points(pt[0:index+1], pt[0:index+1][0], pt[0:index+1][-1])), "
                 "np.sum(distance_points(pt[index:], pt[index:][0], pt[index:][-1])))"),
        "segment": "(lf.linear_fit_residuals_points(pt[0:index+1]), lf.linear_fit_residuals_points(pt[index:]))",
    }
    for oname, text in texts.items():
        fi = rc.func(f"rdp.order_{oname}")
        ev = rc.new_eval()
        rm.install_shape_rules(ev)
        pt = ev.point("pt", True)
        ev.len_map = {"pt": sym("L")}
        env = {"pt": pt, "index": ev.symbol("index")}
        if "distance_points" in fi.signature.positional:
            env["distance_points"] = ev.symbol("distance_points")
        try:
            out = ev.eval_function(fi, env)
            want = rc.eval_expr(fi, text, env)
        except Unsupported as e:
            raise AnalysisError(f"rdp.order_{oname}: not modelled: {e}")
        val = out.value()

        def _half_ok(got, wanted, nchild) -> bool:
            """Every way the score of one half is computed is the stated score - except that a half without an interior point (at most two
            points: never pushed, X7) may be given any constant: its priority is never used."""
            small = canon_sign(nchild - C(2), OPS["<="])
            for g_, v_ in cases_of(got):
                if not g_sat(g_):
                    continue
                if any(veq(v_, w_) for gw_, w_ in cases_of(wanted) if g_sat(g_and(g_, gw_))):
                    continue
                if isinstance(v_, Rat) and v_.is_const() is not None and g_implies(g_, small):
                    continue
                return False
            return True
        halves_ok = False
        if isinstance(val, Vec) and isinstance(want, Vec) and len(val.items) == 2 and len(want.items) == 2:
            idx_ = env["index"]
            halves_ok = _half_ok(val.items[0], want.items[0], idx_ + C(1)) and _half_ok(val.items[1], want.items[1], sym("L") - idx_)
        if veq(val, want) or halves_ok:
            res.ok("X6", fi.qualname, {"triangle": "(1/2*|pt[0]-pt[index]|*max d_left, 1/2*|pt[index]-pt[-1]|*max d_right)",
                                       "area": "(sum d_left, sum d_right)", "segment": "(residuals of the endpoint fit left, right)"}[oname])
            res.sample({"scorer": fi.qualname, "left": _short(val.items[0] if isinstance(val, Vec) else val, 200)})
        else:
            res.violation("X6", fi.module, fi.name, fi.node, f"order_{oname} is not its stated score on the two halves pt[0:index+1] / pt[index:] (sharing the split point)",
                          _short(val, 300), _short(want, 300), construct=f"scorer {oname}")
