"""C11 -- 1-D linkage clustering follows its stated threshold rule.

For each linkage the single-pass loop body is abstracted once as a transfer
function over symbolic loop-carried state (gated value numbering):
  L1  one label per point, first label 0, label step in {0, 1}, the label is
      updated before it is appended (proved: guards of the append events
      partition the iteration; appended value == new label);
  L2  the step-1 guard is exactly  distance >= t  (ties included);
  L3  distance and the carried state (anchor / centroid / window) follow the
      stated linkage definition.
"""

from __future__ import annotations

import ast

from .. import AnalysisError, anf
from ..anf import Rat, sym
from ..guards import G, TRUE, FALSE, g_and, g_not, g_or, g_equiv, g_implies, g_sat, compare, canon_sign, OPS, count_true
from ..gvn import Frame, Obj, PW, Vec, cases_of, veq, mk_pw, Unsupported
from .common import section, RuleCtx, _short, split_at_loop, stored_names, range_args, sign_set_name, returned_names

C = Rat.const
LINKAGES = ["single_linkage", "complete_linkage", "centroid_linkage", "average_linkage"]


def _at(x, i):
    return anf.opaque("at", x, i, array=False)


def run(ctx):
    rc = RuleCtx(ctx)
    res = ctx.result
    res.level = "proof"
    res.rule("L1", "seed label 0 appended once; loop over i = 1..n-1; exactly one append per iteration on every path; appended value = previous label + {0,1} = label carried to the next iteration")
    res.rule("L2", "the label is incremented exactly when (linkage distance - t) has sign in {0,+}, i.e. distance >= t")
    res.rule("L3", "linkage distance and carried state equal the stated definition (single: gap; complete: first member; centroid: running mean; average: mean distance to members), normalised by x_last - x_first")
    for name in LINKAGES:
        section(rc, _one, name)
    res.extra_coverage["checker_cmd"] = "/venv/bin/python -m kverif check C11"
    res.assumptions += ["real-number reading of the centroid recurrence", "x strictly increasing (range R > 0)"]
    res.not_decided += ["floating-point rounding of the centroid recurrence",
                        "the corollary on monotonicity of the number of clusters in t (follows from L2/L3 for single and complete linkage)"]
    from .common import hidden_state as _hidden_state
    _hidden_state(rc, "L5", ['clustering.single_linkage', 'clustering.complete_linkage', 'clustering.centroid_linkage', 'clustering.average_linkage'], "the linkages")
    res.require_instances("C11 obligations", len(res.obligations), 24)


def _single_loop_free(rc: RuleCtx, fi):
    """Single linkage without a loop: labels = [0] followed by the running count of the gaps that reach t,
    np.cumsum(gap >= t) with gap[j] = |x[j+1] - x[j]| / (x_last - x_first).  L1: the layout (label 0 first, one running count
    per further point); L2: the comparator; L3: the gap, element by element."""
    from .. import elem
    from ..intervals import single_atom
    res = rc.res
    mod = fi.module
    ev = rc.new_eval()
    pts = ev.point("points", True)
    ev.len_map = {"points": sym("N")}
    t = ev.symbol("t")
    try:
        out = ev.eval_function(fi, {"points": pts, "t": t})
    except Unsupported as e:
        raise AnalysisError(f"{fi.qualname}: not modelled: {e}")
    val = out.value()
    seen = {}
    for v in [val] + [a for e in out.events for a in e.args]:
        for g_, c_ in cases_of(v):
            if isinstance(c_, Rat):
                for a in c_.all_atoms():
                    if a.kind == "fn" and a.name == "np.cumsum" and len(a.args) == 1:
                        seen[a.skey] = a
    if len(seen) != 1:
        raise AnalysisError(f"{fi.qualname}: loop-free form without exactly one running count (np.cumsum) - shape not recognised")
    cs = next(iter(seen.values()))
    csr = Rat.from_atom(cs)
    ba = single_atom(cs.args[0])
    B = ev.bool_registry.get(ba.extra) if (ba is not None and ba.name == "bool") else None
    if not (isinstance(B, G) and B.kind == "sign"):
        raise AnalysisError(f"{fi.qualname}: the running count is not taken over one comparison - shape not recognised")
    # ---- L1: layout ---------------------------------------------------------------------------------------------
    layout = False
    if isinstance(val, Rat) and val.is_zero():
        # clusters = np.zeros(len, dtype=int); clusters[1:] = cumsum(..); return clusters
        tail = [st for st in ast.walk(fi.node) if isinstance(st, ast.Assign) and len(st.targets) == 1 and isinstance(st.targets[0], ast.Subscript)
                and isinstance(st.targets[0].slice, ast.Slice) and isinstance(st.targets[0].slice.lower, ast.Constant) and st.targets[0].slice.lower.value == 1
                and st.targets[0].slice.upper is None and st.targets[0].slice.step is None and isinstance(st.targets[0].value, ast.Name)]
        rets = [st for st in ast.walk(fi.node) if isinstance(st, ast.Return)]
        stores = [e for e in out.events if e.kind == "store"]
        if len(tail) == 1 and len(rets) == 1 and isinstance(rets[0].value, ast.Name) and rets[0].value.id == tail[0].targets[0].value.id \
                and len(stores) == 1 and isinstance(stores[0].args[-1], Rat) and stores[0].args[-1].equals(csr) and stores[0].guard.kind == "true" \
                and ev.prealloc.get((fi.qualname, rets[0].value.id), C(-1)).equals(sym("N")):
            layout = True
    elif isinstance(val, Rat):
        a = single_atom(val)
        if a is not None and a.name in ("np.concatenate", "np.hstack", "np.append") and val.equals(Rat.from_atom(a)):
            parts = a.args
            if len(parts) == 1 and single_atom(parts[0]) is not None and single_atom(parts[0]).name == "vec":
                parts = single_atom(parts[0]).args
            if len(parts) == 2 and parts[1].equals(csr):
                h = single_atom(parts[0])
                first = h.args[0] if (h is not None and h.name == "vec" and len(h.args) == 1) else parts[0]
                layout = first.is_zero()
    if layout and ev.length_of(B.a).equals(sym("N") - C(1)):
        res.ok("L1", fi.qualname, "labels = [0] followed by the running count of the N-1 gap tests: one label per point, steps in {0, 1}")
        res.ok("L1", f"{fi.qualname}:seed", "the first label is 0")
    else:
        res.violation("L1", mod, fi.name, fi.node, "the labels are not 0 followed by the running count of the N-1 gap tests", _short(val, 160),
                      "np.concatenate(([0], np.cumsum(gap >= t)))", construct="single loop-free layout")
    # ---- L2 / L3 -----------------------------------------------------------------------------------------------------
    j = sym("j")
    anf.declare_integer(j)
    x = pts.items[0]
    want = anf.f_abs(_at(x, j + C(1)) - _at(x, j)) / (_at(x, C(-1)) - _at(x, C(0)))
    lhs = elem.simplify(elem.element(B.a, j))
    # x is strictly increasing (the curve domain): x_last = x_first + R with R > 0, so |R| is R wherever the code normalises operands
    # before subtracting them (|a/R - b/R| = |a - b| / R)
    anf.NONNEG_SYMS.add("R!")
    span = {single_atom(_at(x, C(-1))).skey: _at(x, C(0)) + sym("R!")}
    lhs, want = anf.replace_atoms(lhs, span), anf.replace_atoms(want, span)
    ge, gt = canon_sign(want - t, OPS[">="]), canon_sign(want - t, OPS[">"])
    got = canon_sign(lhs, B.b)
    if g_equiv(got, ge):
        res.ok("L2", fi.qualname, "a new cluster starts exactly when gap / (x_last - x_first) >= t (ties included)")
        res.ok("L3", fi.qualname, "gap[j] = |x[j+1] - x[j]| normalised by x_last - x_first")
    elif g_equiv(got, gt):
        res.violation("L2", mod, fi.name, fi.node, "a gap exactly equal to t does not start a new cluster (comparator > instead of >=)", str(got), str(ge), construct="single comparator")
    else:
        res.violation("L3", mod, fi.name, fi.node, "the quantity compared with t is not |x[j+1] - x[j]| / (x_last - x_first)", _short(got, 200), _short(ge, 200),
                      construct="single gap")


def _one(rc: RuleCtx, name: str):
    res = rc.res
    fi = rc.func(f"clustering.{name}")
    mod = fi.module
    ev = rc.new_eval()
    pts = ev.point("points", True)
    ev.len_map = {"points": sym("N")}
    t = ev.symbol("t")
    if name == "single_linkage" and not any(isinstance(st, (ast.For, ast.While)) for st in ast.walk(fi.node)):
        return _single_loop_free(rc, fi)
    pre, loop, post = split_at_loop(fi)
    if not isinstance(loop, ast.For):
        raise AnalysisError(f"{fi.qualname}: the single pass is no longer a for loop")
    # ---- pre-loop state ------------------------------------------------------
    fr = Frame(ev, fi, 0)
    env = {"points": pts, "t": t}
    try:
        fr.block(pre, env, TRUE)
    except Unsupported as e:
        raise AnalysisError(f"{fi.qualname}: pre-loop code not modelled: {e}")
    # an exit in front of the pass is the pass skipped: with two points the second one still has to be compared with the first
    from .common import early_exits_bounded
    anf.declare_integer(sym("N"))
    early_exits_bounded(rc, "L1", fi, fr.returns, sym("N"), 1, f"{fi.qualname}")
    from .common import account_exits
    account_exits(fi)
    rn = returned_names(post)
    if rn is None:
        raise AnalysisError(f"{fi.qualname}: expected one return after the loop")
    # the result list: the name wrapped by np.array(...) in the return
    rnames = [n for n in sorted(rn) if n in env]
    lists = [n for n in rnames if isinstance(env.get(n), Vec) and env[n].kind == "list"]
    if len(lists) != 1:
        raise AnalysisError(f"{fi.qualname}: cannot identify the label list returned")
    L = lists[0]
    seed = env[L]
    x = pts.items[0]
    # L1 seed
    if len(seed.items) == 1 and isinstance(seed.items[0], Rat) and seed.items[0].is_zero():
        res.ok("L1", f"{fi.qualname}:seed", "exactly one label appended before the loop, value 0")
    else:
        res.violation("L1", mod, fi.name, pre[-1] if pre else fi.node, "the label list does not start with exactly one label 0",
                      str(seed), "[0]", construct="seed labels")
    # L1 range
    # the positions visited: any header the loop binder understands (range, enumerate, zip of shifted slices, ...),
    # re-centred so that `i` is the index of the point that is being labelled
    from .common import bind_loop
    b = bind_loop(ev, fr, loop, env)
    if b is None:
        raise AnalysisError(f"{fi.qualname}: loop header has no recognised shape")
    delta = (C(1) - b.lo).is_const()
    if delta is None:
        raise AnalysisError(f"{fi.qualname}: the first visited position {b.lo} is not a constant")
    ok_range = (b.hi + C(delta)).equals(sym("N"))
    if ok_range:
        res.ok("L1", f"{fi.qualname}:range", "the pass visits the points 1..n-1 once each, in order")
    else:
        res.violation("L1", mod, fi.name, loop, "the pass does not visit exactly the points 1..n-1 once each",
                      ast.unparse(loop.iter), "range(1, len(points))", construct="loop range")
        return
    i = ev.symbol("i!pos")
    idx_atoms = b.idx.atoms()
    if len(idx_atoms) != 1:
        raise AnalysisError(f"{fi.qualname}: loop index is not a plain symbol")
    ren = {idx_atoms[0].name: i - C(delta)}

    def _rn(v):
        if isinstance(v, Rat):
            return v.subst(ren)
        if isinstance(v, Vec):
            return Vec([_rn(k) for k in v.items], v.kind)
        return v
    # ---- loop body as a transfer function ------------------------------------------------
    tnames = [n.id for n in ast.walk(loop.target) if isinstance(n, ast.Name)]
    from .common import log_only_local
    carried = [n for n in stored_names(ast.Module(body=loop.body, type_ignores=[])) if n in env and n != L and n not in tnames
               and not log_only_local(fi, n)]         # (a counter that only feeds a debug message is not state of the pass)
    benv = dict(env)
    for k_, v_ in b.bindings.items():
        benv[k_] = _rn(v_)
    state = {}
    for n in carried:
        state[n] = ev.symbol(n)
        benv[n] = state[n]
    benv[L] = ev.symbol(L + "@list")
    # a carried position that provably is i + c at the head of every iteration (`prev = i` at the end of each round) is that value
    from .common import affine_positions
    aff = affine_positions(ev, fi, loop, benv, carried, env, i, C(1))
    if aff:
        benv.update(aff)
        res.note(f"{fi.qualname}: carried position(s) {', '.join(f'{k} == {v}' for k, v in sorted(aff.items()))} at the head of every iteration (induction over the pass)")
    try:
        out = ev.eval_loop_body(fi, loop, benv)
    except Unsupported as e:
        raise AnalysisError(f"{fi.qualname}: loop body not modelled: {e}")
    if out.returns:
        raise AnalysisError(f"{fi.qualname}: return inside the pass - shape not recognised")
    # (`continue` only ends one iteration early: the end state of the iteration is the merge of every way to finish it)
    appends = [e for e in out.events if e.kind == "append" and e.target == L]
    bulk = []
    if out.breaks:
        bulk = _early_exit(rc, fi, name, loop, out, L, i, t, x, carried, state)
    other_writes = [e for e in out.events if e.target == L and e.kind not in ("append",) and e not in bulk]
    if other_writes:
        res.violation("L1", mod, fi.name, other_writes[0].node, f"the label list is modified by .{other_writes[0].kind}() inside the pass",
                      construct="label list writes")
    lo_n, hi_n = count_true([e.guard for e in appends] + list(out.breaks))
    if (lo_n, hi_n) == (1, 1):
        res.ok("L1", f"{fi.qualname}:one-append", f"{len(appends)} append site(s), guards partition the iteration (exactly one on every path)")
    else:
        res.violation("L1", mod, fi.name, loop, f"the number of labels appended per iteration ranges over [{lo_n}, {hi_n}], not exactly 1",
                      str([str(e.guard) for e in appends]), "exactly one append on every path", construct="appends per iteration")
        return
    # label variable: the symbol the appended values are expressed in
    label_vars = [n for n in carried if any(isinstance(e.args[0], Rat) and n in e.args[0].symbols() for e in appends)]
    if len(label_vars) != 1:
        # the appended value may be piecewise
        label_vars = [n for n in carried if any(n in _syms(e.args[0]) for e in appends)]
    if len(label_vars) != 1:
        raise AnalysisError(f"{fi.qualname}: cannot identify the running label variable")
    lab = label_vars[0]
    if not (isinstance(env.get(lab), Rat) and env[lab].is_zero()):
        res.violation("L1", mod, fi.name, fi.node, f"the running label {lab} does not start at 0", str(env.get(lab)), "0", construct="label init")
    inc_guards = []
    step_ok = True
    for e in appends:
        for g, v in cases_of(e.args[0]):
            gg = g_and(e.guard, g)
            if not g_sat(gg):
                continue
            if not isinstance(v, Rat):
                step_ok = False
                continue
            d = v.sub(state[lab]).is_const()
            if d == 1:
                inc_guards.append(gg)
            elif d != 0:
                step_ok = False
                res.violation("L1", mod, fi.name, e.node, f"appended label is {v}, not the previous label + 0 or + 1",
                              str(v), f"{lab} or {lab} + 1", construct="label step")
            # carried label must equal the appended one
            newlab = out.env.get(lab)
            for g2, v2 in cases_of(newlab):
                if g_sat(g_and(gg, g2)) and not (isinstance(v2, Rat) and v2.equals(v)):
                    step_ok = False
                    res.violation("L1", mod, fi.name, e.node,
                                  f"the label appended ({v}) differs from the label carried to the next iteration ({v2}) under {g_and(gg, g2)}",
                                  str(v2), str(v), construct="label carried")
    for e in bulk:
        # the early exit labels the rest with the label it has at that point: previous label + {0, 1}
        ra = e.args[0].atoms() if isinstance(e.args[0], Rat) else []
        lv = None
        if len(ra) == 1 and ra[0].name == "repeat":
            inner = ra[0].args[0].atoms()
            if len(inner) == 1 and inner[0].name == "vec" and len(inner[0].args) == 1:
                lv = inner[0].args[0]
        d = lv.sub(state[lab]).is_const() if lv is not None else None
        if d == 1:
            inc_guards.append(e.guard)
        elif d != 0:
            raise AnalysisError(f"{fi.qualname}: label used by the early exit not recognised")
    if step_ok:
        res.ok("L1", f"{fi.qualname}:step", "appended label = previous label + {0,1} and is the label carried forward")
    inc = g_or(*inc_guards) if inc_guards else FALSE

    # ---- L3: reference distance and state ------------------------------------------------------
    R = _at(x, C(-1)) - _at(x, C(0))
    xi = _at(x, i)
    ref_state = {}
    if name == "single_linkage":
        dist = anf.f_abs(xi - _at(x, i - C(1))) / R
        aux = []
    elif name == "complete_linkage":
        aux = [n for n in carried if n != lab]
        if len(aux) != 1:
            raise AnalysisError(f"{fi.qualname}: expected one anchor variable, found {aux}")
        a = state[aux[0]]
        dist = anf.f_abs(xi - _at(x, a)) / R
        ref_state = {aux[0]: (C(0), i, a)}            # init, on increment, otherwise
    elif name == "centroid_linkage":
        aux = [n for n in carried if n != lab]
        if len(aux) != 2:
            raise AnalysisError(f"{fi.qualname}: expected centroid and size variables, found {aux}")
        # which one is the size: its initial value is the constant 1
        size = [n for n in aux if isinstance(env[n], Rat) and env[n].is_const() == 1]
        if len(size) != 1:
            raise AnalysisError(f"{fi.qualname}: cannot identify the cluster size variable")
        sz = size[0]
        cen = [n for n in aux if n != sz][0]
        c, s = state[cen], state[sz]
        dist = anf.f_abs(xi - c) / R
        ref_state = {cen: (_at(x, C(0)), xi, (s * c + xi) / (s + C(1))), sz: (C(1), C(1), s + C(1))}
    else:
        aux = [n for n in carried if n != lab and n not in ("cluster_points", "distances", "distance")]
        aux = [n for n in aux if isinstance(env.get(n), Rat)]
        if len(aux) != 1:
            raise AnalysisError(f"{fi.qualname}: expected one window-start variable, found {aux}")
        a = state[aux[0]]
        window = anf.opaque("slice", x, a, i, array=True)
        dist = anf.f_sum(anf.f_abs(window - xi), i - a) / ((i - a) * R)
        ref_state = {aux[0]: (C(0), i, a)}
    want_inc = canon_sign(dist - t, OPS[">="])
    # L2
    if g_equiv(inc, want_inc):
        res.ok("L2", fi.qualname, f"label incremented iff {want_inc}")
        res.sample({"function": fi.qualname, "increment_iff": str(want_inc)})
    else:
        # distinguish comparator from formula: same quantity, different sign set?
        msg = "the label is not incremented exactly when linkage distance >= t"
        found = str(inc)
        if inc.kind == "sign" and want_inc.kind == "sign" and inc.a.equals(want_inc.a):
            msg += f" (comparator accepts signs {sign_set_name(inc.b)}, required {sign_set_name(want_inc.b)}: ties distance == t decide differently)"
        else:
            msg += " (the compared quantity is not the stated linkage distance normalised by x_last - x_first, or the comparator differs)"
        res.violation("L2", mod, fi.name, loop, msg, found, str(want_inc), construct="increment guard")
    # L3 state
    for var, (init, on_inc, otherwise) in ref_state.items():
        good = True
        if not (isinstance(env.get(var), Rat) and env[var].equals(init)):
            good = False
            res.violation("L3", mod, fi.name, fi.node, f"{var} starts at {env.get(var)}, required {init}", str(env.get(var)), str(init),
                          construct=f"{var} init")
        new = out.env.get(var)
        for g, v in cases_of(new):
            for (cond, want) in ((inc, on_inc), (g_not(inc), otherwise)):
                gg = g_and(g, cond)
                if not g_sat(gg):
                    continue
                if not (isinstance(v, Rat) and v.equals(want)):
                    good = False
                    res.violation("L3", mod, fi.name, loop,
                                  f"carried state {var} becomes {v} when {'a new cluster starts' if cond is inc else 'the point joins the cluster'}, required {want}",
                                  _short(v), _short(want), construct=f"{var} update {'inc' if cond is inc else 'join'}")
        if good:
            res.ok("L3", f"{fi.qualname}:{var}", f"init {init}; new cluster -> {on_inc}; join -> {_short(otherwise, 80)}")
    if not ref_state:
        res.ok("L3", f"{fi.qualname}", "no carried state besides the label")


def _early_exit(rc: RuleCtx, fi, name, loop, out, L, i, t, x, carried, state):
    """A pass that stops early and labels every remaining point at once claims that all of them join the current
    cluster.  That is justified only where the linkage distance of a remaining point is bounded by that of the last
    point (complete linkage, fixed anchor, x sorted) and the exit guard implies  distance(last point) < t  -- strictly:
    a tie distance == t starts a new cluster."""
    res = rc.res
    mod = fi.module
    from .common import account_loop_exits
    account_loop_exits(fi)          # (the breaks of the pass are what this section judges)
    if len(out.breaks) != 1:
        raise AnalysisError(f"{fi.qualname}: {len(out.breaks)} early exits in the pass - shape not recognised")
    gb = out.breaks[0]
    bulk = [e for e in out.events if e.kind == "extend" and e.target == L and g_implies(gb, e.guard) and g_implies(e.guard, gb)]
    if len(bulk) != 1:
        raise AnalysisError(f"{fi.qualname}: the pass is left early without labelling the remaining points in one step - shape not recognised")
    if name != "complete_linkage":
        raise AnalysisError(f"{fi.qualname}: early exit from the pass - only justified for a fixed anchor (complete linkage); shape not recognised")
    aux = [n for n in carried if isinstance(out.env.get(n), (Rat, PW)) and any(isinstance(v, Rat) and v.equals(i) for _g, v in cases_of(out.env.get(n)))]
    # anchor on the exit path: the carried index variable as it stands when the loop is left
    anchors = []
    for n in aux:
        for g, v in cases_of(out.env.get(n)):
            if isinstance(v, Rat) and g_sat(g_and(g, gb)):
                anchors.append(v)
    # out.env is the fall-through state; the exit path has its own: re-evaluate the anchor under the exit guard
    R = _at(x, C(-1)) - _at(x, C(0))
    ok = False
    want = None
    for a in ([i] + anchors):
        want = canon_sign((_at(x, C(-1)) - _at(x, a)) / R - t, OPS["<"])
        if g_implies(gb, want):
            ok = True
            break
    v = bulk[0].args[0]
    cnt_ok = False
    if isinstance(v, Rat):
        ra = v.atoms()
        if len(ra) == 1 and ra[0].name == "repeat" and ra[0].args[1].equals(sym("N") - i):
            cnt_ok = True
    if not cnt_ok:
        res.violation("L1", mod, fi.name, bulk[0].node, "the early exit does not label exactly the remaining points i..n-1 (one label per point)",
                      _short(v, 160), "[label] * (len(points) - i)", construct="early exit count")
    if ok:
        res.ok("L2", f"{fi.qualname}:early-exit", "early exit only when even the last point is strictly closer than t to the anchor")
    else:
        res.violation("L2", mod, fi.name, bulk[0].node,
                      "the pass stops early and puts every remaining point in the current cluster although the last point can be at distance >= t from its anchor "
                      "(a tie distance == t must start a new cluster)", _short(gb, 300), str(want), construct="early exit guard")
    return bulk


def _syms(v):
    out = set()
    for _g, x in cases_of(v):
        if isinstance(x, Rat):
            out |= x.symbols()
    return out
