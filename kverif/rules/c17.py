"""C17 -- geometric and ranking primitives equal their geometric definitions.

Each primitive's body is abstracted to an exact normal form and compared with
its definition; Menger curvature is additionally checked for invariance under
all six permutations of its arguments by symbol substitution.
"""

from __future__ import annotations

import ast
import itertools
from fractions import Fraction

from .. import AnalysisError, anf, deps
from ..anf import Rat, sym
from ..guards import G, TRUE, g_and, g_not, g_or, g_equiv, g_implies, g_sat, compare, canon_sign, OPS
from ..gvn import Obj, PW, Vec, cases_of, veq, Unsupported
from ..intervals import single_atom
from .common import RuleCtx, judge, _short

C = Rat.const


def _pt(ev, name, array=False):
    return ev.point(name, array)


def _seg_distance_ref(p, a, b):
    (px, py), (ax, ay), (bx, by) = p.items, a.items, b.items
    L = anf.f_sqrt((bx - ax) * (bx - ax) + (by - ay) * (by - ay))
    dx, dy = (bx - ax) / L, (by - ay) / L
    s = (ax - px) * dx + (ay - py) * dy
    t = (px - bx) * dx + (py - by) * dy
    h = anf.f_minmax("max", [s, t, C(0)])
    c = (px - ax) * dy - (py - ay) * dx
    return anf.f_sqrt(h * h + c * c)


def _perp_ref(p, a, b):
    (px, py), (ax, ay), (bx, by) = p.items, a.items, b.items
    cross = (bx - ax) * (py - ay) - (by - ay) * (px - ax)
    return anf.f_abs(cross) / anf.f_sqrt((bx - ax) * (bx - ax) + (by - ay) * (by - ay))


def _sec_shortest(rc: RuleCtx) -> int:
    res = rc.res
    programs = 0
    # ---- shortest distance ------------------------------------------------
    ev = rc.new_eval()
    p, a, b = _pt(ev, "p", True), _pt(ev, "a"), _pt(ev, "b")
    ev.len_map = {"p": sym("N")}
    fi, out = rc.eval_fn("linear_fit.shortest_distance_points", {"p": p, "a": a, "b": b})
    programs += 1
    same = g_and(compare("==", a.items[0], b.items[0]), compare("==", a.items[1], b.items[1]))
    want_general = _seg_distance_ref(p, a, b)
    (px, py), (ax, ay) = p.items, a.items
    want_same = anf.f_sqrt((px - ax) * (px - ax) + (py - ay) * (py - ay))
    ok = True
    general_cover = []
    for g, v in cases_of(out.value()):
        if not isinstance(v, Rat):
            res.violation("G-shortest", fi.module, fi.name, fi.node, f"non-numeric value {v!r}", construct="shortest value")
            ok = False
            continue
        if g_implies(g, same) and g.kind != "true":
            verdict, why = judge(v, want_same)
            label = "a == b"
            want = want_same
        else:
            verdict, why = judge(v, want_general)
            label = "a != b"
            want = want_general
            if verdict == "equal":
                general_cover.append(g)
        if verdict == "equal":
            continue
        ok = False
        if verdict == "inconclusive":
            res.error(f"INCONCLUSIVE G-shortest ({label}): {why}")
        else:
            res.violation("G-shortest", fi.module, fi.name, fi.node,
                          f"distance to the closed segment ({label}) is not the geometric definition ({why})",
                          _short(v), _short(want), construct=f"shortest {label}")
    if ok and not g_implies(g_not(same), g_or(*general_cover) if general_cover else g_not(TRUE)):
        ok = False
        res.violation("G-shortest", fi.module, fi.name, fi.node, "the segment formula is not used for every a != b",
                      str([str(g) for g in general_cover]), "guard implied by a != b", construct="shortest coverage")
    if ok:
        res.ok("G-shortest", fi.qualname, "hypot(max(s,t,0), cross) / |p-a|", f"{fi.module.relpath}:{fi.lineno}")
        res.sample({"function": fi.qualname, "normal_form": _short(want_general, 300)})
    return programs


def _sec_perp(rc: RuleCtx) -> int:
    res = rc.res
    programs = 0
    # ---- perpendicular distance ----------------------------------------------
    ev = rc.new_eval()
    pt, st, en = _pt(ev, "pt", True), _pt(ev, "start"), _pt(ev, "end")
    ev.len_map = {"pt": sym("N")}
    fi, out = rc.eval_fn("linear_fit.perpendicular_distance_points", {"pt": pt, "start": st, "end": en})
    rc.expect_equal("G-perp", fi, out.value(), _perp_ref(pt, st, en), "perpendicular_distance_points == |cross|/|end-start|")
    programs += 1
    # link: numpy.cross on 2-vectors
    _perp_link(rc)
    # *_index: the distances of exactly the sub-range
    ev = rc.new_eval()
    pts = _pt(ev, "points", True)
    left, right = ev.symbol("left"), ev.symbol("right")
    env = {"points": pts, "left": left, "right": right}
    fi, out = rc.eval_fn("linear_fit.perpendicular_distance_index", env)
    sub = rc.eval_expr(fi, "points[left:right+1]", env)
    pl = rc.eval_expr(fi, "points[left]", env)
    pr = rc.eval_expr(fi, "points[right]", env)
    rc.expect_equal("G-perp", fi, out.value(), _perp_ref(sub, pl, pr),
                    "perpendicular_distance_index == distances of points[left:right+1] to the line points[left]-points[right]")
    programs += 1
    ev = rc.new_eval()
    pts = _pt(ev, "points", True)
    ev.len_map = {"points": sym("N")}
    env = {"points": pts}
    fi, out = rc.eval_fn("linear_fit.perpendicular_distance", env)
    sub = rc.eval_expr(fi, "points[0:len(points)-1+1]", env)
    pl = rc.eval_expr(fi, "points[0]", env)
    pr = rc.eval_expr(fi, "points[len(points)-1]", env)
    rc.expect_equal("G-perp", fi, out.value(), _perp_ref(sub, pl, pr), "perpendicular_distance == *_index(points, 0, n-1)")
    programs += 1
    return programs


def _sec_iou(rc: RuleCtx) -> int:
    res = rc.res
    programs = 0
    # ---- rectangle overlap ------------------------------------------------------
    ev = rc.new_eval()
    amin, amax, bmin, bmax = (_pt(ev, n) for n in ("amin", "amax", "bmin", "bmax"))
    fi, out = rc.eval_fn("knee_ranking.rect_overlap", {"amin": amin, "amax": amax, "bmin": bmin, "bmax": bmax})
    programs += 1
    dx = anf.f_minmax("max", [C(0), anf.f_minmax("min", [amax.items[0], bmax.items[0]]) - anf.f_minmax("max", [amin.items[0], bmin.items[0]])])
    dy = anf.f_minmax("max", [C(0), anf.f_minmax("min", [amax.items[1], bmax.items[1]]) - anf.f_minmax("max", [amin.items[1], bmin.items[1]])])
    inter = dx * dy
    area_a = anf.f_abs(amax.items[0] - amin.items[0]) * anf.f_abs(amax.items[1] - amin.items[1])
    area_b = anf.f_abs(bmax.items[0] - bmin.items[0]) * anf.f_abs(bmax.items[1] - bmin.items[1])
    iou = inter / (area_a + area_b - inter)
    positive = canon_sign(inter, OPS[">"])
    ok = True
    cover = []
    for g, v in cases_of(out.value()):
        if not isinstance(v, Rat):
            ok = False
            res.violation("G-iou", fi.module, fi.name, fi.node, f"non-numeric value {v!r}", construct="iou value")
            continue
        if v.is_zero():
            # 0 may only be returned when the intersection is empty (inter <= 0 ; inter >= 0 always)
            if g_sat(g_and(g, positive)) and not g_implies(g, g_not(positive)):
                ok = False
                res.violation("G-iou", fi.module, fi.name, fi.node, f"0 is returned under {g}, which admits a non-empty intersection",
                              str(g), "intersection == 0", construct="iou zero case")
            continue
        verdict, why = judge(v, iou)
        if verdict == "equal":
            cover.append(g)
            continue
        ok = False
        if verdict == "inconclusive":
            res.error(f"INCONCLUSIVE G-iou: {why}")
        else:
            res.violation("G-iou", fi.module, fi.name, fi.node, f"value under {g} is not intersection/union ({why})",
                          _short(v), _short(iou), construct="iou formula")
    if ok and not g_implies(positive, g_or(*cover) if cover else g_not(TRUE)):
        ok = False
        res.violation("G-iou", fi.module, fi.name, fi.node, "intersection/union is not returned for every non-empty intersection",
                      str([str(g) for g in cover]), str(positive), construct="iou coverage")
    if ok:
        res.ok("G-iou", fi.qualname, "intersection/(areaA + areaB - intersection); 0 only when the intersection is empty")
        res.sample({"function": fi.qualname, "normal_form": _short(iou, 300)})
    return programs


def _sec_menger(rc: RuleCtx) -> int:
    res = rc.res
    programs = 0
    # ---- Menger -------------------------------------------------------------------
    ev = rc.new_eval()
    f_, g_, h_ = _pt(ev, "f"), _pt(ev, "g"), _pt(ev, "h")
    fi, out = rc.eval_fn("menger.menger_curvature", {"f": f_, "g": g_, "h": h_})
    programs += 1
    (fx, fy), (gx, gy), (hx, hy) = f_.items, g_.items, h_.items
    cross = (gx - fx) * (hy - fy) - (gy - fy) * (hx - fx)

    def d2(u, v):
        return (u.items[0] - v.items[0]) * (u.items[0] - v.items[0]) + (u.items[1] - v.items[1]) * (u.items[1] - v.items[1])
    want = C(2) * anf.f_abs(cross) / anf.f_sqrt(d2(f_, g_) * d2(g_, h_) * d2(h_, f_))
    val = out.value()
    good = rc.expect_equal("G-menger", fi, val, want, "menger_curvature == 2|cross|/sqrt(product of squared side lengths)")
    # symmetry under S3 (checked on the code's own normal form, independently of the reference)
    sym_ok = True
    if isinstance(val, Rat):
        names = ["f", "g", "h"]
        for perm in itertools.permutations(names):
            mapping = {}
            for src, dst in zip(names, perm):
                mapping[src + ".x"] = sym(dst + ".x")
                mapping[src + ".y"] = sym(dst + ".y")
            if not val.subst(mapping).equals(val):
                sym_ok = False
                res.violation("G-menger", fi.module, fi.name, fi.node,
                              f"menger_curvature is not invariant under the argument permutation (f,g,h)->{perm}",
                              _short(val.subst(mapping)), _short(val), construct=f"menger symmetry {perm}")
                break
        if sym_ok:
            res.ok("G-menger", fi.qualname, "normal form invariant under all 6 permutations of (f, g, h)")
    else:
        res.error("G-menger: menger_curvature does not evaluate to a single closed form")
    return programs


def _sec_rank(rc: RuleCtx) -> int:
    res = rc.res
    programs = 0
    # ---- rank ------------------------------------------------------------------------
    ev = rc.new_eval()
    arr = ev.symbol("array", True)
    fi, out = rc.eval_fn("knee_ranking.rank", {"array": arr})
    programs += 1
    _rank(rc, fi, out, arr)
    return programs


def _sec_misc(rc: RuleCtx) -> int:
    res = rc.res
    programs = 0
    # ---- misc ------------------------------------------------------------------------
    ev = rc.new_eval()
    point, points = _pt(ev, "point"), _pt(ev, "points", True)
    fi, out = rc.eval_fn("knee_ranking.distances", {"point": point, "points": points})
    want = anf.f_sqrt((points.items[0] - point.items[0]) * (points.items[0] - point.items[0])
                      + (points.items[1] - point.items[1]) * (points.items[1] - point.items[1]))
    rc.expect_equal("G-misc", fi, out.value(), want, "distances == Euclidean distance from point to each row")
    programs += 1

    ev = rc.new_eval()
    p3 = _pt(ev, "p", True)
    fi, out = rc.eval_fn("postprocessing.triangle_area", {"p": p3})
    xs = [anf.opaque("at", p3.items[0], C(i), array=False) for i in range(3)]
    ys = [anf.opaque("at", p3.items[1], C(i), array=False) for i in range(3)]
    shoelace = C(Fraction(1, 2)) * (xs[0] * (ys[1] - ys[2]) + xs[1] * (ys[2] - ys[0]) + xs[2] * (ys[0] - ys[1]))
    rc.expect_equal("G-misc", fi, out.value(), shoelace, "triangle_area == shoelace / 2 (signed)")
    programs += 1

    ev = rc.new_eval()
    arr = ev.symbol("array", True)
    fi, out = rc.eval_fn("knee_ranking.distance_to_similarity", {"array": arr})
    rc.expect_equal("G-misc", fi, out.value(), anf.opaque("amax", arr, array=False) - arr, "distance_to_similarity == max(a) - a")
    programs += 1

    ev = rc.new_eval()
    p1, p2 = _pt(ev, "p1"), _pt(ev, "p2")
    fi, out = rc.eval_fn("knee_ranking.rect", {"p1": p1, "p2": p2})
    v = out.value()
    lo = Vec([anf.f_minmax("min", [p1.items[0], p2.items[0]]), anf.f_minmax("min", [p1.items[1], p2.items[1]])], "point")
    hi = Vec([anf.f_minmax("max", [p1.items[0], p2.items[0]]), anf.f_minmax("max", [p1.items[1], p2.items[1]])], "point")
    if isinstance(v, Vec) and len(v.items) == 2 and veq(v.items[0], lo) and veq(v.items[1], hi):
        res.ok("G-misc", fi.qualname, "rect == (component-wise min, component-wise max)")
    else:
        res.violation("G-misc", fi.module, fi.name, fi.node, "rect is not (component-wise min, component-wise max)",
                      _short(v), f"({lo}, {hi})", construct="rect")
    programs += 1
    return programs


def run(ctx):
    rc = RuleCtx(ctx)
    res = ctx.result
    res.level = "translation_validation"
    res.rule("G-shortest", "shortest_distance_points == hypot(max(s, t, 0), cross) with s, t the signed parallel components w.r.t. the unit chord vector; == |p - a| when a == b")
    res.rule("G-perp", "perpendicular_distance_points == |cross(end-start, pt-start)| / |end-start|; *_index == the same on points[l:r+1]; perpendicular_distance == *_index(0, n-1)")
    res.rule("G-perp-link", "the perpendicular primitives do not call a dependency API the installed dependency rejects for 2-component rows (numpy.cross on numpy >= 2)")
    res.rule("G-iou", "rect_overlap == intersection / (area A + area B - intersection) when the intersection is non-empty, 0 otherwise")
    res.rule("G-menger", "menger_curvature == 2|cross(g-f, h-f)| / sqrt(|f-g|^2 |g-h|^2 |h-f|^2), invariant under all 6 argument permutations")
    res.rule("G-rank", "rank scatters arange(n) through argsort(array) (inverse permutation)")
    res.rule("G-misc", "distances, triangle_area (shoelace/2), distance_to_similarity (max - a), rect (component-wise min / max)")
    programs = 0
    for _sec in (_sec_shortest, _sec_perp, _sec_iou, _sec_menger, _sec_rank, _sec_misc):
        programs += _sec(rc)
    _sec_intwidth(rc)
    res.rule("N-dtype", "no primitive stores real values or positions into an array that inherits the dtype of a value argument (np.*_like(values)): the result "
                        "must not be truncated / wrapped by the dtype of the input")
    from . import detectors as _d
    _d.dtype_guard(rc, "N-dtype", ["linear_fit", "knee_ranking", "menger"])
    res.extra_coverage.update({"programs": programs, "disagreements_checked": len(res.findings)})
    res.assumptions += ["real-number reading of the formulas", "points are rows (x, y); arrays of points are treated row-wise",
                        "N-int: integer-typed inputs hold values of magnitude <= 2**29 in int64 arrays, fewer than 2**20 points",
                        "numpy element-wise / reduction semantics per kverif.npmodel"]
    res.not_decided += ["floating-point rounding", "behaviour at degenerate denominators (coincident Menger points, zero-length chord for the perpendicular distance)"]
    from .common import hidden_state as _hidden_state
    _hidden_state(rc, "H1", sorted(INT_SHAPES) + ["linear_fit.perpendicular_distance_index"], "geometric primitives")
    res.require_instances("C17 programs compared", programs, 11)


# parameter shapes of the primitives (pt: one point (x, y); pts: rows of points; arr: a vector of values) - the rule instances of N-int
INT_SHAPES = {
    "menger.menger_curvature": {"f": "pt", "g": "pt", "h": "pt"},
    "linear_fit.shortest_distance_points": {"p": "pts", "a": "pt", "b": "pt"},
    "linear_fit.perpendicular_distance_points": {"pt": "pts", "start": "pt", "end": "pt"},
    "linear_fit.perpendicular_distance": {"points": "pts"},
    "knee_ranking.distances": {"point": "pt", "points": "pts"},
    "knee_ranking.rect_overlap": {"amin": "pt", "amax": "pt", "bmin": "pt", "bmax": "pt"},
    "knee_ranking.rect": {"p1": "pt", "p2": "pt"},
    "knee_ranking.rank": {"array": "arr"},
    "knee_ranking.distance_to_similarity": {"array": "arr"},
    "postprocessing.triangle_area": {"p": "pts"},
}


def _int_source(iw, s: str):
    """pt / pts / arr: integer-typed coordinates; idx: positions; float: a real-valued array (fitted values); coef: (b, m) reals."""
    if s == "idx":
        return iw.index("arr")
    if s == "float":
        return iw.V("F", None, "arr")
    if s == "coef":
        return iw.V("T", None, None, (iw.V("F", None, "sc"), iw.V("F", None, "sc")))
    return iw.coord(s)


def _sec_intwidth(rc: RuleCtx, rule: str = "N-int", table=None):
    """With an integer-typed curve every + - * ** between integer operands is 64-bit integer arithmetic that wraps around
    silently: the primitives must do their products in floating point (or keep the integer intermediates small)."""
    from .. import intwidth as iw
    res = rc.res
    res.rule(rule, "no primitive computes, in integer arithmetic, an intermediate that can exceed 2**63 - 1 for integer inputs of magnitude <= 2**29 "
                   "(magnitude analysis: float is contagious, a+b adds the bounds, a*b multiplies them, a**k raises them; package calls analysed in context)")
    an = iw.Analyzer(rc.repo, rc.lk)
    done = 0
    for q, shapes in (table or INT_SHAPES).items():
        fi = rc.func(q)
        missing = [p for p in shapes if p not in fi.signature.positional]
        if missing:
            raise AnalysisError(f"{q}: parameter(s) {missing} of the N-int table no longer exist - shape not recognised")
        n0 = len(an.findings)
        an.function(fi, {p: _int_source(iw, s) for p, s in shapes.items()})
        done += 1
        if len(an.findings) == n0:
            res.ok(rule, q, "every integer-kinded intermediate stays below 2**63 for 30-bit inputs (or the arithmetic is done in floating point)")
    for f in an.findings:
        res.violation(rule, f.fi.module, f.fi.name, f.node,
                      f"{' -> '.join(f.chain)}: `{ast.unparse(f.node)[:90]}` is computed in integer arithmetic when the points come from an integer-typed array, "
                      f"and can reach about 2**{f.v.mag.bit_length() - 1} for coordinates of magnitude 2**29: the int64 result wraps around silently",
                      f"integer intermediate up to 2**{f.v.mag.bit_length() - 1}", "products of coordinate differences taken in floating point (float(), a float "
                      "exponent, math.fabs, a float factor first) or bounded below 2**63", construct=f"integer width {f.fi.qualname}")
    res.analysed["intwidth"] = {"functions": done, "integer_operations": an.ops_int, "float_operations": an.ops_float,
                                "calls_not_followed": dict(sorted(an.unknown_calls.items()))}
    if an.ops_int + an.ops_float < 20 and table is None:
        raise AnalysisError(f"N-int: only {an.ops_int + an.ops_float} arithmetic operations were seen in {done} primitives - the analysis no longer reaches the code")


def _perp_link(rc: RuleCtx):
    """numpy.cross raises for 2-component vectors in numpy >= 2.0: no call reachable from
    the perpendicular primitives may resolve to it (rows are 2-component points)."""
    res = rc.res
    np = deps.import_dep("numpy")
    ver = tuple(int(x) for x in np.__version__.split(".")[:2])
    rejects = ver >= (2, 0)
    todo = ["linear_fit.perpendicular_distance_points", "linear_fit.perpendicular_distance_index", "linear_fit.perpendicular_distance"]
    seen = set()
    n = 0
    while todo:
        q = todo.pop()
        if q in seen:
            continue
        seen.add(q)
        fi = rc.func(q)
        for call in [c for c in ast.walk(fi.node) if isinstance(c, ast.Call)]:
            r = rc.lk.resolve(fi.module, call.func)
            if r.kind == "func":
                todo.append(r.obj.qualname)
            elif r.kind == "dep" and r.obj is getattr(np, "cross", None):
                n += 1
                if rejects:
                    res.violation("G-perp-link", fi.module, fi.name, call,
                                  f"numpy.cross is applied to 2-component points; installed numpy {np.__version__} raises ValueError for 2-vectors",
                                  "np.cross(...)", "a 2-D cross product the dependency accepts (e.g. the module's cross2d)")
    if n == 0:
        res.ok("G-perp-link", "linear_fit.perpendicular_distance*", f"no numpy.cross call reachable ({len(seen)} functions, numpy {np.__version__})")
    rc.res.analysed["numpy_version"] = np.__version__


def _rank(rc: RuleCtx, fi, out, arr):
    res = rc.res
    stores = [e for e in out.events if e.kind == "store"]
    ret = [st for st in ast.walk(fi.node) if isinstance(st, ast.Return)]
    if len(ret) != 1 or not isinstance(ret[0].value, ast.Name):
        # a directly returned expression: two idioms are known, one right and one wrong
        val = out.value()
        a = single_atom(val) if isinstance(val, Rat) else None
        if a is not None and a.name in ("argsort", "np.argsort") and a.args:
            b = single_atom(a.args[0])
            if b is not None and b.name in ("argsort", "np.argsort") and b.args and b.args[0].equals(arr):
                res.ok("G-rank", fi.qualname, "argsort(argsort(array)): the inverse permutation of argsort")
                return
        if a is not None and a.name.endswith("searchsorted") and len(a.args) >= 2 and a.args[1].equals(arr):
            b = single_atom(a.args[0])
            if b is not None and b.name.endswith("sort") and b.args and b.args[0].equals(arr):
                res.violation("G-rank", fi.module, fi.name, fi.node,
                              "rank is the insertion position in the sorted values (searchsorted(sort(a), a)): equal values all get the same, lowest, rank - "
                              "the result is not a permutation of 0..n-1 when the scores tie", _short(val, 120), "ranks[argsort(array)] = arange(len(array))",
                              construct="rank by searchsorted")
                return
        res.error("G-rank: rank() no longer returns a single named array - shape not recognised")
        return
    rname = ret[0].value.id
    mine = [e for e in stores if e.target == rname]
    ok = False
    why = "no scatter store into the returned array"
    for e in mine:
        idx, val = e.args
        if not isinstance(idx, Rat) or not isinstance(val, Rat):
            continue
        ia = [a for a in idx.all_atoms() if a.kind == "fn" and a.name in ("argsort", "np.argsort")]
        va = [a for a in val.all_atoms() if a.kind == "fn" and a.name == "np.arange"]
        if ia and va and ia[0].args and ia[0].args[0].equals(arr) and idx.equals(Rat.from_atom(ia[0])) and val.equals(Rat.from_atom(va[0])):
            n_arg = va[0].args[0] if va[0].args else None
            if n_arg is not None and len(va[0].args) == 1 and n_arg.equals(rc.ev.length_of(arr)):
                ok = True
            else:
                why = "the scattered values are not arange(len(array))"
        else:
            why = "the scatter is not ranks[argsort(array)] = arange(len(array))"
    if ok and len(mine) == 1:
        res.ok("G-rank", fi.qualname, "ranks[argsort(array)] = arange(len(array))")
    else:
        res.violation("G-rank", fi.module, fi.name, fi.node, f"rank is not the inverse permutation of argsort: {why}",
                      str(mine), "ranks[argsort(array)] = arange(len(array))", construct="rank scatter")
