"""C10 -- Z-method knees are valid, height-ordered and mutually separated (structural part).

Z1  at both exclusion sites the keep-mask implies |x - bx| >= W and |y - by| >= H
    (a conjunction of two disjunctions over x {<=,<} bx-W, x {>=,>} bx+W, and the same in y).
Z2  a candidate is selected only if |by - y_sel| {>=,>} H for every already selected point.
Z3  the final sweep visits the selected x values in ascending order and deletes a knee iff its
    height {>,>=} the running minimum (updated on keep).
Z4  W == max(1, int(x_max * dx)), H == (y_max - y_min) * dy; x_max defaults to len(points), the
    y range to the curve's own range.
Z5  x values are mapped back to indices with searchsorted on the x column.
Termination and the iteration bound are NOT decided (they depend on numpy boolean-mask
semantics over runtime data).
"""

from __future__ import annotations

import ast

from .. import AnalysisError, anf
from ..anf import Rat, sym
from ..guards import (G, TRUE, FALSE, g_and, g_not, g_or, g_equiv, g_implies, g_sat, compare, canon_sign, OPS)
from ..gvn import Frame, Obj, PW, Vec, cases_of, veq, mk_pw, Unsupported
from ..model import keep
from .common import RuleCtx, _short

C = Rat.const


def _eval(rc: RuleCtx, fi, node, env):
    fr = Frame(rc.ev, fi, 0)
    return fr.expr(node, dict(env))


def run(ctx):
    rc = RuleCtx(ctx)
    res = ctx.result
    res.level = "other"
    for k, v in {"Z1": "keep-mask at each exclusion site implies (x <= bx-W or x >= bx+W) and (y <= by-H or y >= by+H)",
                 "Z2": "selection guarded by all(|by - y_i| >= H for selected y_i)",
                 "Z3": "sweep over sorted keys: delete iff height > running minimum; minimum updated on keep",
                 "Z4": "W == max(1, int(x_max*dx)); H == (y_max - y_min)*dy; defaults len(points) / curve range",
                 "Z5": "map_index == sort_idx[searchsorted(a, b, sorter=sort_idx)] applied to the x column and the selected x values"}.items():
        res.rule(k, v)
    fi = rc.func("zmethod.getPoints")
    mod = fi.module
    ev = rc.new_eval()
    rc.ev = ev
    # ---- Z4 ----------------------------------------------------------------------
    pts = ev.point("points", True)
    ev.len_map = {"points": sym("n")}
    dx, dy, dz = ev.symbol("dx"), ev.symbol("dy"), ev.symbol("dz")
    loops = [st for st in fi.node.body if isinstance(st, ast.While)]
    if len(loops) != 1:
        raise AnalysisError("zmethod.getPoints: expected one main while loop")
    main = loops[0]
    k = fi.node.body.index(main)
    for xm, yr, label in ((Obj("none"), Obj("none"), "defaults"), (ev.symbol("x_max"), Vec([ev.symbol("yr0"), ev.symbol("yr1")], "list"), "overrides")):
        env = {"points": pts, "dx": dx, "dy": dy, "dz": dz, "plot": FALSE, "x_max": xm, "y_range": yr}
        fr = Frame(ev, fi, 0)
        # evaluate the prologue up to (not including) the statement that re-binds `points`
        pro = []
        for st in fi.node.body[:k]:
            if isinstance(st, ast.Assign) and any(isinstance(t, ast.Name) and t.id == "points" for t in st.targets):
                break
            pro.append(st)
        try:
            fr.block(pro, env, TRUE)
        except Unsupported as e:
            raise AnalysisError(f"zmethod.getPoints: prologue not modelled: {e}")
        W, H = env.get("x_width"), env.get("y_height")
        if label == "defaults":
            xmax_v, ymax_v, ymin_v = sym("n"), anf.opaque("amax", pts.items[1], array=False), anf.opaque("amin", pts.items[1], array=False)
        else:
            # a truthy override is used as is (x_max = x_max if x_max else len(points))
            xmax_v, ymax_v, ymin_v = sym("x_max"), sym("yr0"), sym("yr1")
        want_W = anf.f_minmax("max", [C(1), anf.opaque("int", xmax_v * dx, array=False)])
        want_H = (ymax_v - ymin_v) * dy
        okW = any(isinstance(v, Rat) and v.equals(want_W) for _g, v in cases_of(W)) if W is not None else False
        if label == "overrides" and isinstance(W, PW):
            # the override is used when truthy, the default otherwise
            okW = all((isinstance(v, Rat) and (v.equals(want_W) or v.equals(anf.f_minmax("max", [C(1), anf.opaque("int", sym("n") * dx, array=False)])))) for _g, v in cases_of(W))
        okH = isinstance(H, Rat) and H.equals(want_H)
        if okW and okH:
            res.ok("Z4", f"zmethod.getPoints[{label}]", f"W == max(1, int({xmax_v}*dx)); H == ({_short(ymax_v, 30)} - {_short(ymin_v, 30)})*dy")
        else:
            res.violation("Z4", mod, fi.name, fi.node, f"[{label}] the separation widths are not W = max(1, int(x_max*dx)) and H = (y_max - y_min)*dy",
                          f"W = {_short(W, 120)}; H = {_short(H, 120)}", f"W = {_short(want_W, 80)}; H = {_short(want_H, 80)}", construct=f"widths {label}")
    # ---- Z1: exclusion sites --------------------------------------------------------
    sites = []
    for st in ast.walk(main):
        if isinstance(st, ast.Assign) and len(st.targets) == 1 and isinstance(st.targets[0], ast.Name) and st.targets[0].id == "points" \
                and isinstance(st.value, ast.Subscript) and isinstance(st.value.value, ast.Name) and st.value.value.id == "points":
            sites.append(st)
    p3 = Vec([ev.symbol("p.x", True), ev.symbol("p.y", True), ev.symbol("p.z", True)], "point")
    best = Vec([ev.symbol("b.x"), ev.symbol("b.y"), ev.symbol("b.z")], "point")
    Wv, Hv = ev.symbol("W"), ev.symbol("H")
    x, y, bx, by = p3.items[0], p3.items[1], best.items[0], best.items[1]
    ref_x = g_or(compare("<=", x, bx - Wv), compare(">=", x, bx + Wv))
    ref_y = g_or(compare("<=", y, by - Hv), compare(">=", y, by + Hv))
    ref = g_and(ref_x, ref_y)
    n_ok = 0
    for st in sites:
        idx = st.value.slice
        mask = idx.args[0] if isinstance(idx, ast.Call) and ast.unparse(idx.func) in ("np.where", "numpy.where") and len(idx.args) == 1 else idx
        env = {"points": p3, "outlier_best": best, "x_width": Wv, "y_height": Hv}
        try:
            g = _eval(rc, fi, mask, env)
        except Unsupported as e:
            raise AnalysisError(f"zmethod.getPoints: exclusion mask not modelled: {e}")
        if not isinstance(g, G):
            res.violation("Z1", mod, fi.name, st, "the points kept after a selection are not chosen by a boolean band mask", _short(g), str(ref), construct="exclusion mask form")
            continue
        if g_implies(g, ref):
            n_ok += 1
            res.ok("Z1", f"zmethod.getPoints:site@{'single' if n_ok == 1 else 'multi'}", "kept points lie outside the selected point's x band and y band")
        else:
            missing = "x band" if g_implies(g, ref_y) else ("y band" if g_implies(g, ref_x) else "x and y bands")
            res.violation("Z1", mod, fi.name, st,
                          f"after a knee is selected, points inside its {missing} stay eligible: two reported knees can be closer than (W, H)",
                          _short(g, 300), _short(ref, 300), construct=f"exclusion mask {ast.unparse(st.value)[:60]}")
    if len(sites) < 2:
        res.error(f"Z1: expected 2 exclusion sites in getPoints, found {len(sites)}")
    # ---- Z2: selection guard ------------------------------------------------------------
    sel_sites = []
    for st in ast.walk(main):
        if isinstance(st, ast.If) and any(isinstance(b, ast.Assign) and isinstance(b.targets[0], ast.Name) and b.targets[0].id == "outlier_points" for b in st.body):
            sel_sites.append(st)
    sel_ok = 0
    for st in sel_sites:
        t = st.test
        good = False
        if isinstance(t, ast.Call) and isinstance(t.func, ast.Name) and t.func.id == "all" and len(t.args) == 1 and isinstance(t.args[0], ast.GeneratorExp):
            gen = t.args[0]
            if len(gen.generators) == 1 and isinstance(gen.generators[0].target, ast.Name) and not gen.generators[0].ifs \
                    and ast.unparse(gen.generators[0].iter).replace(" ", "") == "outlier_points[:,1]":
                iv = gen.generators[0].target.id
                yi = ev.symbol("y_sel")
                env = {"outlier_best": best, "y_height": Hv, iv: yi}
                g = _eval(rc, fi, gen.elt, env)
                want_a = canon_sign(anf.f_abs(by - yi) - Hv, OPS[">="])
                want_b = canon_sign(anf.f_abs(by - yi) - Hv, OPS[">"])
                if isinstance(g, G) and (g_equiv(g, want_a) or g_equiv(g, want_b)):
                    good = True
        if good:
            sel_ok += 1
            res.ok("Z2", f"zmethod.getPoints:select#{sel_ok}", "selected only if |by - y| >= H for every selected y")
        else:
            res.violation("Z2", mod, fi.name, st, "a candidate can be selected although it is closer than H in y to an already selected knee",
                          ast.unparse(t)[:160], "all(abs(outlier_best[1] - i) >= y_height for i in outlier_points[:, 1])", construct="selection guard")
    if len(sel_sites) < 2:
        res.error(f"Z2: expected 2 selection sites in getPoints, found {len(sel_sites)}")
    # ---- Z3: final sweep --------------------------------------------------------------------
    post = fi.node.body[k + 1:]
    sweeps = [st for st in post if isinstance(st, ast.For)]
    if len(sweeps) != 1:
        res.error("Z3: final sweep loop not found")
    else:
        sw = sweeps[0]
        # keys ascending
        keys_ok = False
        for st in post:
            if isinstance(st, ast.Assign) and isinstance(st.targets[0], ast.Name) and isinstance(sw.iter, ast.Name) and st.targets[0].id == sw.iter.id:
                txt = ast.unparse(st.value).replace(" ", "")
                if "sorted(outlier_points.keys())" in txt and "reverse" not in txt:
                    keys_ok = True
        kv = ev.symbol("h")      # height of the current key
        mn = ev.symbol("outlier_min_mr")
        ok = False
        if len(sw.body) == 1 and isinstance(sw.body[0], ast.If):
            br = sw.body[0]
            env = {"outlier_min_mr": mn}
            # replace outlier_points[k] by the symbol h
            import copy

            class Sub(ast.NodeTransformer):
                def visit_Subscript(self, node):
                    if isinstance(node.value, ast.Name) and node.value.id == "outlier_points":
                        return ast.copy_location(ast.Name(id="__h", ctx=ast.Load()), node)
                    return self.generic_visit(node)
            test = keep(Sub().visit(copy.deepcopy(br.test)))
            ast.fix_missing_locations(test)
            for n in ast.walk(test):
                mod.node_scope[id(n)] = fi.scope
            env["__h"] = kv
            g = _eval(rc, fi, test, env)
            dels = [b for b in br.body if isinstance(b, ast.Delete)]
            upd = [b for b in br.orelse if isinstance(b, ast.Assign) and isinstance(b.targets[0], ast.Name) and b.targets[0].id == "outlier_min_mr"
                   and "outlier_points" in ast.unparse(b.value)]
            want_a = canon_sign(kv - mn, OPS[">"])
            want_b = canon_sign(kv - mn, OPS[">="])
            if isinstance(g, G) and (g_equiv(g, want_a) or g_equiv(g, want_b)) and len(dels) == 1 and len(br.body) == 1 and len(upd) == 1 and len(br.orelse) == 1:
                ok = True
        if ok and keys_ok:
            res.ok("Z3", "zmethod.getPoints:sweep", "ascending x; delete iff height > running minimum; minimum <- height on keep => heights non-increasing")
        else:
            res.violation("Z3", mod, fi.name, sw, "the final sweep does not delete exactly the knees that are higher than a knee to their left (ascending x, running minimum updated on keep)",
                          ast.unparse(sw)[:200], "for k in sorted(keys): if h[k] > min: del h[k] else: min = h[k]", construct="final sweep")
    # ---- Z5 ------------------------------------------------------------------------------------
    fm = rc.func("zmethod.map_index")
    ev2 = rc.new_eval()
    a, b = ev2.symbol("a", True), ev2.symbol("b", True)
    out = ev2.eval_function(fm, {"a": a, "b": b})
    val = out.value()
    srt = anf.opaque("np.argsort", a, array=True)
    want = anf.opaque("take", srt, anf.opaque("np.searchsorted", a, b, srt, array=True, extra=("sorter",)), array=True)
    if isinstance(val, Rat) and val.equals(want):
        res.ok("Z5", "zmethod.map_index", "sort_idx[np.searchsorted(a, b, sorter=sort_idx)] with sort_idx = argsort(a)")
    else:
        res.violation("Z5", fm.module, fm.name, fm.node, "map_index is not sort_idx[searchsorted(a, b, sorter=sort_idx)]", _short(val, 200), _short(want, 200), construct="map_index")
    fk = rc.func("zmethod.knees")
    ev3 = rc.new_eval()
    ev3.no_inline |= {"zmethod.map_index"}
    p2 = ev3.point("points", True)
    args = {"points": p2}
    for p in fk.signature.positional[1:]:
        args[p] = ev3.symbol(p)
    out = ev3.eval_function(fk, args)
    val = out.value()
    good = False
    if isinstance(val, Rat):
        for at in val.all_atoms():
            if at.kind == "fn" and at.name == "call:zmethod.map_index":
                amap = dict(zip(at.extra or (), at.args))
                if amap.get("a") is not None and amap["a"].equals(p2.items[0]) and any(x.name == "call:zmethod.getPoints" for x in amap.get("b", C(0)).all_atoms()):
                    good = True
    if good:
        res.ok("Z5", "zmethod.knees", "returns map_index(points[:, 0], getPoints(...))")
    else:
        res.violation("Z5", fk.module, fk.name, fk.node, "the selected x values are not converted to indices of the x column", _short(val, 200),
                      "map_index(points[:, 0], np.array(getPoints(...)))", construct="knees mapping")
    res.assumptions += ["strictly increasing non-negative integer x, y in [0, 1], dx, dy, dz > 0", "W, H >= 0"]
    res.not_decided += ["termination and the iteration bound of the selection loop (needs: points_added > 0 => len(points) decreases - a fact about numpy masks on runtime data)",
                        "x-separation among same-round candidates", "validity for non-integer x"]
    res.require_instances("C10 obligations", len(res.obligations), 9)
