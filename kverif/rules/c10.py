"""C10 -- Z-method knees are valid, height-ordered and mutually separated (structural part).

Z1  at both exclusion sites the keep-mask implies |x - bx| >= W and |y - by| >= H
    (a conjunction of two disjunctions over x {<=,<} bx-W, x {>=,>} bx+W, and the same in y).
Z2  a candidate is selected only if |by - y_sel| {>=,>} H for every already selected point.
Z3  the final sweep visits the selected x values in ascending order and deletes a knee iff its
    height {>,>=} the running minimum (updated on keep).
Z4  W == max(1, int(x_max * dx)), H == (y_max - y_min) * dy; x_max defaults to len(points), the
    y range to the curve's own range.
Z5  x values are mapped back to indices with searchsorted on the x column.
Termination and the iteration bound are NOT decided (they depend on numpy boolean-mask
semantics over runtime data).
"""

from __future__ import annotations

import ast

from .. import AnalysisError, anf
from ..anf import Rat, sym
from ..guards import (G, TRUE, FALSE, g_and, g_not, g_or, g_equiv, g_implies, g_sat, compare, canon_sign, OPS)
from ..gvn import Frame, Obj, PW, Vec, cases_of, veq, mk_pw, Unsupported
from ..model import keep
from .common import RuleCtx, _short, stored_names

C = Rat.const


def _eval(rc: RuleCtx, fi, node, env):
    fr = Frame(rc.ev, fi, 0)
    return fr.expr(node, dict(env))


def run(ctx):
    rc = RuleCtx(ctx)
    res = ctx.result
    res.level = "other"
    for k, v in {"Z1": "keep-mask at each exclusion site implies (x <= bx-W or x >= bx+W) and (y <= by-H or y >= by+H)",
                 "Z2": "selection guarded by all(|by - y_i| >= H for selected y_i)",
                 "Z3": "sweep over sorted keys: delete iff height > running minimum; minimum updated on keep",
                 "Z4": "W == max(1, int(x_max*dx)); H == (y_max - y_min)*dy; defaults len(points) / curve range",
                 "Z5": "map_index == sort_idx[searchsorted(a, b, sorter=sort_idx)] applied to the x column and the selected x values"}.items():
        res.rule(k, v)
    fi = rc.func("zmethod.getPoints")
    mod = fi.module
    ev = rc.new_eval()
    rc.ev = ev
    pts = ev.point("points", True)
    ev.len_map = {"points": sym("n")}
    dx, dy, dz = ev.symbol("dx"), ev.symbol("dy"), ev.symbol("dz")
    loops = [st for st in fi.node.body if isinstance(st, ast.While)]
    if len(loops) != 1:
        raise AnalysisError("zmethod.getPoints: expected one main while loop")
    main = loops[0]
    k = fi.node.body.index(main)
    # the prologue up to (not including) the statement that builds the (x, y, z-score) working array
    pro = []
    arr_name = None
    for st in fi.node.body[:k]:
        if isinstance(st, ast.Assign) and isinstance(st.value, ast.Call) and ast.unparse(st.value.func) in ("np.column_stack", "numpy.column_stack") \
                and len(st.targets) == 1 and isinstance(st.targets[0], ast.Name):
            arr_name = st.targets[0].id
            break
        pro.append(st)
    if arr_name is None:
        raise AnalysisError("zmethod.getPoints: the working array np.column_stack((points, z-scores)) was not found")
    # exclusion sites: the working array re-bound to a filtered version of itself inside the main loop
    sites = []
    for st in ast.walk(main):
        if isinstance(st, ast.Assign) and len(st.targets) == 1 and isinstance(st.targets[0], ast.Name) and st.targets[0].id == arr_name \
                and any(isinstance(n, ast.Name) and n.id == arr_name for n in ast.walk(st.value)):
            sites.append(st)
    # selection sites: the collection of selected knees re-bound to np.append(<itself>, ...) inside the main loop
    blocks = {}
    for n in ast.walk(main):
        for fld in ("body", "orelse", "finalbody"):
            blk = getattr(n, fld, None)
            if isinstance(blk, list):
                for b in blk:
                    blocks[id(b)] = (n, blk)
    selections = [b for b in ast.walk(main) if isinstance(b, ast.Assign) and isinstance(b.targets[0], ast.Name) and isinstance(b.value, ast.Call)
                  and ast.unparse(b.value.func) in ("np.append", "numpy.append", "np.vstack", "numpy.vstack", "np.concatenate", "numpy.concatenate")
                  and any(isinstance(n, ast.Name) and n.id == b.targets[0].id for n in ast.walk(b.value))]
    # ... of the loop-carried collection that is read after the loop (a per-iteration scratch collection, re-created inside
    # the loop, is not the selection)
    def _carried(name):
        for n in ast.walk(main):
            if isinstance(n, ast.Assign) and any(isinstance(t, ast.Name) and t.id == name for t in n.targets) \
                    and not any(isinstance(x, ast.Name) and x.id == name for x in ast.walk(n.value)):
                return False
        return any(isinstance(x, ast.Name) and x.id == name and isinstance(x.ctx, ast.Load) for st_ in fi.node.body[k + 1:] for x in ast.walk(st_))
    selections = [b for b in selections if _carried(b.targets[0].id)]
    if not selections:
        raise AnalysisError("zmethod.getPoints: no statement adds a point to the selection inside the main loop - shape not recognised")
    if not sites:
        raise AnalysisError("zmethod.getPoints: no statement filters the working array inside the main loop - shape not recognised")
    for b in selections:
        owner, blk = blocks[id(b)]
        if not any(x in sites for x in blk):
            res.violation("Z1", mod, fi.name, b, "a knee is selected but the points near it are not removed from the working array in the same step: "
                          "a later knee can be selected inside its (W, H) neighbourhood", ast.unparse(b)[:120],
                          f"{arr_name} = {arr_name}[outside the x band & outside the y band] next to every selection", construct="selection without exclusion")
    res.analysed["selection_sites"] = len(selections)
    res.analysed["exclusion_sites"] = len(sites)
    p3 = Vec([ev.symbol("p.x", True), ev.symbol("p.y", True), ev.symbol("p.z", True)], "point")
    best = Vec([ev.symbol("b.x"), ev.symbol("b.y"), ev.symbol("b.z")], "point")
    x, y, bx, by = p3.items[0], p3.items[1], best.items[0], best.items[1]
    for xm, yr, label in ((Obj("none"), Obj("none"), "defaults"), (ev.symbol("x_max"), Vec([ev.symbol("yr0"), ev.symbol("yr1")], "list"), "overrides")):
        env = {"points": pts, "dx": dx, "dy": dy, "dz": dz, "plot": FALSE, "x_max": xm, "y_range": yr}
        fr = Frame(ev, fi, 0)
        try:
            fr.block(pro, env, TRUE)
        except Unsupported as e:
            raise AnalysisError(f"zmethod.getPoints: prologue not modelled: {e}")
        if label == "defaults":
            xmax_v, ymax_v, ymin_v = sym("n"), anf.opaque("amax", pts.items[1], array=False), anf.opaque("amin", pts.items[1], array=False)
        else:
            xmax_v, ymax_v, ymin_v = sym("x_max"), sym("yr0"), sym("yr1")
        want_W = anf.f_minmax("max", [C(1), anf.opaque("int", xmax_v * dx, array=False)])
        want_H = (ymax_v - ymin_v) * dy
        # Z1 + Z4 together: the masks, evaluated with the prologue's own values for every name they use, must
        # imply the two bands with exactly W = max(1, int(x_max*dx)) and H = (y_max - y_min)*dy
        ref_x = g_or(compare("<=", x, bx - want_W), compare(">=", x, bx + want_W))
        ref_y = g_or(compare("<=", y, by - want_H), compare(">=", y, by + want_H))
        ref = g_and(ref_x, ref_y)
        for n_site, st in enumerate(sites, 1):
            names = {n.id for n in ast.walk(st.value) if isinstance(n, ast.Name)}
            helper_names = {c.func.id for c in ast.walk(st.value) if isinstance(c, ast.Call) and isinstance(c.func, ast.Name)}
            unknown = sorted(n for n in names if n not in env and n not in ("np", "numpy", arr_name) and n not in helper_names)
            if len(unknown) != 1:
                raise AnalysisError(f"zmethod.getPoints: exclusion site uses {unknown}; expected exactly one name for the selected point")
            menv = {}
            for nme in names:
                if nme in env:
                    v = env[nme]
                    # a piecewise width (truthy override / default): take the case that applies to this configuration
                    if isinstance(v, PW):
                        picks = [c for g_, c in v.cases if (label == "overrides") == ("truthy" in repr(g_) and g_.kind != "not")]
                        v = picks[0] if picks else v.cases[0][1]
                    menv[nme] = v
            menv[arr_name] = p3
            menv[unknown[0]] = best
            try:
                val = _eval(rc, fi, st.value, menv)
            except Unsupported as e:
                raise AnalysisError(f"zmethod.getPoints: exclusion site not modelled: {e}")
            # the filtered array: every column is mask(<column>, <boolean>) with one common boolean
            g = None
            if isinstance(val, Vec) and val.items and all(isinstance(c, Rat) for c in val.items):
                keys = set()
                for c, col in zip(val.items, p3.items):
                    a_ = c.atoms()
                    if len(a_) == 1 and a_[0].kind == "fn" and a_[0].name == "mask" and a_[0].args[0].equals(col) and c.equals(Rat.from_atom(a_[0])):
                        b_ = a_[0].args[1].atoms()
                        if len(b_) == 1 and b_[0].name == "bool":
                            keys.add(b_[0].extra)
                if len(keys) == 1:
                    g = ev.bool_registry.get(next(iter(keys)))
            if not isinstance(g, G):
                raise AnalysisError("zmethod.getPoints: an exclusion site does not filter the working array with one boolean mask - shape not recognised")
            if g_implies(g, ref):
                res.ok("Z1", f"zmethod.getPoints:site{n_site}[{label}]",
                       f"kept points lie outside the x band (W = max(1, int({xmax_v}*dx))) and the y band (H = ({_short(ymax_v, 24)} - {_short(ymin_v, 24)})*dy) of the selected point")
                res.ok("Z4", f"zmethod.getPoints:site{n_site}[{label}]", "band widths are W = max(1, int(x_max*dx)) and H = (y_max - y_min)*dy")
            else:
                # which part fails: the band structure (checked with the code's own widths) or the widths themselves?
                scal = [v for nme, v in menv.items() if isinstance(v, Rat) and not v.is_array() and nme not in ("points", unknown[0])]
                structure_ok = False
                for wc in scal:
                    for hc in scal:
                        rx = g_or(compare("<=", x, bx - wc), compare(">=", x, bx + wc))
                        ry = g_or(compare("<=", y, by - hc), compare(">=", y, by + hc))
                        if g_implies(g, g_and(rx, ry)):
                            structure_ok = True
                            found_w, found_h = wc, hc
                if structure_ok:
                    res.violation("Z4", mod, fi.name, st,
                                  f"[{label}] the separation widths are not W = max(1, int(x_max*dx)) and H = (y_max - y_min)*dy",
                                  f"W = {_short(found_w, 100)}; H = {_short(found_h, 100)}", f"W = {_short(want_W, 80)}; H = {_short(want_H, 80)}", construct=f"widths {label}")
                else:
                    missing = "x band" if g_implies(g, ref_y) else ("y band" if g_implies(g, ref_x) else "x and y bands")
                    res.violation("Z1", mod, fi.name, st,
                                  f"[{label}] after a knee is selected, points inside its {missing} stay eligible: two reported knees can be closer than (W, H)",
                                  _short(g, 300), _short(ref, 300), construct=f"exclusion mask site{n_site}")
    # ---- Z2: selection guard ------------------------------------------------------------
    sel_ok = 0
    n_sel = 0
    fr = Frame(ev, fi, 0)
    env = {"points": pts, "dx": dx, "dy": dy, "dz": dz, "plot": FALSE, "x_max": Obj("none"), "y_range": Obj("none")}
    fr.block(pro, env, TRUE)
    H0 = (anf.opaque("amax", pts.items[1], array=False) - anf.opaque("amin", pts.items[1], array=False)) * dy
    for st in ast.walk(main):
        if not (isinstance(st, ast.If) and any(b in selections for b in st.body)):
            continue
        n_sel += 1
        # the collection of selected points: the name that receives np.append(<itself>, ...) in this body
        sel_names = [b.targets[0].id for b in st.body if isinstance(b, ast.Assign) and isinstance(b.targets[0], ast.Name) and isinstance(b.value, ast.Call)
                     and ast.unparse(b.value.func) in ("np.append", "numpy.append") and b.value.args and isinstance(b.value.args[0], ast.Name)
                     and b.value.args[0].id == b.targets[0].id]
        names = {n.id for n in ast.walk(st.test) if isinstance(n, ast.Name)}
        helper_names = {c.func.id for c in ast.walk(st.test) if isinstance(c, ast.Call) and isinstance(c.func, ast.Name)}
        others = sorted(n for n in names if n not in env and n not in helper_names and n not in sel_names and n not in ("np", "numpy", "abs", "all"))
        good = False
        why = "the guard is not all(|best.y - y_i| >= H for the selected y_i)"
        if len(sel_names) == 1 and len(others) <= 2:
            sel = Vec([ev.symbol("sel.x", True), ev.symbol("sel.y", True)], "point")
            genv = {n: env[n] for n in names if n in env}
            genv[sel_names[0]] = sel
            # the selected candidate: the remaining unknown name(s) (the comprehension variable is bound by the evaluator)
            comp_vars = {g_.target.id for c in ast.walk(st.test) if isinstance(c, (ast.GeneratorExp, ast.ListComp)) for g_ in c.generators if isinstance(g_.target, ast.Name)}
            cand_names = [n for n in others if n not in comp_vars]
            if len(cand_names) == 1:
                genv[cand_names[0]] = best
                try:
                    g = fr.truth(_eval(rc, fi, st.test, genv))
                except Unsupported as e:
                    raise AnalysisError(f"zmethod.getPoints: selection guard not modelled: {e}")
                items = g.a if g.kind == "and" else (g,)
                for x_ in items:
                    if x_.kind == "atom" and isinstance(x_.a, tuple) and x_.a and x_.a[0] == "quantified":
                        kind_, itv, elem, cond = ev.comp_registry[x_.a[1]]
                        want_a = canon_sign(anf.f_abs(by - elem) - H0, OPS[">="])
                        want_b = canon_sign(anf.f_abs(by - elem) - H0, OPS[">"])
                        if kind_ == "all" and isinstance(itv, Rat) and itv.equals(sel.items[1]) and (g_equiv(cond, want_a) or g_equiv(cond, want_b)):
                            good = True
                        elif kind_ == "all" and not (isinstance(itv, Rat) and itv.equals(sel.items[1])):
                            why = "the guard does not range over the heights of the already selected points"
        if good:
            sel_ok += 1
            res.ok("Z2", f"zmethod.getPoints:select#{sel_ok}", "selected only if |by - y| >= H for every selected y")
        else:
            res.violation("Z2", mod, fi.name, st, "a candidate can be selected although it is closer than H in y to an already selected knee: " + why,
                          ast.unparse(st.test)[:160], "all(abs(best.y - y_i) >= H for y_i in <selected>[:, 1])", construct="selection guard")
    for b in selections:
        owner, blk = blocks[id(b)]
        if not (isinstance(owner, ast.If) and blk is owner.body):
            res.violation("Z2", mod, fi.name, b, "a candidate is added to the selection without the height test against the already selected knees",
                          ast.unparse(b)[:120], "if all(abs(best.y - y_i) >= H for y_i in <selected>[:, 1]): <select>", construct="unguarded selection")
    # ---- Z3: final sweep --------------------------------------------------------------------
    post = fi.node.body[k + 1:]
    # the sweep: the loop after the selection that deletes from a container (another loop may build that container)
    sweeps = [st for st in post if isinstance(st, ast.For) and any(isinstance(n, ast.Delete) for n in ast.walk(st))]
    if len(sweeps) != 1:
        res.error("Z3: final sweep loop not found")
    else:
        sw = sweeps[0]
        ks = post.index(sw)
        ev3 = rc.new_eval()
        rc.ev = ev3
        D = ev3.symbol("D!")
        # statements between the selection loop and the sweep (dictionary construction, initial minimum)
        fr_s = Frame(ev3, fi, 0)
        senv = {}
        try:
            fr_s.block(post[:ks], senv, TRUE)
        except Unsupported as e:
            raise AnalysisError(f"zmethod.getPoints: code before the final sweep not modelled: {e}")
        if not isinstance(sw.target, ast.Name):
            raise AnalysisError("zmethod.getPoints: sweep target is not a single name")
        kname = sw.target.id
        # the dictionary: the container deleted from inside the sweep
        dels_ast = [n for b_ in sw.body for n in ast.walk(b_) if isinstance(n, ast.Delete)]
        dnames = {t.value.id for n in dels_ast for t in n.targets if isinstance(t, ast.Subscript) and isinstance(t.value, ast.Name)}
        if len(dnames) != 1:
            raise AnalysisError("zmethod.getPoints: the sweep does not delete from exactly one container")
        dname = next(iter(dnames))
        carried = [n for n in stored_names(sw) if n in senv and n != dname]
        if len(carried) != 1:
            raise AnalysisError(f"zmethod.getPoints: expected one running minimum carried by the sweep, found {carried}")
        mname = carried[0]
        kv = ev3.symbol(kname)
        mn = ev3.symbol("min!")
        benv = dict(senv)
        benv.update({dname: D, kname: kv, mname: mn})
        out = ev3.eval_loop_body(fi, sw, benv)
        h = anf.opaque("item", D, kv)
        dels = [e for e in out.events if e.kind == "del" and e.target == dname]
        g_del = g_or(*[e.guard for e in dels]) if dels else FALSE
        idx_ok = all(isinstance(e.args[0], Rat) and e.args[0].equals(kv) for e in dels)
        want_a, want_b = canon_sign(h - mn, OPS[">"]), canon_sign(h - mn, OPS[">="])
        new_min = out.env.get(mname)
        upd_ok = True
        for g_, v_ in cases_of(new_min):
            for cond, want in ((g_del, mn), (g_not(g_del), h)):
                if g_sat(g_and(g_, cond)) and not (isinstance(v_, Rat) and v_.equals(want)):
                    upd_ok = False
        # ascending keys
        it_expr = sw.iter
        if isinstance(it_expr, ast.Name):
            for st in post[:ks]:
                if isinstance(st, ast.Assign) and isinstance(st.targets[0], ast.Name) and st.targets[0].id == it_expr.id:
                    it_expr = st.value
        txt = ast.unparse(it_expr).replace(" ", "")
        keys_ok = (f"sorted({dname}.keys())" in txt or f"sorted({dname})" in txt) and "reverse" not in txt and "[::-1]" not in txt
        if dels and idx_ok and (g_equiv(g_del, want_a) or g_equiv(g_del, want_b)) and upd_ok and keys_ok and not out.breaks and not out.returns:
            res.ok("Z3", "zmethod.getPoints:sweep", "ascending x; delete iff height > running minimum; minimum <- height on keep => heights non-increasing")
        else:
            res.violation("Z3", mod, fi.name, sw, "the final sweep does not delete exactly the knees that are higher than a knee to their left (ascending x, running minimum updated exactly on keep)",
                          f"delete iff {g_del}; minimum' = {_short(new_min, 120)}; order {ast.unparse(it_expr)[:60]}",
                          "for k in sorted(keys): if h[k] > min: del h[k] else: min = h[k]", construct="final sweep")
    # ---- Z5 ------------------------------------------------------------------------------------
    fm = rc.func("zmethod.map_index")
    ev2 = rc.new_eval()
    a, b = ev2.symbol("a", True), ev2.symbol("b", True)
    out = ev2.eval_function(fm, {"a": a, "b": b})
    val = out.value()
    srt = anf.opaque("np.argsort", a, array=True)
    want = anf.opaque("take", srt, anf.opaque("np.searchsorted", a, b, srt, array=True, extra=("sorter",)), array=True)
    if isinstance(val, Rat) and val.equals(want):
        res.ok("Z5", "zmethod.map_index", "sort_idx[np.searchsorted(a, b, sorter=sort_idx)] with sort_idx = argsort(a)")
    else:
        res.violation("Z5", fm.module, fm.name, fm.node, "map_index is not sort_idx[searchsorted(a, b, sorter=sort_idx)]", _short(val, 200), _short(want, 200), construct="map_index")
    fk = rc.func("zmethod.knees")
    ev3 = rc.new_eval()
    ev3.no_inline |= {"zmethod.map_index"}
    p2 = ev3.point("points", True)
    args = {"points": p2}
    for p in fk.signature.positional[1:]:
        args[p] = ev3.symbol(p)
    out = ev3.eval_function(fk, args)
    val = out.value()
    good = False
    if isinstance(val, Rat):
        for at in val.all_atoms():
            if at.kind == "fn" and at.name == "call:zmethod.map_index":
                amap = dict(zip(at.extra or (), at.args))
                if amap.get("a") is not None and amap["a"].equals(p2.items[0]) and any(x.name == "call:zmethod.getPoints" for x in amap.get("b", C(0)).all_atoms()):
                    good = True
    if good:
        res.ok("Z5", "zmethod.knees", "returns map_index(points[:, 0], getPoints(...))")
    else:
        res.violation("Z5", fk.module, fk.name, fk.node, "the selected x values are not converted to indices of the x column", _short(val, 200),
                      "map_index(points[:, 0], np.array(getPoints(...)))", construct="knees mapping")
    res.assumptions += ["strictly increasing non-negative integer x, y in [0, 1], dx, dy, dz > 0", "W, H >= 0"]
    res.not_decided += ["termination and the iteration bound of the selection loop (needs: points_added > 0 => len(points) decreases - a fact about numpy masks on runtime data)",
                        "x-separation among same-round candidates", "validity for non-integer x"]
    res.require_instances("C10 obligations", len(res.obligations), 8)
