"""C10 -- Z-method knees are valid, height-ordered and mutually separated (structural part).

Z1  at both exclusion sites the keep-mask implies |x - bx| >= W and |y - by| >= H
    (a conjunction of two disjunctions over x {<=,<} bx-W, x {>=,>} bx+W, and the same in y).
Z2  a candidate is selected only if |by - y_sel| {>=,>} H for every already selected point.
Z3  the final sweep visits the selected x values in ascending order and deletes a knee iff its
    height {>,>=} the running minimum (updated on keep).
Z4  W == max(1, int(x_max * dx)), H == (y_max - y_min) * dy; x_max defaults to len(points), the
    y range to the curve's own range.
Z5  x values are mapped back to indices with searchsorted on the x column.
Z6  the candidates of a round are grouped at the gaps >= W (one pick per group).
Z7  termination, structurally: the threshold drops by dz > 0 every continuing round, the loop is left once the
    threshold is at or below a loop-invariant bound and nothing was selected, and counted selections sit next to
    an exclusion whose mask rejects the selected point itself.
"""

from __future__ import annotations

import ast

from .. import AnalysisError, anf
from ..anf import Rat, sym
from ..guards import (G, TRUE, FALSE, g_and, g_not, g_or, g_equiv, g_implies, g_sat, compare, canon_sign, OPS)
from ..gvn import Frame, Obj, PW, Vec, cases_of, veq, mk_pw, Unsupported
from ..model import keep
from ..intervals import single_atom
from .common import RuleCtx, _short, stored_names

C = Rat.const


def _eval(rc: RuleCtx, fi, node, env):
    fr = Frame(rc.ev, fi, 0)
    return fr.expr(node, dict(env))


def run(ctx):
    rc = RuleCtx(ctx)
    res = ctx.result
    res.level = "other"
    for k, v in {"Z1": "keep-mask at each exclusion site implies (x <= bx-W or x >= bx+W) and (y <= by-H or y >= by+H)",
                 "Z2": "selection guarded by all(|by - y_i| >= H for selected y_i)",
                 "Z3": "sweep over sorted keys: delete iff height > running minimum; minimum updated on keep",
                 "Z4": "W == max(1, int(x_max*dx)); H == (y_max - y_min)*dy; defaults len(points) / curve range",
                 "Z5": "map_index == sort_idx[searchsorted(a, b, sorter=sort_idx)] applied to the x column and the selected x values"}.items():
        res.rule(k, v)
    fi = rc.func("zmethod.getPoints")
    mod = fi.module
    ev = rc.new_eval()
    rc.ev = ev
    pts = ev.point("points", True)
    ev.len_map = {"points": sym("n")}
    dx, dy, dz = ev.symbol("dx"), ev.symbol("dy"), ev.symbol("dz")
    loops = [st for st in fi.node.body if isinstance(st, ast.While)]
    if len(loops) != 1:
        raise AnalysisError("zmethod.getPoints: expected one main while loop")
    main = loops[0]
    from . import common as _common
    _common.READ_LOOPS[fi.qualname] = (fi, main)
    # (an exit that returns no knee at all satisfies every clause of this property, whatever its condition)
    _common.account_exits(fi, lambda r: isinstance(_common.returned_expr(fi, r), (ast.List, ast.Tuple)) and not _common.returned_expr(fi, r).elts)

    def _ascending_keys(r) -> bool:
        # the selection is handed over as the ascending list of its x values: np.array(list(sorted(D.keys()))) / sorted(D) - no key, no reverse
        e = _common.returned_expr(fi, r)
        while isinstance(e, ast.Call) and ast.unparse(e.func) in ("np.array", "np.asarray", "numpy.array", "list", "tuple") and len(e.args) == 1 and not e.keywords:
            e = e.args[0]
        if isinstance(e, ast.Call) and isinstance(e.func, ast.Name) and e.func.id == "sorted" and len(e.args) == 1 and not e.keywords:
            a = e.args[0]
            return isinstance(a, ast.Name) or (isinstance(a, ast.Call) and isinstance(a.func, ast.Attribute) and a.func.attr == "keys" and not a.args)
        return False
    _common.account_returns(fi, _ascending_keys)
    # (leaving the selection loop early selects fewer points: every clause of this property still holds for what was selected;
    # Z7 reads the breaks for termination)
    _common.account_loop_exits(fi)
    for r_ in [n_ for n_ in ast.walk(fi.node) if isinstance(n_, ast.Return) and getattr(n_, "lineno", 0) > main.lineno]:
        for c_ in ast.walk(r_):
            if isinstance(c_, ast.Call) and isinstance(c_.func, ast.Name) and c_.func.id == "sorted" \
                    and any(k_.arg == "reverse" and isinstance(k_.value, ast.Constant) and bool(k_.value.value) for k_ in c_.keywords):
                rc.res.violation("Z3", fi.module, fi.name, r_, "the selected x values are handed over in descending order: the indices they are mapped to are not increasing",
                                 ast.unparse(r_)[:100], "sorted(outlier_points.keys())", construct="selection order")
    k = fi.node.body.index(main)
    # the prologue up to (not including) the statement that builds the (x, y, z-score) working array
    pro = []
    arr_name = None
    for st in fi.node.body[:k]:
        if isinstance(st, ast.Assign) and isinstance(st.value, ast.Call) and ast.unparse(st.value.func) in ("np.column_stack", "numpy.column_stack") \
                and len(st.targets) == 1 and isinstance(st.targets[0], ast.Name):
            arr_name = st.targets[0].id
            break
        pro.append(st)
    if arr_name is None:
        raise AnalysisError("zmethod.getPoints: the working array np.column_stack((points, z-scores)) was not found")
    # exclusion sites: the working array re-bound to a filtered version of itself inside the main loop
    sites = []
    for st in ast.walk(main):
        if isinstance(st, ast.Assign) and len(st.targets) == 1 and isinstance(st.targets[0], ast.Name) and st.targets[0].id == arr_name \
                and any(isinstance(n, ast.Name) and n.id == arr_name for n in ast.walk(st.value)):
            sites.append(st)
    # selection sites: the collection of selected knees re-bound to np.append(<itself>, ...) inside the main loop
    blocks = {}
    for n in ast.walk(main):
        for fld in ("body", "orelse", "finalbody"):
            blk = getattr(n, fld, None)
            if isinstance(blk, list):
                for b in blk:
                    blocks[id(b)] = (n, blk)
    selections = [b for b in ast.walk(main) if isinstance(b, ast.Assign) and isinstance(b.targets[0], ast.Name) and isinstance(b.value, ast.Call)
                  and ast.unparse(b.value.func) in ("np.append", "numpy.append", "np.vstack", "numpy.vstack", "np.concatenate", "numpy.concatenate")
                  and any(isinstance(n, ast.Name) and n.id == b.targets[0].id for n in ast.walk(b.value))]
    # ... of the loop-carried collection that is read after the loop (a per-iteration scratch collection, re-created inside
    # the loop, is not the selection)
    def _carried(name):
        for n in ast.walk(main):
            if isinstance(n, ast.Assign) and any(isinstance(t, ast.Name) and t.id == name for t in n.targets) \
                    and not any(isinstance(x, ast.Name) and x.id == name for x in ast.walk(n.value)):
                return False
        return any(isinstance(x, ast.Name) and x.id == name and isinstance(x.ctx, ast.Load) for st_ in fi.node.body[k + 1:] for x in ast.walk(st_))
    selections = [b for b in selections if _carried(b.targets[0].id)]
    if not selections:
        raise AnalysisError("zmethod.getPoints: no statement adds a point to the selection inside the main loop - shape not recognised")
    if not sites:
        raise AnalysisError("zmethod.getPoints: no statement filters the working array inside the main loop - shape not recognised")
    for b in selections:
        owner, blk = blocks[id(b)]
        if not any(x in sites for x in blk):
            res.violation("Z1", mod, fi.name, b, "a knee is selected but the points near it are not removed from the working array in the same step: "
                          "a later knee can be selected inside its (W, H) neighbourhood", ast.unparse(b)[:120],
                          f"{arr_name} = {arr_name}[outside the x band & outside the y band] next to every selection", construct="selection without exclusion")
    res.analysed["selection_sites"] = len(selections)
    res.analysed["exclusion_sites"] = len(sites)
    p3 = Vec([ev.symbol("p.x", True), ev.symbol("p.y", True), ev.symbol("p.z", True)], "point")
    best = Vec([ev.symbol("b.x"), ev.symbol("b.y"), ev.symbol("b.z")], "point")
    x, y, bx, by = p3.items[0], p3.items[1], best.items[0], best.items[1]
    XM, YR = ev.symbol("x_max"), Vec([ev.symbol("yr0"), ev.symbol("yr1")], "list")
    # each override applies on its own: all four combinations of (x_max given?, y_range given?)
    for xm, yr, label in ((Obj("none"), Obj("none"), "defaults"), (XM, YR, "overrides"), (XM, Obj("none"), "x_max only"), (Obj("none"), YR, "y_range only")):
        env = {"points": pts, "dx": dx, "dy": dy, "dz": dz, "plot": FALSE, "x_max": xm, "y_range": yr}
        fr = Frame(ev, fi, 0)
        try:
            fr.block(pro, env, TRUE)
        except Unsupported as e:
            raise AnalysisError(f"zmethod.getPoints: prologue not modelled: {e}")
        assume = fr.truth(XM) if xm is XM else TRUE          # a given x_max is a positive number
        xmax_v = sym("x_max") if xm is XM else sym("n")
        if yr is YR:
            ymax_v, ymin_v = sym("yr0"), sym("yr1")
        else:
            ymax_v, ymin_v = anf.opaque("amax", pts.items[1], array=False), anf.opaque("amin", pts.items[1], array=False)
        want_W = anf.f_minmax("max", [C(1), anf.opaque("int", xmax_v * dx, array=False)])
        want_H = (ymax_v - ymin_v) * dy
        # Z1 + Z4 together: the masks, evaluated with the prologue's own values for every name they use, must
        # imply the two bands with exactly W = max(1, int(x_max*dx)) and H = (y_max - y_min)*dy
        ref_x = g_or(compare("<=", x, bx - want_W), compare(">=", x, bx + want_W))
        ref_y = g_or(compare("<=", y, by - want_H), compare(">=", y, by + want_H))
        ref = g_and(ref_x, ref_y)
        for n_site, st in enumerate(sites, 1):
            names = {n.id for n in ast.walk(st.value) if isinstance(n, ast.Name)}
            helper_names = {c.func.id for c in ast.walk(st.value) if isinstance(c, ast.Call) and isinstance(c.func, ast.Name)}
            unknown = sorted(n for n in names if n not in env and n not in ("np", "numpy", arr_name) and n not in helper_names)
            if len(unknown) not in (1, 2):
                raise AnalysisError(f"zmethod.getPoints: exclusion site uses {unknown}; expected one name for the selected point or two for its coordinates")
            menv = {}
            for nme in names:
                if nme in env:
                    v = env[nme]
                    # a piecewise width (truthy override / default): take the case that applies to this configuration
                    if isinstance(v, PW):
                        picks = [c for g_, c in v.cases if g_implies(assume, g_)]
                        if len(picks) != 1:
                            raise AnalysisError(f"zmethod.getPoints: {nme} is not determined by which overrides are given ({label})")
                        v = picks[0]
                    menv[nme] = v
            menv[arr_name] = p3
            if len(unknown) == 1:
                menv[unknown[0]] = best
            else:
                # the selected row unpacked into coordinates: which name is x is decided by the selection statement of the same block
                order = None
                for sb in blocks[id(st)][1]:
                    if sb in selections:
                        txt = ast.unparse(sb.value)
                        if all(u in txt for u in unknown):
                            order = sorted(unknown, key=lambda u: txt.index(u))
                if order is None:
                    raise AnalysisError(f"zmethod.getPoints: cannot tell which of {unknown} is the x coordinate of the selected point")
                menv[order[0]], menv[order[1]] = best.items[0], best.items[1]
            try:
                val = _eval(rc, fi, st.value, menv)
            except Unsupported as e:
                raise AnalysisError(f"zmethod.getPoints: exclusion site not modelled: {e}")
            # the filtered array: every column is mask(<column>, <boolean>) with one common boolean
            g = None
            if isinstance(val, Vec) and val.items and all(isinstance(c, Rat) for c in val.items):
                keys = set()
                for c, col in zip(val.items, p3.items):
                    a_ = c.atoms()
                    if len(a_) == 1 and a_[0].kind == "fn" and a_[0].name == "mask" and a_[0].args[0].equals(col) and c.equals(Rat.from_atom(a_[0])):
                        b_ = a_[0].args[1].atoms()
                        if len(b_) == 1 and b_[0].name == "bool":
                            keys.add(b_[0].extra)
                if len(keys) == 1:
                    g = ev.bool_registry.get(next(iter(keys)))
            if not isinstance(g, G):
                raise AnalysisError("zmethod.getPoints: an exclusion site does not filter the working array with one boolean mask - shape not recognised")
            if label == "defaults":
                from ..seqdom import g_subst as _gs
                at_self = _gs(g, {"p.x": bx, "p.y": by})
                if not g_sat(g_and(at_self, canon_sign(want_W - C(1), OPS[">="]))):           # max(1, .) >= 1
                    res.ok("Z7", f"zmethod.getPoints:site{n_site}:self", "the keep-mask rejects the selected point itself (W >= 1): a selection removes at least one point")
                else:
                    res.violation("Z7", mod, fi.name, st, "the exclusion mask keeps the selected point itself: a round can select the same point again and the working "
                                  "array need not shrink", _short(at_self, 200), "a mask that is false at the selected point", construct=f"self exclusion site{n_site}")
            if g_implies(g, ref):
                res.ok("Z1", f"zmethod.getPoints:site{n_site}[{label}]",
                       f"kept points lie outside the x band (W = max(1, int({xmax_v}*dx))) and the y band (H = ({_short(ymax_v, 24)} - {_short(ymin_v, 24)})*dy) of the selected point")
                res.ok("Z4", f"zmethod.getPoints:site{n_site}[{label}]", "band widths are W = max(1, int(x_max*dx)) and H = (y_max - y_min)*dy")
            else:
                # which part fails: the band structure (checked with the code's own widths) or the widths themselves?
                scal = [v for nme, v in menv.items() if isinstance(v, Rat) and not v.is_array() and nme not in ("points",) and nme not in unknown]
                structure_ok = False
                for wc in scal:
                    for hc in scal:
                        rx = g_or(compare("<=", x, bx - wc), compare(">=", x, bx + wc))
                        ry = g_or(compare("<=", y, by - hc), compare(">=", y, by + hc))
                        if g_implies(g, g_and(rx, ry)):
                            structure_ok = True
                            found_w, found_h = wc, hc
                if structure_ok:
                    res.violation("Z4", mod, fi.name, st,
                                  f"[{label}] the separation widths are not W = max(1, int(x_max*dx)) and H = (y_max - y_min)*dy",
                                  f"W = {_short(found_w, 100)}; H = {_short(found_h, 100)}", f"W = {_short(want_W, 80)}; H = {_short(want_H, 80)}", construct=f"widths {label}")
                else:
                    missing = "x band" if g_implies(g, ref_y) else ("y band" if g_implies(g, ref_x) else "x and y bands")
                    res.violation("Z1", mod, fi.name, st,
                                  f"[{label}] after a knee is selected, points inside its {missing} stay eligible: two reported knees can be closer than (W, H)",
                                  _short(g, 300), _short(ref, 300), construct=f"exclusion mask site{n_site}")
    # ---- Z2: selection guard ------------------------------------------------------------
    sel_ok = 0
    n_sel = 0
    fr = Frame(ev, fi, 0)
    env = {"points": pts, "dx": dx, "dy": dy, "dz": dz, "plot": FALSE, "x_max": Obj("none"), "y_range": Obj("none")}
    fr.block(pro, env, TRUE)
    H0 = (anf.opaque("amax", pts.items[1], array=False) - anf.opaque("amin", pts.items[1], array=False)) * dy
    # nested defs of getPoints (a local predicate such as `def is_separated(mr, selected)`) are values of the prologue environment
    for st_ in fi.node.body:
        if isinstance(st_, ast.FunctionDef):
            fr.stmt(st_, env, TRUE)
    parents = {}
    for n_ in ast.walk(main):
        for fld in ("body", "orelse"):
            blk_ = getattr(n_, fld, None)
            if isinstance(blk_, list):
                for j_, b_ in enumerate(blk_):
                    parents[id(b_)] = (n_, fld, blk_, j_)

    def path_tests(stmt):
        """(test, polarity) pairs that hold when control reaches `stmt`: enclosing ifs and earlier `if c: continue / break / return` of each enclosing block."""
        out_ = []
        cur_ = stmt
        while id(cur_) in parents:
            owner_, fld_, blk_, j_ = parents[id(cur_)]
            for prev_ in blk_[:j_]:
                if isinstance(prev_, ast.If) and not prev_.orelse and prev_.body and isinstance(prev_.body[-1], (ast.Continue, ast.Break, ast.Return)):
                    out_.append((prev_.test, False))
            if isinstance(owner_, ast.If):
                out_.append((owner_.test, fld_ == "body"))
            if owner_ is main:
                break
            cur_ = owner_
        return out_

    for b in selections:
        n_sel += 1
        sel_name = b.targets[0].id
        tests = path_tests(b)
        good = False
        why = "the guard is not all(|best.y - y_i| >= H for the selected y_i)"
        sel = Vec([ev.symbol("sel.x", True), ev.symbol("sel.y", True)], "point")
        for t_ast, pol in tests:
            names = {n.id for n in ast.walk(t_ast) if isinstance(n, ast.Name)}
            if sel_name not in names:
                continue
            helper_names = {c.func.id for c in ast.walk(t_ast) if isinstance(c, ast.Call) and isinstance(c.func, ast.Name)}
            comp_vars = {g_.target.id for c in ast.walk(t_ast) if isinstance(c, (ast.GeneratorExp, ast.ListComp)) for g_ in c.generators if isinstance(g_.target, ast.Name)}
            others = sorted(n for n in names if n not in env and n not in helper_names and n != sel_name and n not in comp_vars and n not in ("np", "numpy", "abs", "all"))
            genv = dict(env)
            genv[sel_name] = sel
            # the candidate: one name for the point, or separate names for its coordinates (a row unpacked in the loop header)
            trials = []
            if len(others) == 1:
                trials = [{others[0]: best}, {others[0]: best.items[1]}]
            elif len(others) == 2:
                trials = [{others[0]: best.items[0], others[1]: best.items[1]}, {others[0]: best.items[1], others[1]: best.items[0]}]
            for extra in trials:
                ge = dict(genv)
                ge.update(extra)
                try:
                    g = fr.truth(_eval(rc, fi, t_ast, ge))
                except Unsupported:
                    continue
                if not pol:
                    g = g_not(g)
                items = g.a if g.kind == "and" else (g,)
                # the element-wise form: (|by - <selected heights>| >= H).all() - a comparison of the whole column, true when it holds at every position
                vec_a = canon_sign(anf.f_abs(by - sel.items[1]) - H0, OPS[">="])
                vec_b = canon_sign(anf.f_abs(by - sel.items[1]) - H0, OPS[">"])
                for x_ in items:
                    if x_.kind == "sign" and x_.a.is_array() and (g_equiv(x_, vec_a) or g_equiv(x_, vec_b)):
                        good = True
                for x_ in items:
                    if x_.kind == "atom" and isinstance(x_.a, tuple) and x_.a and x_.a[0] == "quantified":
                        kind_, itv, elem, cond = ev.comp_registry[x_.a[1]]
                        want_a = canon_sign(anf.f_abs(by - elem) - H0, OPS[">="])
                        want_b = canon_sign(anf.f_abs(by - elem) - H0, OPS[">"])
                        if kind_ == "all" and isinstance(itv, Rat) and itv.equals(sel.items[1]) and (g_equiv(cond, want_a) or g_equiv(cond, want_b)):
                            good = True
                        elif kind_ == "all" and not (isinstance(itv, Rat) and itv.equals(sel.items[1])):
                            why = "the guard does not range over the heights of the already selected points"
                if good:
                    break
            if good:
                break
        def _depends_on_selection() -> bool:
            """Some condition on the way to this selection is computed (through local assignments) from the already selected points."""
            deps_: dict = {}
            for n_ in ast.walk(main):
                tg_, val_ = None, None
                if isinstance(n_, ast.Assign):
                    tg_, val_ = n_.targets, n_.value
                elif isinstance(n_, ast.AugAssign):
                    tg_, val_ = [n_.target], n_.value
                if tg_ is None:
                    continue
                for t0 in tg_:
                    b0 = t0
                    while isinstance(b0, (ast.Subscript, ast.Attribute)):
                        b0 = b0.value
                    if isinstance(b0, ast.Name):
                        deps_.setdefault(b0.id, set()).update(x.id for x in ast.walk(val_) if isinstance(x, ast.Name))
            seen_, todo_ = set(), [x.id for t_, _p in tests for x in ast.walk(t_) if isinstance(x, ast.Name)]
            while todo_:
                c_ = todo_.pop()
                if c_ in seen_:
                    continue
                seen_.add(c_)
                if c_ == sel_name:
                    return True
                todo_.extend(deps_.get(c_, ()))
            return False
        direct = any(sel_name in {n.id for n in ast.walk(t_) if isinstance(n, ast.Name)} for t_, _p in tests)
        if good:
            sel_ok += 1
            res.ok("Z2", f"zmethod.getPoints:select#{sel_ok}", "selected only if |by - y| >= H for every selected y")
        elif not direct and _depends_on_selection():
            raise AnalysisError("zmethod.getPoints: a selection is guarded by a condition derived from the already selected points in a form the height-test rule does not read "
                                f"({' and '.join(ast.unparse(t_)[:40] for t_, _p in tests)[:160]}) - shape not recognised")
        elif not direct:
            res.violation("Z2", mod, fi.name, b, "a candidate is added to the selection without the height test against the already selected knees",
                          ast.unparse(b)[:120], "if all(abs(best.y - y_i) >= H for y_i in <selected>[:, 1]): <select>", construct="unguarded selection")
        else:
            res.violation("Z2", mod, fi.name, b, "a candidate can be selected although it is closer than H in y to an already selected knee: " + why,
                          " and ".join(("" if p_ else "not ") + ast.unparse(t_)[:80] for t_, p_ in tests)[:200],
                          "all(abs(best.y - y_i) >= H for y_i in <selected>[:, 1])", construct="selection guard")
    # ---- Z3: final sweep --------------------------------------------------------------------
    post = fi.node.body[k + 1:]
    # the sweep: the loop after the selection that deletes from a container (another loop may build that container)
    sweeps = [st for st in post if isinstance(st, ast.For) and any(isinstance(n, ast.Delete) for n in ast.walk(st))]
    fi_sweep = fi
    if not sweeps:
        # the sweep may live in a private helper that is handed the selected points
        for st_ in post:
            for c_ in [c for c in ast.walk(st_) if isinstance(c, ast.Call) and isinstance(c.func, ast.Name)]:
                r_ = rc.lk.resolve(mod, c_.func)
                if r_.kind == "func" and r_.obj.module is mod:
                    hs = [x for x in r_.obj.node.body if isinstance(x, ast.For) and any(isinstance(n, ast.Delete) for n in ast.walk(x))]
                    if len(hs) == 1:
                        fi_sweep = r_.obj
                        post = list(r_.obj.node.body)
                        sweeps = hs
    if len(sweeps) != 1:
        res.error("Z3: final sweep loop not found")
    else:
        sw = sweeps[0]
        ks = post.index(sw)
        ev3 = rc.new_eval()
        rc.ev = ev3
        D = ev3.symbol("D!")
        # statements between the selection loop and the sweep (dictionary construction, initial minimum)
        fr_s = Frame(ev3, fi_sweep, 0)
        senv = {}
        try:
            fr_s.block(post[:ks], senv, TRUE)
        except Unsupported as e:
            raise AnalysisError(f"zmethod.getPoints: code before the final sweep not modelled: {e}")
        if not isinstance(sw.target, ast.Name):
            raise AnalysisError("zmethod.getPoints: sweep target is not a single name")
        kname = sw.target.id
        # the dictionary: the container deleted from inside the sweep
        dels_ast = [n for b_ in sw.body for n in ast.walk(b_) if isinstance(n, ast.Delete)]
        dnames = {t.value.id for n in dels_ast for t in n.targets if isinstance(t, ast.Subscript) and isinstance(t.value, ast.Name)}
        if len(dnames) != 1:
            raise AnalysisError("zmethod.getPoints: the sweep does not delete from exactly one container")
        dname = next(iter(dnames))
        carried = [n for n in stored_names(sw) if n in senv and n != dname]
        if len(carried) != 1:
            raise AnalysisError(f"zmethod.getPoints: expected one running minimum carried by the sweep, found {carried}")
        mname = carried[0]
        kv = ev3.symbol(kname)
        mn = ev3.symbol("min!")
        benv = dict(senv)
        benv.update({dname: D, kname: kv, mname: mn})
        out = ev3.eval_loop_body(fi_sweep, sw, benv)
        h = anf.opaque("item", D, kv)
        dels = [e for e in out.events if e.kind == "del" and e.target == dname]
        g_del = g_or(*[e.guard for e in dels]) if dels else FALSE
        idx_ok = all(isinstance(e.args[0], Rat) and e.args[0].equals(kv) for e in dels)
        want_a, want_b = canon_sign(h - mn, OPS[">"]), canon_sign(h - mn, OPS[">="])
        new_min = out.env.get(mname)
        upd_ok = True
        for g_, v_ in cases_of(new_min):
            for cond, want in ((g_del, mn), (g_not(g_del), h)):
                if g_sat(g_and(g_, cond)) and not (isinstance(v_, Rat) and v_.equals(want)):
                    upd_ok = False
        # ascending keys
        it_expr = sw.iter
        if isinstance(it_expr, ast.Name):
            for st in post[:ks]:
                if isinstance(st, ast.Assign) and isinstance(st.targets[0], ast.Name) and st.targets[0].id == it_expr.id:
                    it_expr = st.value
        txt = ast.unparse(it_expr).replace(" ", "")
        keys_ok = (f"sorted({dname}.keys())" in txt or f"sorted({dname})" in txt) and "reverse" not in txt and "[::-1]" not in txt
        if dels and idx_ok and (g_equiv(g_del, want_a) or g_equiv(g_del, want_b)) and upd_ok and keys_ok and not out.breaks and not out.returns:
            res.ok("Z3", "zmethod.getPoints:sweep", "ascending x; delete iff height > running minimum; minimum <- height on keep => heights non-increasing")
        else:
            res.violation("Z3", mod, fi.name, sw, "the final sweep does not delete exactly the knees that are higher than a knee to their left (ascending x, running minimum updated exactly on keep)",
                          f"delete iff {g_del}; minimum' = {_short(new_min, 120)}; order {ast.unparse(it_expr)[:60]}",
                          "for k in sorted(keys): if h[k] > min: del h[k] else: min = h[k]", construct="final sweep")
    # ---- Z5 ------------------------------------------------------------------------------------
    fm = rc.func("zmethod.map_index")
    ev2 = rc.new_eval()
    a, b = ev2.symbol("a", True), ev2.symbol("b", True)
    out = ev2.eval_function(fm, {"a": a, "b": b})
    val = out.value()
    srt = anf.opaque("np.argsort", a, array=True)
    want = anf.opaque("take", srt, anf.opaque("np.searchsorted", a, b, srt, array=True, extra=("sorter",)), array=True)
    if isinstance(val, Rat) and val.equals(want):
        res.ok("Z5", "zmethod.map_index", "sort_idx[np.searchsorted(a, b, sorter=sort_idx)] with sort_idx = argsort(a)")
    else:
        res.violation("Z5", fm.module, fm.name, fm.node, "map_index is not sort_idx[searchsorted(a, b, sorter=sort_idx)]", _short(val, 200), _short(want, 200), construct="map_index")
    fk = rc.func("zmethod.knees")
    ev3 = rc.new_eval()
    ev3.no_inline |= {"zmethod.map_index"}
    p2 = ev3.point("points", True)
    args = {"points": p2}
    for p in fk.signature.positional[1:]:
        args[p] = ev3.symbol(p)
    out = ev3.eval_function(fk, args)
    val = out.value()
    # the thresholds reach the selection under their own names: knees(points, dx, dy, dz, ..) calls getPoints with dx as dx, dy as dy, dz as dz
    gp = rc.func("zmethod.getPoints")
    gpos = gp.signature.positional
    for e_ in [e_ for e_ in out.events if e_.kind == "call" and e_.target == "zmethod.getPoints"]:
        amap_ = dict(zip(gpos, e_.args))
        for nm_ in ("dx", "dy", "dz", "x_max", "y_range"):
            if nm_ in amap_ and nm_ in args and isinstance(amap_[nm_], Rat) and isinstance(args[nm_], Rat) and not amap_[nm_].equals(args[nm_]):
                res.violation("Z4", fk.module, fk.name, e_.node, f"knees() hands getPoints `{_short(amap_[nm_], 40)}` as its {nm_}: the separation the caller asked for is not the one applied",
                              f"{nm_}={_short(amap_[nm_], 40)}", f"{nm_}={nm_}", construct=f"getPoints {nm_}")
    def _mapped(v):
        if isinstance(v, Rat):
            for at in v.all_atoms():
                if at.kind == "fn" and at.name == "call:zmethod.map_index":
                    amap = dict(zip(at.extra or (), at.args))
                    if amap.get("a") is not None and amap["a"].equals(p2.items[0]) and any(x.name == "call:zmethod.getPoints" for x in amap.get("b", C(0)).all_atoms()):
                        return True
        return False

    def _empty(v):
        if isinstance(v, Vec):
            return len(v.items) == 0
        a_ = single_atom(v) if isinstance(v, Rat) else None
        return a_ is not None and a_.name in ("np.empty", "np.zeros", "np.array", "np.asarray") and len(a_.args) >= 1 and \
            (a_.args[0].is_zero() or (single_atom(a_.args[0]) is not None and single_atom(a_.args[0]).name == "vec" and not single_atom(a_.args[0]).args))

    def _no_selection(g):
        # the case is taken only when getPoints selected nothing: mapping an empty selection gives an empty index array
        for x in (g.a if g.kind == "and" else (g,)):
            if x.kind == "sign" and x.b == OPS["=="]:
                la = single_atom(x.a)
                if la is not None and la.name == "len" and any(t.name == "call:zmethod.getPoints" for t in la.args[0].all_atoms()):
                    return True
        return False
    live = [(g, v) for g, v in cases_of(val) if g_sat(g)]
    good = bool(live) and any(_mapped(v) for _g, v in live) and all(_mapped(v) or (_empty(v) and _no_selection(g)) for g, v in live)
    if good:
        res.ok("Z5", "zmethod.knees", "returns map_index(points[:, 0], getPoints(...))")
    else:
        res.violation("Z5", fk.module, fk.name, fk.node, "the selected x values are not converted to indices of the x column", _short(val, 200),
                      "map_index(points[:, 0], np.array(getPoints(...)))", construct="knees mapping")
    res.rule("Z6", "candidates of one round are split into groups at the gaps >= W: with G = positions of the candidates left of such a gap, the groups are the "
                   "position intervals [0, G0], (G0, G1], ..., (G_last, end]; one pick per group => same-round picks are >= W apart in x")
    _groups(rc, fi, main, arr_name)
    res.rule("Z7", "the selection loop has a variant: the threshold drops by dz > 0 on every round that continues; the loop is left as soon as the threshold is at or "
                   "below a loop-invariant bound and the round selected nothing; every counted selection sits next to an exclusion whose mask rejects the selected "
                   "point itself (so such rounds shrink the working array) => at most ceil((z0 - bound)/dz) + n + 1 rounds")
    _termination(rc, fi, main, k, arr_name, sites, selections, blocks)
    res.assumptions += ["strictly increasing non-negative integer x, y in [0, 1], dx, dy, dz > 0", "W, H >= 0",
                        "the selected point of a round is an element of the working array (it is read from a mask / arg-optimum of it)"]
    res.not_decided += ["the exact iteration bound of the selection loop", "validity for non-integer x"]
    from .common import hidden_state as _hidden_state
    _hidden_state(rc, "Z8", ['zmethod.knees'], "the Z-method")
    res.require_instances("C10 obligations", len(res.obligations), 8)



def _termination(rc: RuleCtx, fi, main, k_main: int, arr_name: str, sites, selections, blocks):
    """Z7, read off the statements of the main loop's own block (a syntax-directed walk: the facts are about which
    statements every continuing round executes)."""
    res = rc.res
    mod = fi.module
    ev = rc.new_eval()
    rc.ev = ev
    pts = ev.point("points", True)
    ev.len_map = {"points": sym("n")}
    env = {"points": pts, "dx": ev.symbol("dx"), "dy": ev.symbol("dy"), "dz": ev.symbol("dz"), "plot": FALSE, "x_max": Obj("none"), "y_range": Obj("none")}
    fr = Frame(ev, fi, 0)
    try:
        fr.block(fi.node.body[:k_main], env, TRUE)
    except Unsupported as e:
        raise AnalysisError(f"zmethod.getPoints: statements before the main loop not modelled: {e}")
    top = list(main.body)
    for n in ast.walk(main):
        if isinstance(n, ast.Continue):
            owner = None
            for lp in ast.walk(main):
                if lp is not main and isinstance(lp, (ast.For, ast.While)) and any(x is n for x in ast.walk(lp)):
                    owner = lp
            if owner is None:
                raise AnalysisError("zmethod.getPoints: `continue` in the main loop - the per-round statements are not all executed; shape not recognised")
    stored = set(stored_names(main))
    # ---- the threshold: the one name every round lowers by a positive, loop-invariant amount ----------------------
    drops = []
    for st in top:
        tgt = val = None
        if isinstance(st, ast.AugAssign) and isinstance(st.target, ast.Name) and isinstance(st.op, (ast.Sub, ast.Add)):
            tgt = st.target.id
        elif isinstance(st, ast.Assign) and len(st.targets) == 1 and isinstance(st.targets[0], ast.Name) \
                and any(isinstance(x, ast.Name) and x.id == st.targets[0].id for x in ast.walk(st.value)):
            tgt = st.targets[0].id
        if tgt is None or tgt == arr_name:
            continue
        benv = dict(env)
        for nme in stored:
            if nme in benv and nme != arr_name:
                benv[nme] = sym(nme)
        try:
            Frame(ev, fi, 0).stmt(st, benv, TRUE)
        except Unsupported:
            continue
        new = benv.get(tgt)
        if isinstance(new, Rat):
            d = sym(tgt).sub(new)
            q = d.div(sym("dz"))
            if not (d.symbols() & stored) and q.is_const() is not None and q.is_const() > 0:
                drops.append((tgt, st, d))
    if len(drops) != 1:
        raise AnalysisError(f"zmethod.getPoints: expected one per-round statement lowering the threshold by a positive multiple of dz, found {len(drops)} - shape not recognised")
    zv, drop_st, _d = drops[0]
    # ---- the per-round counter: reset to 0 in the loop's own block, incremented next to selections -----------------------
    resets = [st for st in top if isinstance(st, ast.Assign) and len(st.targets) == 1 and isinstance(st.targets[0], ast.Name)
              and isinstance(st.value, ast.Constant) and st.value.value == 0 and not isinstance(st.value.value, bool)]
    incs = [n for n in ast.walk(main) if isinstance(n, ast.AugAssign) and isinstance(n.op, ast.Add) and isinstance(n.target, ast.Name)
            and any(r.targets[0].id == n.target.id for r in resets)]
    cnt = incs[0].target.id if incs and len({n.target.id for n in incs}) == 1 else None
    # ---- the exits of the loop's own block ---------------------------------------------------------------------
    last_sel = max((i for i, st in enumerate(top) if any(x in selections for x in ast.walk(st))), default=-1)
    benv = dict(env)
    for nme in stored:
        if nme != arr_name:
            benv[nme] = sym(nme)
    benv[arr_name] = Vec([ev.symbol("w.x", True), ev.symbol("w.y", True), ev.symbol("w.z", True)], "point")
    ev.len_map.update({"w.x": sym("m"), "w.y": sym("m"), "w.z": sym("m")})
    exits = []
    if not (isinstance(main.test, ast.Constant) and main.test.value is True):
        try:
            exits.append((g_not(Frame(ev, fi, 0).cond(main.test, dict(benv))), main, -1))
        except Unsupported as e:
            raise AnalysisError(f"zmethod.getPoints: main loop test not modelled: {e}")
    for i, st in enumerate(top):
        if isinstance(st, ast.If) and any(isinstance(x, ast.Break) for x in ast.walk(st)) \
                and not any(isinstance(x, (ast.For, ast.While)) for x in ast.walk(st)):
            # the condition under which this statement leaves the loop (nested ifs included): the guards of its breaks
            try:
                f_ = Frame(ev, fi, 0)
                f_.stmt(st, dict(benv), TRUE)
                exits.append((g_or(*f_.breaks) if f_.breaks else FALSE, st, i))
            except Unsupported as e:
                raise AnalysisError(f"zmethod.getPoints: loop exit test not modelled: {e}")
    if not exits:
        raise AnalysisError("zmethod.getPoints: the main loop has no exit in its own block (while test / `if ..: break`) - shape not recognised")
    from ..seqdom import g_subst
    found = None
    for g, st, i in exits:
        g0 = g_subst(g, {cnt: C(0)}) if cnt is not None else g
        uses_cnt = cnt is not None and cnt in _g_symbols(g)
        if uses_cnt and 0 <= i <= last_sel:
            continue                       # tested before the round's selections are counted: says nothing about this round
        for lit in _sign_literals(g0):
            # a literal `zv - L <= 0` (or <) with L loop invariant that alone implies the exit (with nothing selected)
            L = sym(zv).sub(lit.a) if lit.a.sub(sym(zv)).symbols().isdisjoint({zv}) else None
            Lneg = lit.a.add(sym(zv)) if lit.a.add(sym(zv)).symbols().isdisjoint({zv}) else None
            for bound, signs in ((L, lit.b), (Lneg, frozenset(-x for x in lit.b))):
                if bound is None or (bound.symbols() & (stored - {arr_name})):
                    continue
                if signs in (OPS["<="], OPS["<"]) and g_implies(canon_sign(sym(zv).sub(bound), signs), g0):
                    found = (st, bound, uses_cnt)
    if found is None:
        res.violation("Z7", mod, fi.name, exits[-1][1], "no exit of the selection loop is taken just because the threshold has reached a loop-invariant bound and the round "
                      "selected nothing: the loop then ends only when the working array happens to drain, which a point kept by the exclusion mask but "
                      "never accepted by the selection test prevents", "; ".join(_short(g, 120) for g, _s, _i in exits),
                      f"`{zv} <= <minimum z-score>` (and nothing selected this round) among the exit conditions", construct="threshold exit")
        return
    res.ok("Z7", "zmethod.getPoints:exit", f"the loop is left when {zv} <= {_short(found[1], 60)}" + (f" and {cnt} == 0" if found[2] else ""))
    res.ok("Z7", "zmethod.getPoints:drop", f"every continuing round lowers {zv} by {_short(_d, 30)} > 0 (a statement of the loop's own block, no `continue`)")
    # ---- counted selections shrink the working array ------------------------------------------------------------
    if found[2]:
        bad = [n for n in incs if not any(x in sites for x in blocks[id(n)][1])] if all(id(n) in blocks for n in incs) else incs
        unc = [b for b in selections if not any(isinstance(x, ast.AugAssign) and x in incs for x in blocks[id(b)][1])]
        if bad:
            res.violation("Z7", mod, fi.name, bad[0], f"{cnt} is incremented where no point is removed from the working array: a round can count progress without making any",
                          ast.unparse(bad[0]), "increment next to an exclusion site", construct="counter without exclusion")
        elif unc:
            # an uncounted selection only makes the loop stop earlier (the round looks idle): no termination issue
            res.ok("Z7", "zmethod.getPoints:counter", f"{len(incs)} increment(s) of {cnt}, each next to an exclusion site ({len(unc)} selection(s) uncounted: exits earlier)")
        else:
            res.ok("Z7", "zmethod.getPoints:counter", f"{cnt} is reset every round and incremented next to each of the {len(selections)} selection / exclusion sites")


def _g_symbols(g: G) -> set:
    out = set()

    def walk(x):
        if x.kind == "sign":
            out.update(x.a.symbols())
        elif x.kind == "not":
            walk(x.a)
        elif x.kind in ("and", "or"):
            for y in x.a:
                walk(y)
    walk(g)
    return out


def _sign_literals(g: G) -> list:
    out = []

    def walk(x):
        if x.kind == "sign":
            out.append(x)
        elif x.kind == "not":
            walk(x.a)
        elif x.kind in ("and", "or"):
            for y in x.a:
                walk(y)
    walk(g)
    return out


def _groups(rc: RuleCtx, fi, main, arr_name: str):
    """Z6.  The per-round grouping, read off the evaluated loop over the group boundaries:
       G  = np.argwhere(diff(candidates.x) >= W)        positions left of a gap
       B  = hstack([a0], G (+c), [aL])                  group boundaries
       group i = a mask on candidates.x or a slice of candidates, turned into a position interval [lo, hi)
    and compared, for the first, a middle and the last group, with [0, G0+1), [G_{i-1}+1, G_i+1), [G_last+1, len)."""
    res = rc.res
    mod = fi.module
    from .common import bind_loop
    # the candidates of a round: arr[arr[:, 2] >= z]
    cands = [st.targets[0].id for st in ast.walk(main) if isinstance(st, ast.Assign) and len(st.targets) == 1 and isinstance(st.targets[0], ast.Name)
             and isinstance(st.value, ast.Subscript) and isinstance(st.value.value, ast.Name) and st.value.value.id == arr_name
             and isinstance(st.value.slice, ast.Compare)]
    if len(set(cands)) != 1:
        raise AnalysisError("zmethod.getPoints: the per-round candidate selection was not found")
    cname = cands[0]
    blocks = {}
    for n in ast.walk(main):
        for fld in ("body", "orelse"):
            blk = getattr(n, fld, None)
            if isinstance(blk, list):
                for b_ in blk:
                    blocks[id(b_)] = blk
    gl = None
    for f_ in [n for n in ast.walk(main) if isinstance(n, ast.For)]:
        if any(isinstance(st, ast.Assign) and isinstance(st.value, ast.Subscript) and isinstance(st.value.value, ast.Name) and st.value.value.id == cname
               for st in ast.walk(f_)):
            gl = f_
            break
    if gl is None:
        raise AnalysisError("zmethod.getPoints: the loop over the candidate groups of a round was not found")
    ev = rc.new_eval()
    rc.ev = ev
    C3 = Vec([ev.symbol("c.x", True), ev.symbol("c.y", True), ev.symbol("c.z", True)], "point")
    ev.len_map = {"c.x": sym("Cn"), "c.y": sym("Cn"), "c.z": sym("Cn")}
    W = ev.symbol("W")
    env = {cname: C3}
    # names used for the width: bind every scalar name read in the gap test to W (role: the only scalar compared with diff(x))
    parent = blocks[id(gl)]
    k = parent.index(gl)
    fr = Frame(ev, fi, 0)
    # the gap positions are computed in an enclosing block: evaluate every assignment (in main, outside the group block) that reads the candidates
    outer = [st for st in ast.walk(main) if isinstance(st, ast.Assign) and st not in parent and len(st.targets) == 1 and isinstance(st.targets[0], ast.Name)
             and any(isinstance(n, ast.Name) and n.id == cname for n in ast.walk(st.value)) and st.targets[0].id != cname
             and not any(st in ast.walk(x) for x in parent)]
    scal = set()
    for st in outer + list(parent[:k]):
        for n in ast.walk(st):
            if isinstance(n, ast.Name) and isinstance(n.ctx, ast.Load) and n.id not in (cname, "np", "numpy", "len") and n.id not in {s_.targets[0].id for s_ in outer if isinstance(s_, ast.Assign)}:
                scal.add(n.id)
    for nme in scal:
        env.setdefault(nme, W)
    try:
        for st in outer:
            if getattr(st, "lineno", 0) < getattr(gl, "lineno", 0):
                fr.block([st], env, TRUE)
        fr.block([st for st in parent[:k] if isinstance(st, (ast.Assign, ast.Expr))], env, TRUE)
        b = bind_loop(ev, fr, gl, env)
    except Unsupported as e:
        raise AnalysisError(f"zmethod.getPoints: grouping code not modelled: {e}")
    if b is None:
        raise AnalysisError("zmethod.getPoints: group loop header has no recognised shape")
    benv = dict(env)
    benv.update(b.bindings)
    for nme, v in list(benv.items()):
        if isinstance(v, Vec) and v.kind == "list":
            benv[nme] = ev.symbol(nme + "@list")
    for nme in stored_names(gl):
        if nme in env and nme not in b.bindings and isinstance(env[nme], Rat) and nme not in (cname,):
            pass
    try:
        out = ev.eval_loop_body(fi, gl, benv)
    except Unsupported as e:
        raise AnalysisError(f"zmethod.getPoints: group loop body not modelled: {e}")
    # the group's member set: the (first) value bound in the body that is a mask / slice of the candidates
    grp = None
    for nme, v in out.env.items():
        if nme in benv and vkey_eq(benv[nme], v):
            continue
        ok_all = True
        descr = []
        for g_, c_ in cases_of(v):
            if not (isinstance(c_, Vec) and len(c_.items) == 3 and isinstance(c_.items[0], Rat)):
                ok_all = False
                break
            a_ = single_atom(c_.items[0])
            if a_ is None or a_.name not in ("mask", "slice") or not a_.args[0].equals(C3.items[0]):
                ok_all = False
                break
            descr.append((g_, a_))
        if ok_all and descr:
            grp = descr
            break
    if grp is None:
        raise AnalysisError("zmethod.getPoints: the members of a candidate group are not a mask / slice of the round's candidates - shape not recognised")
    # ---- boundaries B and gap positions G -----------------------------------------------------------------------
    Bat = {}
    for _g, a_ in grp:
        for x_ in (a_.args[1:] if a_.name == "slice" else [ev.to_rat(ev.bool_registry.get(a_.args[1].atoms()[0].extra, TRUE))]):
            pass
    idx = b.idx

    def find_B(r: Rat):
        for at_ in r.all_atoms():
            if at_.kind == "fn" and at_.name in ("at", "item") and len(at_.args) == 2:
                d_ = at_.args[1].sub(idx).is_const()
                if d_ is not None and d_ in (0, 1):
                    Bat[int(d_)] = (at_, at_.args[0])
    intervals = []
    for g_, a_ in grp:
        lo = hi = None
        if a_.name == "slice":
            lo, hi = a_.args[1], a_.args[2]
            find_B(lo)
            find_B(hi)
            if hi.symbols() == {"None"}:
                hi = sym("Cn")
        else:
            gg = ev.bool_registry.get(a_.args[1].atoms()[0].extra)
            items = gg.a if (gg is not None and gg.kind == "and") else ((gg,) if gg is not None else ())
            lo = C(0)
            for x_ in items:
                if x_.kind != "sign":
                    raise AnalysisError("zmethod.getPoints: group mask is not a conjunction of comparisons")
                # canonical form: (at(c.x, J) - c.x) in signs   <=>   c.x (<,<=,..) at(c.x, J)
                q = x_.a
                cx = C3.items[0]
                rest = q.add(cx)           # at(c.x, J)   when q = at(c.x, J) - c.x
                sg = x_.b
                if not (single_atom(rest) is not None and single_atom(rest).name == "at" and single_atom(rest).args[0].equals(cx)):
                    rest = cx.sub(q)       # q = c.x - at(c.x, J)
                    sg = frozenset(-s_ for s_ in sg)
                    if not (single_atom(rest) is not None and single_atom(rest).name == "at" and single_atom(rest).args[0].equals(cx)):
                        raise AnalysisError("zmethod.getPoints: group mask does not compare the candidates' x with the x of a boundary candidate")
                J = single_atom(rest).args[1]
                find_B(J)
                # at(c.x, J) - c.x in sg ; x strictly increasing along the candidates
                if sg == OPS[">="]:          # c.x <= x[J]  : positions <= J
                    hi = J + C(1)
                elif sg == OPS[">"]:         # c.x <  x[J]  : positions <  J
                    hi = J
                elif sg == OPS["<"]:         # c.x >  x[J]  : positions >  J
                    lo = J + C(1)
                elif sg == OPS["<="]:        # c.x >= x[J]
                    lo = J
                else:
                    raise AnalysisError("zmethod.getPoints: group mask comparator not recognised")
            if hi is None:
                hi = sym("Cn")
        intervals.append((g_, lo, hi))
    if not Bat:
        raise AnalysisError("zmethod.getPoints: the group bounds do not read a boundary array at the loop position - shape not recognised")
    Bv = next(iter(Bat.values()))[1]
    ba = single_atom(Bv)
    dedup = False
    if ba is not None and ba.name == "np.unique":
        dedup = True
        ba = single_atom(ba.args[0])
    if not (ba is not None and ba.name in ("np.hstack", "np.concatenate")):
        raise AnalysisError(f"zmethod.getPoints: group boundaries {_short(Bv, 80)} are not hstack([first], gaps, [last]) - shape not recognised")
    parts = single_atom(ba.args[0])
    if not (parts is not None and parts.name == "vec" and len(parts.args) == 3):
        raise AnalysisError("zmethod.getPoints: group boundaries are not built from three parts")
    p0, pG, pL = [single_atom(x_) for x_ in parts.args]
    if not (p0 is not None and p0.name == "vec" and len(p0.args) == 1 and pL is not None and pL.name == "vec" and len(pL.args) == 1):
        raise AnalysisError("zmethod.getPoints: first / last group boundary not recognised")
    a0, aL = p0.args[0], pL.args[0]
    Grest, cshift = split_const_(parts.args[1])
    Ga = single_atom(Grest)
    if not (Ga is not None and Ga.name.endswith("argwhere")):
        raise AnalysisError("zmethod.getPoints: the interior group boundaries are not np.argwhere(<gap test>) - shape not recognised")
    gap = ev.bool_registry.get(Ga.args[0].atoms()[0].extra) if Ga.args and Ga.args[0].atoms() else None
    gap_ok = gap is not None and gap.kind == "sign" and gap.b == OPS[">="] and any(x_.name == "np.diff" for x_ in gap.a.all_atoms()) \
        and gap.a.add(W).atoms() and not any(s_ == "W" for s_ in gap.a.add(W).symbols())
    if gap_ok:
        res.ok("Z6", "zmethod.getPoints:gaps", "group boundaries are the positions where the next candidate is >= W away in x")
    else:
        res.violation("Z6", mod, fi.name, gl, "the groups of a round are not cut at the gaps of at least W between consecutive candidates", _short(gap, 200),
                      "np.argwhere(np.diff(candidates.x) >= W)", construct="gap test")
        return
    # symbolic gap positions: Gm = G[i-1], Gi = G[i], G0, Glast
    Gm, Gi, G0, Gl = sym("G[i-1]"), sym("G[i]"), sym("G[0]"), sym("G[last]")
    cs = C(cshift)
    regimes = {"first": ({0: a0, 1: G0 + cs}, C(0), G0 + C(1), "i == 0"),
               "middle": ({0: Gm + cs, 1: Gi + cs}, Gm + C(1), Gi + C(1), "1 <= i < number of gaps"),
               "last": ({0: Gl + cs, 1: aL}, Gl + C(1), sym("Cn"), "i == number of gaps")}
    all_ok = True
    for rname, (subB, want_lo, want_hi, when) in regimes.items():
        first = rname == "first"
        picked = None
        for g_, lo, hi in intervals:
            # the case of the piecewise member set that applies in this regime
            zero = canon_sign(idx, OPS["=="])
            if g_.kind == "true" or (first and g_implies(zero, g_)) or ((not first) and g_implies(g_not(zero), g_)):
                picked = (lo, hi)
        if picked is None:
            raise AnalysisError("zmethod.getPoints: no member set applies to the " + rname + " group")
        mp = {}
        for d_, (at_, _B) in Bat.items():
            mp[at_.skey] = subB[d_]

        def sub_at(r: Rat):
            out_ = r
            for at_k, val in mp.items():
                for at_ in r.all_atoms():
                    if at_.skey == at_k:
                        out_ = _replace_atom(out_, at_, val)
            return out_
        lo_f, hi_f = sub_at(picked[0]), sub_at(picked[1])
        if first and not a0.is_zero() and lo_f.equals(a0):
            pass
        if lo_f.equals(want_lo) and hi_f.equals(want_hi):
            continue
        all_ok = False
        res.violation("Z6", mod, fi.name, gl,
                      f"the {rname} group of a round ({when}) holds the candidates at positions [{_short(lo_f, 40)}, {_short(hi_f, 40)}) instead of "
                      f"[{_short(want_lo, 40)}, {_short(want_hi, 40)}): a candidate is put into the group on the other side of a gap, so two picks of one round "
                      "can be closer than W in x" + (" (boundaries de-duplicated with np.unique: shown for rounds without duplicates)" if dedup else ""),
                      f"[{_short(lo_f, 60)}, {_short(hi_f, 60)})", f"[{_short(want_lo, 60)}, {_short(want_hi, 60)})", construct=f"group interval {rname}")
    if all_ok and dedup:
        raise AnalysisError("zmethod.getPoints: group boundaries are de-duplicated with np.unique - the effect of duplicates is not decided")
    if all_ok:
        res.ok("Z6", "zmethod.getPoints:groups", "groups are [0, G0], (G0, G1], ..., (G_last, end]: every gap >= W separates two groups")


def vkey_eq(a, b) -> bool:
    from ..gvn import vkey
    return vkey(a) == vkey(b)


def split_const_(r: Rat):
    from ..intervals import split_const
    rest, c = split_const(r)
    return rest, c


def _replace_atom(r: Rat, atom, val: Rat) -> Rat:
    """r with one (non-nested) atom replaced by a value: through a fresh symbol and substitution."""
    tmp = "__tmp_atom__"
    # build r' where atom -> sym(tmp): use linearity via subst on a renamed copy
    from ..anf import Rat as _R

    def conv_poly(p):
        acc = _R.const(0)
        for m, c in p.items():
            term = _R.const(c)
            for at_, e_ in m:
                base = val if at_.skey == atom.skey else _R.from_atom(at_)
                term = term.mul(base.pow(e_))
            acc = acc.add(term)
        return acc
    return conv_poly(r.num).div(conv_poly(r.den))
