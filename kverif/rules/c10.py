"""C10 -- Z-method knees are valid, height-ordered and mutually separated (structural part).

Z1  at both exclusion sites the keep-mask implies |x - bx| >= W and |y - by| >= H
    (a conjunction of two disjunctions over x {<=,<} bx-W, x {>=,>} bx+W, and the same in y).
Z2  a candidate is selected only if |by - y_sel| {>=,>} H for every already selected point.
Z3  the final sweep visits the selected x values in ascending order and deletes a knee iff its
    height {>,>=} the running minimum (updated on keep).
Z4  W == max(1, int(x_max * dx)), H == (y_max - y_min) * dy; x_max defaults to len(points), the
    y range to the curve's own range.
Z5  x values are mapped back to indices with searchsorted on the x column.
Termination and the iteration bound are NOT decided (they depend on numpy boolean-mask
semantics over runtime data).
"""

from __future__ import annotations

import ast

from .. import AnalysisError, anf
from ..anf import Rat, sym
from ..guards import (G, TRUE, FALSE, g_and, g_not, g_or, g_equiv, g_implies, g_sat, compare, canon_sign, OPS)
from ..gvn import Frame, Obj, PW, Vec, cases_of, veq, mk_pw, Unsupported
from ..model import keep
from .common import RuleCtx, _short

C = Rat.const


def _eval(rc: RuleCtx, fi, node, env):
    fr = Frame(rc.ev, fi, 0)
    return fr.expr(node, dict(env))


def run(ctx):
    rc = RuleCtx(ctx)
    res = ctx.result
    res.level = "other"
    for k, v in {"Z1": "keep-mask at each exclusion site implies (x <= bx-W or x >= bx+W) and (y <= by-H or y >= by+H)",
                 "Z2": "selection guarded by all(|by - y_i| >= H for selected y_i)",
                 "Z3": "sweep over sorted keys: delete iff height > running minimum; minimum updated on keep",
                 "Z4": "W == max(1, int(x_max*dx)); H == (y_max - y_min)*dy; defaults len(points) / curve range",
                 "Z5": "map_index == sort_idx[searchsorted(a, b, sorter=sort_idx)] applied to the x column and the selected x values"}.items():
        res.rule(k, v)
    fi = rc.func("zmethod.getPoints")
    mod = fi.module
    ev = rc.new_eval()
    rc.ev = ev
    pts = ev.point("points", True)
    ev.len_map = {"points": sym("n")}
    dx, dy, dz = ev.symbol("dx"), ev.symbol("dy"), ev.symbol("dz")
    loops = [st for st in fi.node.body if isinstance(st, ast.While)]
    if len(loops) != 1:
        raise AnalysisError("zmethod.getPoints: expected one main while loop")
    main = loops[0]
    k = fi.node.body.index(main)
    # the prologue up to (not including) the statement that re-binds `points`
    pro = []
    for st in fi.node.body[:k]:
        if isinstance(st, ast.Assign) and any(isinstance(t, ast.Name) and t.id == "points" for t in st.targets):
            break
        pro.append(st)
    # exclusion sites: points = points[<mask>] inside the main loop
    sites = []
    for st in ast.walk(main):
        if isinstance(st, ast.Assign) and len(st.targets) == 1 and isinstance(st.targets[0], ast.Name) and st.targets[0].id == "points" \
                and isinstance(st.value, ast.Subscript) and isinstance(st.value.value, ast.Name) and st.value.value.id == "points":
            sites.append(st)
    if len(sites) < 2:
        res.error(f"Z1: expected 2 exclusion sites in getPoints, found {len(sites)}")
    p3 = Vec([ev.symbol("p.x", True), ev.symbol("p.y", True), ev.symbol("p.z", True)], "point")
    best = Vec([ev.symbol("b.x"), ev.symbol("b.y"), ev.symbol("b.z")], "point")
    x, y, bx, by = p3.items[0], p3.items[1], best.items[0], best.items[1]
    for xm, yr, label in ((Obj("none"), Obj("none"), "defaults"), (ev.symbol("x_max"), Vec([ev.symbol("yr0"), ev.symbol("yr1")], "list"), "overrides")):
        env = {"points": pts, "dx": dx, "dy": dy, "dz": dz, "plot": FALSE, "x_max": xm, "y_range": yr}
        fr = Frame(ev, fi, 0)
        try:
            fr.block(pro, env, TRUE)
        except Unsupported as e:
            raise AnalysisError(f"zmethod.getPoints: prologue not modelled: {e}")
        if label == "defaults":
            xmax_v, ymax_v, ymin_v = sym("n"), anf.opaque("amax", pts.items[1], array=False), anf.opaque("amin", pts.items[1], array=False)
        else:
            xmax_v, ymax_v, ymin_v = sym("x_max"), sym("yr0"), sym("yr1")
        want_W = anf.f_minmax("max", [C(1), anf.opaque("int", xmax_v * dx, array=False)])
        want_H = (ymax_v - ymin_v) * dy
        # Z1 + Z4 together: the masks, evaluated with the prologue's own values for every name they use, must
        # imply the two bands with exactly W = max(1, int(x_max*dx)) and H = (y_max - y_min)*dy
        ref_x = g_or(compare("<=", x, bx - want_W), compare(">=", x, bx + want_W))
        ref_y = g_or(compare("<=", y, by - want_H), compare(">=", y, by + want_H))
        ref = g_and(ref_x, ref_y)
        for n_site, st in enumerate(sites, 1):
            idx = st.value.slice
            mask = idx.args[0] if isinstance(idx, ast.Call) and ast.unparse(idx.func) in ("np.where", "numpy.where") and len(idx.args) == 1 else idx
            names = {n.id for n in ast.walk(mask) if isinstance(n, ast.Name)}
            unknown = sorted(n for n in names if n not in env and n not in ("np", "numpy"))
            if len(unknown) != 1:
                raise AnalysisError(f"zmethod.getPoints: exclusion mask uses {unknown}; expected exactly one name for the selected point")
            menv = {}
            for nme in names:
                if nme in env:
                    v = env[nme]
                    # a piecewise width (truthy override / default): take the case that applies to this configuration
                    if isinstance(v, PW):
                        picks = [c for g_, c in v.cases if (label == "overrides") == ("truthy" in repr(g_) and g_.kind != "not")]
                        v = picks[0] if picks else v.cases[0][1]
                    menv[nme] = v
            menv["points"] = p3
            menv[unknown[0]] = best
            try:
                g = _eval(rc, fi, mask, menv)
            except Unsupported as e:
                raise AnalysisError(f"zmethod.getPoints: exclusion mask not modelled: {e}")
            if not isinstance(g, G):
                res.violation("Z1", mod, fi.name, st, "the points kept after a selection are not chosen by a boolean band mask", _short(g), str(ref), construct="exclusion mask form")
                continue
            if g_implies(g, ref):
                res.ok("Z1", f"zmethod.getPoints:site{n_site}[{label}]",
                       f"kept points lie outside the x band (W = max(1, int({xmax_v}*dx))) and the y band (H = ({_short(ymax_v, 24)} - {_short(ymin_v, 24)})*dy) of the selected point")
                res.ok("Z4", f"zmethod.getPoints:site{n_site}[{label}]", "band widths are W = max(1, int(x_max*dx)) and H = (y_max - y_min)*dy")
            else:
                # which part fails: the band structure (checked with the code's own widths) or the widths themselves?
                scal = [v for nme, v in menv.items() if isinstance(v, Rat) and not v.is_array() and nme not in ("points", unknown[0])]
                structure_ok = False
                for wc in scal:
                    for hc in scal:
                        rx = g_or(compare("<=", x, bx - wc), compare(">=", x, bx + wc))
                        ry = g_or(compare("<=", y, by - hc), compare(">=", y, by + hc))
                        if g_implies(g, g_and(rx, ry)):
                            structure_ok = True
                            found_w, found_h = wc, hc
                if structure_ok:
                    res.violation("Z4", mod, fi.name, st,
                                  f"[{label}] the separation widths are not W = max(1, int(x_max*dx)) and H = (y_max - y_min)*dy",
                                  f"W = {_short(found_w, 100)}; H = {_short(found_h, 100)}", f"W = {_short(want_W, 80)}; H = {_short(want_H, 80)}", construct=f"widths {label}")
                else:
                    missing = "x band" if g_implies(g, ref_y) else ("y band" if g_implies(g, ref_x) else "x and y bands")
                    res.violation("Z1", mod, fi.name, st,
                                  f"[{label}] after a knee is selected, points inside its {missing} stay eligible: two reported knees can be closer than (W, H)",
                                  _short(g, 300), _short(ref, 300), construct=f"exclusion mask site{n_site}")
    # ---- Z2: selection guard ------------------------------------------------------------
    sel_ok = 0
    n_sel = 0
    Hv = ev.symbol("H")
    for st in ast.walk(main):
        if not (isinstance(st, ast.If) and any(b in sites for b in st.body)):
            continue
        n_sel += 1
        # the collection of selected points: the name that receives np.append(<itself>, [[best[0], best[1]]]) in this body
        sel_names = [b.targets[0].id for b in st.body if isinstance(b, ast.Assign) and isinstance(b.targets[0], ast.Name) and isinstance(b.value, ast.Call)
                     and ast.unparse(b.value.func) in ("np.append", "numpy.append") and b.value.args and isinstance(b.value.args[0], ast.Name)
                     and b.value.args[0].id == b.targets[0].id]
        t = st.test
        good = False
        if len(sel_names) == 1 and isinstance(t, ast.Call) and isinstance(t.func, ast.Name) and t.func.id == "all" and len(t.args) == 1 and isinstance(t.args[0], ast.GeneratorExp):
            gen = t.args[0]
            if len(gen.generators) == 1 and isinstance(gen.generators[0].target, ast.Name) and not gen.generators[0].ifs \
                    and ast.unparse(gen.generators[0].iter).replace(" ", "") == f"{sel_names[0]}[:,1]":
                iv = gen.generators[0].target.id
                yi = ev.symbol("y_sel")
                names = {n.id for n in ast.walk(gen.elt) if isinstance(n, ast.Name)} - {iv, "abs"}
                # the selected point and the height: the height is the prologue scalar, the point the other name
                fr = Frame(ev, fi, 0)
                env = {"points": pts, "dx": dx, "dy": dy, "dz": dz, "plot": FALSE, "x_max": Obj("none"), "y_range": Obj("none")}
                fr.block(pro, env, TRUE)
                others = sorted(n for n in names if n not in env)
                if len(others) == 1:
                    genv = {n: env[n] for n in names if n in env}
                    genv[others[0]] = best
                    genv[iv] = yi
                    g = _eval(rc, fi, gen.elt, genv)
                    H0 = (anf.opaque("amax", pts.items[1], array=False) - anf.opaque("amin", pts.items[1], array=False)) * dy
                    want_a = canon_sign(anf.f_abs(by - yi) - H0, OPS[">="])
                    want_b = canon_sign(anf.f_abs(by - yi) - H0, OPS[">"])
                    if isinstance(g, G) and (g_equiv(g, want_a) or g_equiv(g, want_b)):
                        good = True
        if good:
            sel_ok += 1
            res.ok("Z2", f"zmethod.getPoints:select#{sel_ok}", "selected only if |by - y| >= H for every selected y")
        else:
            res.violation("Z2", mod, fi.name, st, "a candidate can be selected although it is closer than H in y to an already selected knee",
                          ast.unparse(t)[:160], "all(abs(best.y - y_i) >= H for y_i in <selected>[:, 1])", construct="selection guard")
    if n_sel < 2:
        res.error(f"Z2: expected 2 selection sites in getPoints, found {n_sel}")
    # ---- Z3: final sweep --------------------------------------------------------------------
    post = fi.node.body[k + 1:]
    sweeps = [st for st in post if isinstance(st, ast.For)]
    if len(sweeps) != 1:
        res.error("Z3: final sweep loop not found")
    else:
        sw = sweeps[0]
        ok = False
        keys_ok = False
        if len(sw.body) == 1 and isinstance(sw.body[0], ast.If) and isinstance(sw.target, ast.Name):
            br = sw.body[0]
            dels_b = [b for b in br.body if isinstance(b, ast.Delete)]
            dels_e = [b for b in br.orelse if isinstance(b, ast.Delete)]
            del_branch, keep_branch, positive = (br.body, br.orelse, True) if dels_b else (br.orelse, br.body, False)
            dels = dels_b or dels_e
            if len(dels) == 1 and len(del_branch) == 1 and isinstance(dels[0].targets[0], ast.Subscript) and isinstance(dels[0].targets[0].value, ast.Name):
                dname = dels[0].targets[0].value.id
                kname = sw.target.id
                upd = [b for b in keep_branch if isinstance(b, ast.Assign) and isinstance(b.targets[0], ast.Name)
                       and ast.unparse(b.value).replace(" ", "") == f"{dname}[{kname}]"]
                if len(upd) == 1 and len(keep_branch) == 1:
                    mname = upd[0].targets[0].id
                    # keys ascending: the iterated name is sorted(<dict>.keys())
                    for st in post:
                        if isinstance(st, ast.Assign) and isinstance(st.targets[0], ast.Name) and isinstance(sw.iter, ast.Name) and st.targets[0].id == sw.iter.id:
                            txt = ast.unparse(st.value).replace(" ", "")
                            if f"sorted({dname}.keys())" in txt and "reverse" not in txt:
                                keys_ok = True
                    import copy

                    class Sub(ast.NodeTransformer):
                        def visit_Subscript(self, node):
                            if isinstance(node.value, ast.Name) and node.value.id == dname:
                                return ast.copy_location(ast.Name(id="__h", ctx=ast.Load()), node)
                            return self.generic_visit(node)
                    test = keep(Sub().visit(copy.deepcopy(br.test)))
                    ast.fix_missing_locations(test)
                    for n in ast.walk(test):
                        mod.node_scope[id(n)] = fi.scope
                    kv, mn = ev.symbol("h"), ev.symbol("min!")
                    g = _eval(rc, fi, test, {"__h": kv, mname: mn})
                    if isinstance(g, G):
                        gd = g if positive else g_not(g)
                        if g_equiv(gd, canon_sign(kv - mn, OPS[">"])) or g_equiv(gd, canon_sign(kv - mn, OPS[">="])):
                            ok = True
        if ok and keys_ok:
            res.ok("Z3", "zmethod.getPoints:sweep", "ascending x; delete iff height > running minimum; minimum <- height on keep => heights non-increasing")
        else:
            res.violation("Z3", mod, fi.name, sw, "the final sweep does not delete exactly the knees that are higher than a knee to their left (ascending x, running minimum updated on keep)",
                          ast.unparse(sw)[:200], "for k in sorted(keys): if h[k] > min: del h[k] else: min = h[k]", construct="final sweep")
    # ---- Z5 ------------------------------------------------------------------------------------
    fm = rc.func("zmethod.map_index")
    ev2 = rc.new_eval()
    a, b = ev2.symbol("a", True), ev2.symbol("b", True)
    out = ev2.eval_function(fm, {"a": a, "b": b})
    val = out.value()
    srt = anf.opaque("np.argsort", a, array=True)
    want = anf.opaque("take", srt, anf.opaque("np.searchsorted", a, b, srt, array=True, extra=("sorter",)), array=True)
    if isinstance(val, Rat) and val.equals(want):
        res.ok("Z5", "zmethod.map_index", "sort_idx[np.searchsorted(a, b, sorter=sort_idx)] with sort_idx = argsort(a)")
    else:
        res.violation("Z5", fm.module, fm.name, fm.node, "map_index is not sort_idx[searchsorted(a, b, sorter=sort_idx)]", _short(val, 200), _short(want, 200), construct="map_index")
    fk = rc.func("zmethod.knees")
    ev3 = rc.new_eval()
    ev3.no_inline |= {"zmethod.map_index"}
    p2 = ev3.point("points", True)
    args = {"points": p2}
    for p in fk.signature.positional[1:]:
        args[p] = ev3.symbol(p)
    out = ev3.eval_function(fk, args)
    val = out.value()
    good = False
    if isinstance(val, Rat):
        for at in val.all_atoms():
            if at.kind == "fn" and at.name == "call:zmethod.map_index":
                amap = dict(zip(at.extra or (), at.args))
                if amap.get("a") is not None and amap["a"].equals(p2.items[0]) and any(x.name == "call:zmethod.getPoints" for x in amap.get("b", C(0)).all_atoms()):
                    good = True
    if good:
        res.ok("Z5", "zmethod.knees", "returns map_index(points[:, 0], getPoints(...))")
    else:
        res.violation("Z5", fk.module, fk.name, fk.node, "the selected x values are not converted to indices of the x column", _short(val, 200),
                      "map_index(points[:, 0], np.array(getPoints(...)))", construct="knees mapping")
    res.assumptions += ["strictly increasing non-negative integer x, y in [0, 1], dx, dy, dz > 0", "W, H >= 0"]
    res.not_decided += ["termination and the iteration bound of the selection loop (needs: points_added > 0 => len(points) decreases - a fact about numpy masks on runtime data)",
                        "x-separation among same-round candidates", "validity for non-integer x"]
    res.require_instances("C10 obligations", len(res.obligations), 12)
