"""C13 -- worst-knee and corner filters implement exactly their selection rules.

W1  filter_worst_knees is the running-minimum automaton: first knee kept; a knee is kept iff
    h <= h_min (ties kept); h_min <- h exactly on the keep path; h = y of points[knees[i]].
W2  filter_corner_knees / select_corner_knees evaluate the same IoU predicate on the same
    three points under the same interior test; keep on p < t resp. p >= t; the filter keeps
    knees at either end.  Their keep-guards partition every knee (exactly one holds) -- proved
    by finite sign enumeration.
W3  provenance / order: every emitted value is knees[i] for the current position i, at most
    one per position, positions ascending.
"""

from __future__ import annotations

import ast

from .. import AnalysisError, anf
from ..anf import Rat, sym
from ..guards import (G, TRUE, FALSE, g_and, g_not, g_or, g_equiv, g_implies, g_sat, compare, canon_sign, OPS, count_true)
from ..gvn import Frame, Obj, PW, Vec, cases_of, veq, mk_pw, Unsupported
from .common import section, RuleCtx, _short, locate_loop, stored_names, range_args, sign_set_name, returned_names

C = Rat.const


def _at(x, i):
    return anf.opaque("at", x, i, array=False)


def iou_ref(amin, amax, bmin, bmax):
    dx = anf.f_minmax("max", [C(0), anf.f_minmax("min", [amax[0], bmax[0]]) - anf.f_minmax("max", [amin[0], bmin[0]])])
    dy = anf.f_minmax("max", [C(0), anf.f_minmax("min", [amax[1], bmax[1]]) - anf.f_minmax("max", [amin[1], bmin[1]])])
    inter = dx * dy
    area_a = anf.f_abs(amax[0] - amin[0]) * anf.f_abs(amax[1] - amin[1])
    area_b = anf.f_abs(bmax[0] - bmin[0]) * anf.f_abs(bmax[1] - bmin[1])
    return inter, inter / (area_a + area_b - inter)


def rect_ref(p, q):
    lo = (anf.f_minmax("min", [p[0], q[0]]), anf.f_minmax("min", [p[1], q[1]]))
    hi = (anf.f_minmax("max", [p[0], q[0]]), anf.f_minmax("max", [p[1], q[1]]))
    return lo, hi


def loop_env(rc: RuleCtx, fi, extra=None):
    """Evaluates everything before the (first, outermost) loop; returns (ev, env, loop, post, frame)."""
    ev = rc.new_eval()
    pts = ev.point("points", True)
    knees = ev.symbol("knees", True)
    ev.len_map = {"points": sym("n"), "knees": sym("K")}
    env = {"points": pts, "knees": knees}
    if extra:
        env.update(extra(ev))
    pre, loop, post, conds = locate_loop(fi)
    fr = Frame(ev, fi, 0)
    try:
        fr.block([st for st in pre if not isinstance(st, ast.If)], env, TRUE)
    except Unsupported as e:
        raise AnalysisError(f"{fi.qualname}: pre-loop code not modelled: {e}")
    return ev, env, loop, post, fr


def body_transfer(rc: RuleCtx, ev, fi, loop, env, out_list: str, binding=None):
    from .common import bind_loop
    benv = dict(env)
    if binding is None:
        binding = bind_loop(ev, Frame(ev, fi, 0), loop, env)
    if binding is None:
        raise AnalysisError(f"{fi.qualname}: loop header {ast.unparse(loop.iter)!r} has no recognised shape")
    benv.update(binding.bindings)
    carried = [n for n in stored_names(ast.Module(body=loop.body, type_ignores=[])) if n in env and n != out_list]
    for n in carried:
        benv[n] = ev.symbol(n)
    benv[out_list] = ev.symbol(out_list + "@list")
    try:
        out = ev.eval_loop_body(fi, loop, benv)
    except Unsupported as e:
        raise AnalysisError(f"{fi.qualname}: loop body not modelled: {e}")
    if out.breaks or out.returns:
        raise AnalysisError(f"{fi.qualname}: break / return inside the filter loop - shape not recognised")
    benv["__pos__"] = binding.idx
    return out, benv, carried


def output_list(fi, post, env) -> str:
    rn = returned_names(post)
    if rn is None:
        raise AnalysisError(f"{fi.qualname}: expected one return after the loop")
    names = [n for n in sorted(rn) if isinstance(env.get(n), Vec) and env[n].kind == "list"]
    if len(names) != 1:
        raise AnalysisError(f"{fi.qualname}: cannot identify the output list")
    return names[0]


def emit_map(ev, fr, fi, post, env, out_list: str):
    """How the returned array is made from the output list: the function applied to each recorded element.  The identity for
    `return L` / `np.array(L)`; for a loop that records *positions* and returns `np.array([knees[i] for i in L])` the map is
    i -> knees[i].  Found by evaluating the return expression on a one-element list holding a placeholder."""
    rets = [st for st in post if isinstance(st, ast.Return)]
    if len(rets) != 1 or rets[0].value is None:
        raise AnalysisError(f"{fi.qualname}: expected one return after the loop")
    rv = rets[0].value
    if isinstance(rv, ast.Name) or (isinstance(rv, ast.Call) and len(rv.args) == 1 and isinstance(rv.args[0], ast.Name) and rv.args[0].id == out_list):
        return lambda v: v
    if not any(isinstance(n, (ast.ListComp, ast.GeneratorExp, ast.Subscript)) for n in ast.walk(rv)):
        return lambda v: v
    ph = ev.symbol("@elt")
    env2 = dict(env)
    env2[out_list] = Vec([ph], "list")
    try:
        fr.block([st for st in post if st is not rets[0]], env2, TRUE)
        img = fr.expr(rv, env2)
    except Unsupported as e:
        raise AnalysisError(f"{fi.qualname}: the return expression is not read as an element-wise image of the output list: {e}")
    if isinstance(img, Vec) and img.kind in ("list", "arr") and len(img.items) == 1 and isinstance(img.items[0], Rat):
        f = img.items[0]
        if f.equals(ph):
            return lambda v: v

        from .common import account_returns
        account_returns(fi)             # (the return expression was read as an element-wise image of the output list)

        def apply(v, f=f):
            if isinstance(v, Rat):
                return f.subst({"@elt": v})
            raise AnalysisError(f"{fi.qualname}: a recorded element that is not a scalar is mapped by the return expression - shape not recognised")
        return apply
    raise AnalysisError(f"{fi.qualname}: the return expression is not read as an element-wise image of the output list ({ast.unparse(rv)[:70]})")


def check_provenance(rc: RuleCtx, rule: str, fi, loop, out, out_list: str, knees: Rat, position: Rat, what="knees[i]", emap=None) -> bool:
    """Every append to the output list emits the input element at the current position; at most one per iteration."""
    res = rc.res
    emap = emap or (lambda v: v)
    apps = [e for e in out.events if e.kind == "append" and e.target == out_list]
    other = [e for e in out.events if e.target == out_list and e.kind not in ("append",)]
    ok = True
    for e in other:
        ok = False
        res.violation(rule, fi.module, fi.name, e.node, f"the output list is modified by .{e.kind}() inside the loop", construct=f"{out_list}.{e.kind}")
    lo, hi = count_true([e.guard for e in apps])
    if hi > 1:
        ok = False
        res.violation(rule, fi.module, fi.name, loop, f"up to {hi} elements are emitted for one input position", str([str(e.guard) for e in apps]),
                      "at most one append per position", construct="appends per position")
    want = _at(knees, position)
    for e in apps:
        for g, v in cases_of(e.args[0]):
            if not g_sat(g_and(g, e.guard)):
                continue
            v = emap(v)
            if not (isinstance(v, Rat) and v.equals(want)):
                ok = False
                res.violation(rule, fi.module, fi.name, e.node, f"the emitted value is not the input element {what} of the current position",
                              _short(v), _short(want), construct="emitted element")
    if ok:
        res.ok(rule, f"{fi.qualname}:provenance", f"{len(apps)} append site(s); each emits {what}; at most one per position; positions ascending")
    return ok


def check_range(rc: RuleCtx, rule: str, fi, loop, fr, env, lo_want: int, hi_want: Rat) -> bool:
    from .common import bind_loop
    b = bind_loop(fr.ev, fr, loop, env) if isinstance(loop, ast.For) else None
    if b is None:
        raise AnalysisError(f"{fi.qualname}: loop header {ast.unparse(loop.iter) if isinstance(loop, ast.For) else 'while'!r} has no recognised shape")
    if b.visits(lo_want, hi_want):
        rc.res.ok(rule, f"{fi.qualname}:range", f"positions {lo_want}..{hi_want}-1 visited once each in ascending order ({b.what})")
        return True
    rc.res.violation(rule, fi.module, fi.name, loop, "the loop does not visit every required input position exactly once in ascending order",
                     f"positions {b.lo}..{b.hi}-1 ({ast.unparse(loop.iter)})", f"positions {lo_want}..{hi_want}-1", construct="loop range")
    return False


def run(ctx):
    rc = RuleCtx(ctx)
    res = ctx.result
    res.level = "proof"
    res.rule("W1", "running-minimum automaton: first kept; keep iff sign(h - h_min) in {-,0}; h_min <- h exactly on keep; h = points[knees[i]].y")
    res.rule("W2", "filter/selector evaluate the same IoU of rect((p0.x,p2.y),p1) and rect(p0,p2) under the same interior test; keep on p < t resp. p >= t; filter keeps end knees; keep-guards partition")
    res.rule("W3", "every emitted value is knees[i] of the current position; at most one per position; ascending positions")
    section(rc, _worst)
    section(rc, _corners)
    res.assumptions += ["knees ascending valid indices", "real-number reading of the IoU"]
    res.not_decided += ["idempotence is a corollary of W1 / W2 (the predicate depends on points and the knee only), not separately checked"]
    from .common import hidden_state as _hidden_state
    _hidden_state(rc, "W5", ['postprocessing.filter_worst_knees', 'postprocessing.filter_corner_knees', 'postprocessing.select_corner_knees'], "worst-knee and corner filters")
    res.require_instances("C13 obligations", len(res.obligations), 12)


def check_short_input(rc: RuleCtx, rule: str, fi, extra_args=None, allow=None, label: str = "") -> bool:
    """Every path that returns the knees argument itself (unfiltered) must be guarded by len(knees) <= 1:
    with two or more knees the selection rule has to be applied."""
    from ..intervals import int_bounds
    res = rc.res
    ev = rc.new_eval()
    ev.inline_depth = 0          # only the function's own exits matter here: helpers stay opaque calls of their arguments
    pts = ev.point("points", True)
    knees = ev.symbol("knees", True)
    ev.len_map = {"points": sym("n"), "knees": sym("K")}
    args = {"points": pts, "knees": knees}
    if extra_args:
        args.update(extra_args(ev))
    try:
        out = ev.eval_function(fi, args)
    except Unsupported as e:
        raise AnalysisError(f"{fi.qualname}: not modelled: {e}")
    # (the exits that hand back the input itself are judged here: each must be confined to at most one knee)
    from .common import account_exits
    from .common import returned_expr as _rexpr

    def _is_input(r):
        e = _rexpr(fi, r)
        if isinstance(e, ast.Call) and ast.unparse(e.func) in ("np.array", "np.asarray", "numpy.array") and len(e.args) == 1 and all(k.arg == "dtype" for k in e.keywords):
            e = e.args[0]
        return isinstance(e, ast.Name) and e.id == "knees"
    account_exits(fi, _is_input)
    ok = True
    n = 0
    for g, v in out.returns:
        if isinstance(v, Rat) and v.equals(knees):
            n += 1
            # g may be a disjunction of paths: every disjunct must bound K by 1
            parts = g.a if g.kind == "or" else (g,)
            for part in parts:
                lo, hi = int_bounds(part, sym("K"))
                if (hi is None or hi > 1) and allow is not None and allow(ev, args, part):
                    continue            # another situation in which nothing has to be filtered (stated by the caller)
                if hi is None or hi > 1:
                    ok = False
                    res.violation(rule, fi.module, fi.name, fi.node,
                                  f"the knees are returned unfiltered under {part}, which admits two or more knees: the selection rule is skipped for them",
                                  str(part), "return knees only when len(knees) <= 1", construct="short input guard")
    if ok:
        res.ok(rule, f"{fi.qualname}:short-input{label}", f"{n} early return(s) of the input itself, each guarded by len(knees) <= 1 (or an allowed no-op situation)")
    return ok


def _worst(rc: RuleCtx):
    res = rc.res
    fi = rc.func("postprocessing.filter_worst_knees")
    mod = fi.module
    check_short_input(rc, "W1", fi)
    ev, env, loop, post, fr = loop_env(rc, fi)
    L = output_list(fi, post, env)
    knees, pts = env["knees"], env["points"]
    py = pts.items[1]
    emap = emit_map(ev, fr, fi, post, env, L)
    seed = Vec([emap(x) for x in env[L].items], "list")
    k0 = _at(knees, C(0))
    # short inputs are returned unchanged
    first_if = fi.node.body[-1] if isinstance(fi.node.body[-1], ast.If) else None
    if len(seed.items) == 1 and isinstance(seed.items[0], Rat) and seed.items[0].equals(k0):
        res.ok("W1", f"{fi.qualname}:first", "the first knee is always kept")
    else:
        res.violation("W1", mod, fi.name, fi.node, "the output does not start with the first knee", str(seed), "[knees[0]]", construct="first knee")
    if not check_range(rc, "W3", fi, loop, fr, env, 1, sym("K")):
        return
    out, benv, carried = body_transfer(rc, ev, fi, loop, env, L)
    i = benv["__pos__"]
    check_provenance(rc, "W3", fi, loop, out, L, knees, i, emap=emap)
    apps = [e for e in out.events if e.kind == "append" and e.target == L]
    keep = g_or(*[e.guard for e in apps]) if apps else FALSE
    h = _at(py, _at(knees, i))
    # the running minimum variable: the carried variable whose initial value is the first knee's height
    h0 = _at(py, k0)
    mins = [n for n in carried if isinstance(env.get(n), Rat) and env[n].equals(h0)]
    if len(mins) != 1:
        res.violation("W1", mod, fi.name, fi.node, "no running minimum initialised with the height of the first knee", str({n: str(env.get(n)) for n in carried}),
                      "h_min = points[knees[0]].y", construct="running minimum init")
        return
    hm = mins[0]
    want_keep = canon_sign(h - sym(hm), OPS["<="])
    if g_equiv(keep, want_keep):
        res.ok("W1", f"{fi.qualname}:keep", f"kept iff {want_keep} (ties kept)")
    else:
        msg = "a knee is not kept exactly when its height is <= the lowest height kept so far"
        if keep.kind == "sign" and want_keep.kind == "sign" and keep.a.equals(want_keep.a):
            msg += f" (comparator {sign_set_name(_orient(keep, h - sym(hm)))}; the rule keeps ties: <=)"
        res.violation("W1", mod, fi.name, loop, msg, str(keep), str(want_keep), construct="keep guard")
    new = out.env.get(hm)
    good = True
    for g, v in cases_of(new):
        for cond, want in ((keep, h), (g_not(keep), sym(hm))):
            if g_sat(g_and(g, cond)) and not (isinstance(v, Rat) and v.equals(want)):
                good = False
                res.violation("W1", mod, fi.name, loop, f"the running minimum becomes {v} on the {'keep' if cond is keep else 'drop'} path, required {want}",
                              _short(v), _short(want), construct=f"running minimum update {'keep' if cond is keep else 'drop'}")
    if good:
        res.ok("W1", f"{fi.qualname}:update", "h_min <- h exactly on the keep path")


def _orient(g: G, quantity: Rat):
    want = canon_sign(quantity, OPS["<"])
    if want.kind == "sign" and not want.a.equals(quantity):
        return frozenset(-s for s in g.b)
    return g.b


def corner_guard(rc: RuleCtx, name: str):
    """(keep guard, interior guard, env pieces) of one corner function's loop body."""
    fi = rc.func(f"postprocessing.{name}")
    ev, env, loop, post, fr = loop_env(rc, fi, extra=lambda e: {"t": e.symbol("t")})
    L = output_list(fi, post, env)
    if len(env[L].items) != 0:
        rc.res.violation("W3", fi.module, fi.name, fi.node, "the output list is not empty before the loop", str(env[L]), "[]", construct="initial output")
    ok = check_range(rc, "W3", fi, loop, fr, env, 0, sym("K"))
    if not ok:
        return None
    out, benv, carried = body_transfer(rc, ev, fi, loop, env, L)
    i = benv["__pos__"]
    check_provenance(rc, "W3", fi, loop, out, L, env["knees"], i, emap=emit_map(ev, fr, fi, post, env, L))
    apps = [e for e in out.events if e.kind == "append" and e.target == L]
    keep = g_or(*[e.guard for e in apps]) if apps else FALSE
    return fi, loop, keep, env, i


def _corners(rc: RuleCtx):
    res = rc.res
    # an exit that hands back the knees unfiltered is right for at most one knee only (both functions look at every knee)
    for q_ in ("filter_corner_knees", "select_corner_knees"):
        try:
            check_short_input(rc, "W3", rc.func(f"postprocessing.{q_}"), extra_args=lambda e: {"t": e.symbol("t")}, label=f"[{q_}]")
        except AnalysisError:
            pass            # (the function is not read as a whole: an exit in front of its loop, if any, is then left to the early-exit audit)
    a = corner_guard(rc, "filter_corner_knees")
    b = corner_guard(rc, "select_corner_knees")
    if a is None or b is None:
        return
    fi_f, loop_f, keep_f, env, i = a
    fi_s, loop_s, keep_s, env_s, i_s = b
    # reference predicate on symbols shared by both (same symbol names in both evaluations)
    px, py = (sym("points.x", True), sym("points.y", True))
    knees = sym("knees", True)
    idx = _at(knees, i)
    n = sym("n")
    t = sym("t")
    interior = g_and(compare(">=", idx - C(1), C(0)), compare("<", idx + C(1), n))
    p0 = (_at(px, idx - C(1)), _at(py, idx - C(1)))
    p1 = (_at(px, idx), _at(py, idx))
    p2 = (_at(px, idx + C(1)), _at(py, idx + C(1)))
    corner0 = (p0[0], p2[1])
    amin, amax = rect_ref(corner0, p1)
    bmin, bmax = rect_ref(p0, p2)
    inter, iou = iou_ref(amin, amax, bmin, bmax)
    pos = canon_sign(inter, OPS[">"])
    p_lt = g_or(g_and(pos, canon_sign(iou - t, OPS["<"])), g_and(g_not(pos), canon_sign(C(0) - t, OPS["<"])))
    want_f = g_or(g_and(interior, p_lt), g_not(interior))
    want_s = g_and(interior, g_not(p_lt))
    # the two functions may name their position differently: express the selector's guard over the filter's position
    if not i_s.equals(i):
        from ..guards import G as _G
        keep_s = _subst_guard(keep_s, {next(iter(i_s.symbols())): i})
    for (fi, loop, keep, want, what) in ((fi_f, loop_f, keep_f, want_f, "kept iff it is an end knee or IoU < t"),
                                         (fi_s, loop_s, keep_s, want_s, "selected iff it has both neighbours and IoU >= t")):
        try:
            eq = g_equiv(keep, want)
        except Exception as e:
            raise AnalysisError(f"{fi.qualname}: guard comparison too large: {e}")
        if eq:
            res.ok("W2", f"{fi.qualname}:predicate", what)
        else:
            res.violation("W2", fi.module, fi.name, loop,
                          f"the selection guard is not '{what}' with IoU of rect((p0.x,p2.y),p1) and rect(p0,p2) on points[idx-1..idx+1]",
                          _short(keep, 300), _short(want, 300), construct="corner keep guard")
    lo, hi = count_true([keep_f, keep_s])
    if (lo, hi) == (1, 1):
        res.ok("W2", "postprocessing.filter_corner_knees+select_corner_knees:partition",
               "for every knee exactly one of the two keep-guards holds: the outputs partition the input")
        res.sample({"partition": "count_true([keep_filter, keep_selector]) == (1, 1)", "keep_selector": _short(keep_s, 200)})
    else:
        res.violation("W2", fi_f.module, "filter_corner_knees+select_corner_knees", loop_f,
                      f"the number of the two functions that keep a given knee ranges over [{lo}, {hi}], not exactly 1: they do not partition the knee list",
                      f"[{lo}, {hi}]", "exactly one", construct="corner partition")


def _subst_guard(g: G, mapping):
    """Substitute symbols inside the sign facts of a guard."""
    if g.kind == "sign":
        return canon_sign(g.a.subst(mapping), g.b)
    if g.kind == "not":
        return g_not(_subst_guard(g.a, mapping))
    if g.kind == "and":
        return g_and(*[_subst_guard(x, mapping) for x in g.a])
    if g.kind == "or":
        return g_or(*[_subst_guard(x, mapping) for x in g.a])
    return g
