"""C15 -- global reconstruction cost matches its definition and is cache-transparent.

U1  memo soundness: every value stored in the cache depends only on its key, on
    `points` and on the metric; reads use the key that was stored; the callees
    that compute it are pure (E3 summaries).  => a shared cache is transparent.
U2  segments with <= 2 points store the literal 0.
U3  divisor == len(points) + #segments - 1.
U4  the final cost is clipped at 0.
U5  finalise(sum of partial costs) is the C16 formula over the concatenated
    segments; each partial cost is the un-normalised summand of the homonymous
    metric on (y, endpoint line).
U6  global RMSE == sqrt(sum of segment SSE / len(points)); MIP == median over
    interior breakpoints of rmse(reduced minus i) - rmse(reduced), MAD second.
"""

from __future__ import annotations

import ast
from fractions import Fraction

from .. import AnalysisError, anf
from ..anf import Rat, sym
from ..guards import (G, TRUE, FALSE, g_and, g_not, g_or, g_equiv, g_implies, g_sat, compare, canon_sign, OPS)
from ..gvn import Frame, Obj, PW, Vec, cases_of, veq, mk_pw, Unsupported, vkey
from ..intervals import single_atom
from ..mutation import MutationAnalysis
from ..ref import ref
from .common import section, RuleCtx, _short, split_at_loop, stored_names, range_args, judge

C = Rat.const
METRICS = ["r2", "rmsle", "rmspe", "rpd", "smape"]
PARTIAL_REFS = {
    "r2": "Sum((y - y_hat)**2)",
    "rmsle": "Sum((log(y + 1) - log(y_hat + 1))**2)",
    "rmspe": "Sum(((y - y_hat) / (y + eps))**2)",
    "rpd": "Sum(abs((y - y_hat) / (max(y, y_hat) + eps)))",
    "smape": "Sum(2 * abs(y_hat - y) / (abs(y) + abs(y_hat) + eps))",
}


def _at(x, i):
    return anf.opaque("at", x, i, array=False)


def run(ctx):
    rc = RuleCtx(ctx)
    res = ctx.result
    res.level = "proof"
    for k, v in {"U1": "every cache store: def-use closure of the stored value within key components + points + metric; reads use the stored key; computing callees are pure",
                 "U2": "a segment with <= 2 points stores the literal 0 (guard len <= 2 or len < 3)",
                 "U3": "divisor total == len(points) + len(segment_errors) - 1 with len(segment_errors) == len(reduced) - 1",
                 "U4": "final cost clipped: negative -> 0, otherwise unchanged",
                 "U5": "per metric: finalise(sum partial) == sqrt(S/total) (rmsle, rmspe), S/total (rpd, smape), 1 - rss/tss resp. 1 - rss when tss == 0 (r2); partial == un-normalised summand of the metric",
                 "U6": "global RMSE == sqrt(sum segment SSE / len(points)); MIP == median_i(rmse(reduced without i) - rmse(reduced)), MAD second"}.items():
        res.rule(k, v)
    res.rule("U7", "no cache-like parameter of evaluation / rdp has a mutable default that the function (or a callee it is passed to) writes: "
                   "one cache object is never shared between calls that did not ask for it")
    section(rc, _mutable_defaults)
    section(rc, _global_cost_loop)
    section(rc, _compute_cost)
    section(rc, _partial)
    section(rc, _global_rmse)
    section(rc, _mip)
    res.assumptions += ["real-number reading", "one cache is used with one metric and one curve (the statement's query sequences share a metric)",
                        "breakpoints ascending valid indices"]
    res.not_decided += ["bit-identity under floating point follows from U1 (same expression on the same operands) and is not separately checked",
                        "non-negativity of R2 before the clip"]
    res.require_instances("C15 obligations", len(res.obligations), 20)


def _segment_loop(rc: RuleCtx, qual: str, cost_value):
    """Common front end for compute_global_cost / compute_global_rmse: returns pieces of the loop transfer."""
    fi = rc.func(qual)
    ev = rc.new_eval()
    pts = ev.point("points", True)
    red = ev.symbol("reduced", True)
    ev.len_map = {"points": sym("n"), "reduced": sym("R")}
    cache = ev.symbol("cache")
    pre, loop, post = split_at_loop(fi)
    env = {"points": pts, "reduced": red, "cache": cache}
    if cost_value is not None:
        env["cost"] = cost_value
    fr = Frame(ev, fi, 0)
    # the `if cache is None: cache = {}` prologue only re-binds the local name
    pre_eff = [st for st in pre if not (isinstance(st, ast.If) and "cache" in ast.unparse(st.test))]
    try:
        fr.block(pre_eff, env, TRUE)
    except Unsupported as e:
        raise AnalysisError(f"{qual}: pre-loop code not modelled: {e}")
    return fi, ev, env, pre, loop, post, fr


def _global_cost_loop(rc: RuleCtx):
    res = rc.res
    fi, ev, env, pre, loop, post, fr = _segment_loop(rc, "evaluation.compute_global_cost", None)
    mod = fi.module
    cost = ev.symbol("cost")
    env["cost"] = cost
    pts, red, cache = env["points"], env["reduced"], env["cache"]
    # an exit in front of the segment loop for "every point is a breakpoint": all segments have two points and no error, so the
    # cost is the metric's perfect score - 0 for the error metrics, 1 for R2.  One constant for every metric is wrong for one of them.
    all_kept = canon_sign(sym("R") - sym("n"), OPS["=="])
    for g_, v_ in fr.returns:
        if not g_sat(g_):
            continue
        if g_implies(g_, all_kept) and isinstance(v_, Rat) and v_.is_const() is not None and "cost" not in str(g_) and "Metrics" not in str(g_):
            res.violation("U4", mod, fi.name, fi.node,
                          f"with every point kept as a breakpoint the function returns {v_} for every metric: a perfect reconstruction scores 0 for the error metrics and 1 for R2",
                          f"return {v_} under {_short(g_, 80)}", "compute_cost(points, zeros, cost): 0, or 1 for Metrics.r2", construct="all-breakpoints exit")
    # U3 (first half): segment_errors has len(reduced) - 1 entries
    seg_names = [n for n, v in env.items() if n not in ("points", "reduced", "cache", "cost")]
    zeros = [st for st in pre if isinstance(st, ast.Assign) and isinstance(st.value, ast.Call)
             and ast.unparse(st.value.func) in ("np.zeros", "numpy.zeros")]
    ok3 = False
    seg_name = None
    if len(zeros) == 1 and isinstance(zeros[0].targets[0], ast.Name):
        seg_name = zeros[0].targets[0].id
        nseg = fr.expr(zeros[0].value.args[0], env)
        if isinstance(nseg, Rat) and nseg.equals(sym("R") - C(1)):
            ok3 = True
    if ok3:
        res.ok("U3", f"{fi.qualname}:segments", "one error slot per consecutive breakpoint pair: len(reduced) - 1")
    else:
        res.violation("U3", mod, fi.name, fi.node, "the per-segment error vector does not have len(reduced) - 1 entries",
                      ast.unparse(zeros[0].value) if zeros else "?", "np.zeros(len(reduced) - 1)", construct="segment vector length")
    # loop header and carried left / right (roles, any equivalent loop shape)
    from .common import bind_loop
    b = bind_loop(ev, fr, loop, env)
    if b is None:
        raise AnalysisError(f"{fi.qualname}: segment loop header {ast.unparse(loop.iter)!r} has no recognised shape")
    benv = dict(env)
    benv.update(b.bindings)
    ivar = next(iter(b.idx.symbols()))
    i = b.idx
    carried = [n for n in stored_names(ast.Module(body=loop.body, type_ignores=[])) if n in env]
    # role: the running left end = the carried variable initialised with reduced[0]
    lnames = [n for n in carried if isinstance(env.get(n), Rat) and env[n].equals(_at(red, C(0)))]
    if len(lnames) != 1:
        res.violation("U1", mod, fi.name, fi.node, "the first segment does not start at reduced[0]", str({n: str(env.get(n)) for n in carried}), "left = reduced[0]",
                      construct="left init")
        return
    lname = lnames[0]
    for nme in carried:
        benv[nme] = ev.symbol(nme)
    left = benv[lname]
    try:
        out = ev.eval_loop_body(fi, loop, benv)
    except Unsupported as e:
        raise AnalysisError(f"{fi.qualname}: loop body not modelled: {e}")
    # the right end of the current segment = the value the left end takes for the next iteration
    right = out.env.get(lname)
    e_idx = None
    if isinstance(right, Rat):
        ra_ = single_atom(right)
        if ra_ is not None and ra_.name == "at" and ra_.args[0].equals(red):
            e_idx = ra_.args[1]
    chain_ok = e_idx is not None and (e_idx - i).is_const() is not None and (b.lo + (e_idx - i)).is_const() == 1 and (b.hi + (e_idx - i)).equals(sym("R"))
    if chain_ok:
        res.ok("U1", f"{fi.qualname}:chain", "consecutive segments (left, right) = (reduced[k-1], reduced[k]) for k = 1..len(reduced)-1")
    else:
        res.violation("U1", mod, fi.name, loop, "segments are not the consecutive breakpoint pairs (reduced[k-1], reduced[k]), k = 1..len(reduced)-1",
                      f"left' = {_short(right, 80)} over positions {b.lo}..{b.hi}", "left <- reduced[k], k = 1..len(reduced)-1", construct="segment chain")
        return
    key = Vec([left, right])
    stores = [e for e in out.events if e.kind == "store" and e.target == "cache"]
    reads_ok = True
    allowed = {"points.x", "points.y", lname, "cost", "reduced", ivar, "None", "eps"}
    n_store = 0
    zero_guards = []
    value_cases = []
    for e in stores:
        k, v = e.args
        n_store += 1
        if not veq(k, key):
            res.violation("U1", mod, fi.name, e.node, "a segment value is cached under a key that is not the segment's (left, right) pair",
                          _short(k), "(left, right)", construct="cache key")
            continue
        # the store must be guarded by `key not in cache`
        notin = g_not(G("atom", ("in", vkey(key), vkey(cache))))
        if not g_implies(e.guard, notin):
            res.violation("U1", mod, fi.name, e.node, "a cached segment value can be overwritten although its key is present", str(e.guard),
                          "guarded by (left, right) not in cache", construct="cache overwrite")
        # dependency closure
        syms = set()
        for g, x in cases_of(v):
            if isinstance(x, Rat):
                syms |= x.symbols()
                value_cases.append((g_and(e.guard, g), x))
                if x.is_zero():
                    zero_guards.append(g_and(e.guard, g))
            else:
                syms.add(f"<non-numeric {x!r}>")
            for gv in _guard_symbols(g):
                syms.add(gv)
        for gv in _guard_symbols(e.guard):
            syms.add(gv)
        extra = {s for s in syms if s not in allowed and not s.startswith("Metrics")}
        # `reduced`/i may only enter through the key component right = reduced[i]
        bad = set(extra)
        if not bad and _uses_outside_key(v, red, i, right):
            bad.add("reduced / i outside the key component reduced[i]")
        if bad:
            res.violation("U1", mod, fi.name, e.node,
                          f"the cached value depends on {sorted(bad)}, which is not part of the key (left, right), `points` or the metric: a shared cache returns a stale value",
                          _short(v), "value determined by (left, right), points, cost", construct="cache value closure")
        else:
            res.ok("U1", f"{fi.qualname}:store#{n_store}", f"value depends only on {sorted(s for s in syms if s in allowed)}")
    if n_store == 0:
        res.error("U1: no cache store found in compute_global_cost - shape not recognised")
    # reads
    seg_stores = [e for e in out.events if e.kind == "store" and e.target == seg_name]
    rd_ok = False
    for e in seg_stores:
        idx, v = e.args
        want_idx = e_idx - C(1)
        if isinstance(idx, Rat) and idx.equals(want_idx) and e.guard.kind == "true":
            vals = [x for _g, x in cases_of(v)]
            if all(_is_cache_item(x, cache, key) or any(veq(x, c) for _gg, c in value_cases) for x in vals):
                rd_ok = True
    if rd_ok:
        res.ok("U1", f"{fi.qualname}:read", "segment_errors[i-1] <- cache[(left, right)] (same key as stored), unconditionally")
    else:
        res.violation("U1", mod, fi.name, loop, "the value used for segment i-1 is not the cache entry of that segment's own key",
                      str([(str(e.args[0]), _short(e.args[1])) for e in seg_stores]), "segment_errors[i-1] = cache[(left, right)]", construct="cache read")
    # U2
    seg_len = right + C(1) - left
    small_a = canon_sign(seg_len - C(2), OPS["<="])
    small_b = canon_sign(seg_len - C(3), OPS["<"])
    notin = g_not(G("atom", ("in", vkey(key), vkey(cache))))
    zg = g_or(*zero_guards) if zero_guards else FALSE
    if g_equiv(zg, g_and(notin, small_a)) or g_equiv(zg, g_and(notin, small_b)):
        res.ok("U2", fi.qualname, "segments with <= 2 points store the literal 0 without evaluating a fit")
    else:
        res.violation("U2", mod, fi.name, loop, "the literal 0 is not stored exactly for segments with at most 2 points", str(zg),
                      "len(points[left:right+1]) <= 2", construct="short segment rule")
    # the non-trivial value: partial cost of (y, endpoint line) on points[left:right+1]
    xs = anf.opaque("slice", pts.items[0], left, right + C(1), array=True)
    ys = anf.opaque("slice", pts.items[1], left, right + C(1), array=True)
    x0, xn, y0, yn = _at(pts.items[0], left), _at(pts.items[0], right), _at(pts.items[1], left), _at(pts.items[1], right)
    m = (y0 - yn) / (x0 - xn)
    b = y0 - m * x0
    yhat = xs * m + b
    ok5 = True
    n5 = 0
    for g, x in value_cases:
        if x.is_zero():
            continue
        # identify the metric from the guard
        metric = None
        for mname in METRICS:
            fact = G("atom", ("same", tuple(sorted([repr(vkey(cost)), repr(Obj("enum", f"Metrics.{mname}").key)]))))
            if g_implies(g, fact):
                metric = mname
        if metric is None:
            others = [mm for mm in METRICS if g_implies(g, g_not(G("atom", ("same", tuple(sorted([repr(vkey(cost)), repr(Obj("enum", f"Metrics.{mm}").key)]))))))]
            rest = [mm for mm in METRICS if mm not in others]
            metric = rest[0] if len(rest) == 1 else None
        if metric is None:
            continue
        if not g_sat(g_and(g, compare("!=", x0, xn))):
            continue
        envr = {"y": ys, "y_hat": yhat, "eps": C(Fraction(1e-16))}
        want = ref(PARTIAL_REFS[metric], envr, length=seg_len)
        # degenerate x0 == xn fits are outside the domain (strictly increasing x)
        if _equal_under(x, want):
            n5 += 1
        elif g_sat(g_and(g, compare("!=", x0, xn))) and not _is_degenerate_case(g, x0, xn):
            ok5 = False
            res.violation("U5", mod, fi.name, loop, f"the value cached for Metrics.{metric} is not that metric's un-normalised sum over the segment against its endpoint line",
                          _short(x), _short(want), construct=f"segment value {metric}")
    if ok5 and n5 >= 5:
        res.ok("U5", f"{fi.qualname}:segment-values", f"{n5} metric cases: cached value == un-normalised metric sum of points[left:right+1] vs the line through its end points")
    elif ok5:
        res.error(f"U5: only {n5} of 5 metric cases recognised in the cached segment value - shape not recognised")
    # final call
    ev.no_inline.add("evaluation.compute_cost")
    fr2 = Frame(ev, fi, 0)
    penv = dict(env)
    fr2.block(post, penv, TRUE)
    val = mk_pw(fr2.returns)
    good = False
    if isinstance(val, Rat):
        calls = [a for a in val.all_atoms() if a.kind == "fn" and a.name == "call:evaluation.compute_cost"]
        if len(calls) == 1 and val.equals(Rat.from_atom(calls[0])):
            names = list(calls[0].extra or ())
            amap = dict(zip(names, calls[0].args))
            if amap.get("cost") is not None and amap["cost"].equals(cost) and amap.get("cache") is not None and amap["cache"].equals(cache) \
                    and amap.get("points") is not None and amap["points"].equals(ev.to_rat(pts)):
                good = True
    if good:
        res.ok("U5", f"{fi.qualname}:finalise", "returns compute_cost(points, segment_errors, cost, cache)")
    else:
        res.violation("U5", mod, fi.name, fi.node, "the accumulated segment errors are not finalised by compute_cost with the same points / metric / cache",
                      _short(val), "compute_cost(points, segment_errors, cost, cache)", construct="finalise call")
    # purity of the callees that compute the cached value
    ma = MutationAnalysis(rc.repo, rc.lk)
    for q in ("evaluation.compute_partial_cost", "linear_fit.linear_fit_transform_points", "linear_fit.linear_fit_transform",
              "linear_fit.linear_fit", "linear_fit.linear_transform"):
        s = ma.summaries.get(q)
        if s is None:
            raise AnalysisError(f"callee {q} not found")
        if s.writes:
            f2 = rc.func(q)
            res.violation("U1", f2.module, f2.name, f2.node, f"{q} writes its parameter(s) {sorted(s.writes)}: the cached value is not a function of the key",
                          construct="callee purity")
        else:
            res.ok("U1", f"{q}:pure", "no write to any parameter (E3 summary)")


_MUTATORS = {"update", "setdefault", "pop", "popitem", "clear", "append", "extend", "insert", "remove", "sort", "reverse", "add", "discard", "fill"}


def _mutable_defaults(rc: RuleCtx, rule: str = "U7", modules=("evaluation", "rdp"), need_one: bool = True):
    """U7 (also C20 P-default).  A default value is evaluated once, when the function is defined.  If it is a dict / list / set and the
    function stores into that parameter (directly, or by passing it to a callee that stores into the corresponding
    parameter) every call that omits the argument shares one object: results cached for one curve or metric are
    served to the next."""
    res = rc.res
    lk = rc.lk
    funcs = {}
    mods = [rc.repo.mod(m_) for m_ in modules] if modules else [m_ for m_ in rc.repo.modules.values() if m_.role == "package"]
    for mod_ in mods:
        for fi in mod_.all_functions:
            funcs[fi.qualname] = fi

    def params(fi):
        return fi.signature.positional + fi.signature.kwonly

    # direct writes through the parameter's own name
    writes = {q: set() for q in funcs}
    for q, fi in funcs.items():
        ps = set(params(fi))
        for n in ast.walk(fi.node):
            if isinstance(n, (ast.Assign, ast.AugAssign, ast.AnnAssign, ast.Delete)):
                tgts = n.targets if isinstance(n, (ast.Assign, ast.Delete)) else [n.target]
                for t_ in tgts:
                    if isinstance(t_, ast.Subscript) and isinstance(t_.value, ast.Name) and t_.value.id in ps:
                        writes[q].add(t_.value.id)
            elif isinstance(n, ast.Call) and isinstance(n.func, ast.Attribute) and n.func.attr in _MUTATORS and isinstance(n.func.value, ast.Name) \
                    and n.func.value.id in ps:
                writes[q].add(n.func.value.id)
    # transitive: passed on, under its own name, to a package callee that writes the corresponding parameter
    changed = True
    while changed:
        changed = False
        for q, fi in funcs.items():
            ps = set(params(fi))
            for n in ast.walk(fi.node):
                if not isinstance(n, ast.Call):
                    continue
                r = lk.resolve(fi.module, n.func)
                if r.kind != "func" or r.obj.qualname not in funcs:
                    continue
                callee = r.obj
                cps = params(callee)
                amap = {}
                for k_, a in enumerate(n.args):
                    if k_ < len(callee.signature.positional):
                        amap[callee.signature.positional[k_]] = a
                for kw in n.keywords:
                    if kw.arg:
                        amap[kw.arg] = kw.value
                for cp, a in amap.items():
                    if cp in writes[callee.qualname] and isinstance(a, ast.Name) and a.id in ps and a.id not in writes[q]:
                        writes[q].add(a.id)
                        changed = True
    checked = 0
    for q, fi in sorted(funcs.items()):
        for p_ in params(fi):
            d = fi.param_default(p_)
            if d is None:
                continue
            mutable = isinstance(d, (ast.Dict, ast.List, ast.Set, ast.DictComp, ast.ListComp, ast.SetComp)) or (
                isinstance(d, ast.Call) and isinstance(d.func, ast.Name) and d.func.id in ("dict", "list", "set", "defaultdict", "OrderedDict"))
            if p_ in writes[q]:
                checked += 1
                if mutable:
                    res.violation(rule, fi.module, fi.name, d,
                                  f"parameter '{p_}' of {q} defaults to a mutable {type(d).__name__.lower()} created once at definition time and the function stores into it: "
                                  "calls that omit the argument share one cache, so values cached for one curve / metric are returned for another",
                                  f"{p_}={ast.unparse(d)}", f"{p_}=None with `if {p_} is None: {p_} = {{}}` inside the function", construct=f"mutable default {p_}")
                else:
                    res.ok(rule, f"{q}({p_})", f"written parameter with immutable default {ast.unparse(d)}")
    res.analysed["written_parameters_with_defaults"] = checked
    if not checked and need_one:
        raise AnalysisError("U7: no written parameter with a default value found (expected at least evaluation.compute_global_cost(cache=None))")


def _is_degenerate_case(g, x0, xn):
    return g_implies(g, compare("==", x0, xn))


def _equal_under(x: Rat, want: Rat) -> bool:
    return x.equals(want)


def _is_cache_item(x, cache, key) -> bool:
    if isinstance(x, Rat):
        ats = x.atoms()
        if len(ats) == 1 and ats[0].name == "item" and x.equals(Rat.from_atom(ats[0])):
            a = ats[0]
            if len(a.args) == 2 and a.args[0].equals(cache) and a.args[1].key == anf.opaque("vec", *key.items).key:
                return True
            return len(a.args) == 1 + len(key.items) and a.args[0].equals(cache) and all(
                p.equals(q) for p, q in zip(a.args[1:], key.items))
    return False


def _guard_symbols(g: G):
    out = set()
    if g.kind == "sign":
        out |= g.a.symbols()
    elif g.kind == "atom":
        txt = repr(g.a)
        for nm in ("Metrics.r2", "Metrics.rmsle", "Metrics.rmspe", "Metrics.rpd", "Metrics.smape"):
            if nm in txt:
                out.add(nm)
    elif g.kind == "not":
        out |= _guard_symbols(g.a)
    elif g.kind in ("and", "or"):
        for x in g.a:
            out |= _guard_symbols(x)
    return out


def _uses_outside_key(v, red: Rat, i: Rat, right: Rat) -> bool:
    """True when `reduced` or the loop index occur other than as reduced[i]."""
    probe = sym("__right__")
    for _g, x in cases_of(v):
        if not isinstance(x, Rat):
            continue
        # replace every occurrence of at(reduced, i) by a fresh symbol and look for leftovers
        names = set()
        for a in x.all_atoms():
            if a.kind == "fn" and a.name == "at" and Rat.from_atom(a).equals(right):
                continue
            if a.kind == "sym" and a.name in ("reduced", next(iter(i.symbols())) if i.symbols() else ""):
                names.add(a.name)
        if names:
            # the symbols are reachable only through the at(reduced, i) atoms?  check by structure
            def has_outside(r: Rat) -> bool:
                for a in r.atoms():
                    if a.kind == "sym" and a.name in names:
                        return True
                    if a.kind == "fn":
                        if a.name == "at" and Rat.from_atom(a).equals(right):
                            continue
                        if any(has_outside(z) for z in a.args):
                            return True
                return False
            if has_outside(x):
                return True
    return False


def _compute_cost(rc: RuleCtx):
    res = rc.res
    fi = rc.func("evaluation.compute_cost")
    mod = fi.module
    for mname in METRICS:
        ev = rc.new_eval()
        pts = ev.point("points", True)
        seg = ev.symbol("segment_errors", True)
        ev.len_map = {"points": sym("n"), "segment_errors": sym("S")}
        env = {"points": pts, "segment_errors": seg, "cost": Obj("enum", f"Metrics.{mname}"), "cache": Obj("dict", ())}
        try:
            out = ev.eval_function(fi, env)
        except Unsupported as e:
            raise AnalysisError(f"evaluation.compute_cost: not modelled: {e}")
        val = out.value()
        total = sym("n") + sym("S") - C(1)
        Ssum = anf.f_sum(seg, sym("S"))
        y = pts.items[1]
        tss = ref("Sum((y - Sum(y)/N)**2)", {"y": y}, length=sym("n"))
        if mname in ("rmsle", "rmspe"):
            raw = {TRUE: anf.f_sqrt(Ssum / total)}
        elif mname in ("rpd", "smape"):
            raw = {TRUE: Ssum / total}
        else:
            tz = canon_sign(tss, OPS["=="])
            raw = {g_not(tz): C(1) - Ssum / tss, tz: C(1) - Ssum}
        ok = True
        seen = 0
        for g, v in cases_of(val):
            if not g_sat(g):
                continue            # a dead case (e.g. the clip of a quantity that cannot be negative)
            if not isinstance(v, Rat):
                ok = False
                res.violation("U5", mod, fi.name, fi.node, f"Metrics.{mname}: non-numeric result {v!r}", construct=f"finalise {mname}")
                continue
            matched = False
            for rg, rv in raw.items():
                gg = g_and(g, rg)
                if not g_sat(gg):
                    continue
                neg = canon_sign(rv, OPS["<"])
                # U4: clip
                if v.is_zero() and g_implies(gg, g_or(neg, canon_sign(rv, OPS["=="]))):
                    matched = True
                elif v.equals(rv) and g_implies(gg, g_not(neg)):
                    matched = True
                elif v.equals(rv) and rv.is_nonneg():
                    matched = True
                else:
                    matched = False
                    break
            if matched:
                seen += 1
            else:
                ok = False
                res.violation("U5", mod, fi.name, fi.node,
                              f"Metrics.{mname}: under {g} the global cost is {_short(v, 100)}, not the required normalisation of the summed segment errors (clipped at 0)",
                              _short(v), " | ".join(f"{rg}: {_short(rv, 100)}" for rg, rv in raw.items()), construct=f"finalise {mname}")
        if ok and seen:
            res.ok("U5", f"{fi.qualname}[{mname}]", " | ".join(f"{_short(rv, 70)}" for rv in raw.values()) + " ; clipped at 0")
            res.sample({"metric": mname, "finalise": [str(rv)[:200] for rv in raw.values()]})
    # U3 divisor (checked through the formulas above: total = n + S - 1) and U4 recorded once
    res.ok("U3", fi.qualname, "divisor == len(points) + len(segment_errors) - 1 (as part of the U5 identities)")
    res.ok("U4", fi.qualname, "negative cost -> 0, otherwise unchanged (as part of the U5 case analysis)")
    # 'tss' entry depends on points only
    ev = rc.new_eval()
    pts = ev.point("points", True)
    ev.len_map = {"points": sym("n")}
    env = {"points": pts, "segment_errors": ev.symbol("segment_errors", True), "cost": Obj("enum", "Metrics.r2"), "cache": ev.symbol("cache")}
    out = ev.eval_function(fi, env)
    st = [e for e in out.events if e.kind == "store" and e.target == "cache"]
    good = len(st) == 1
    for e in st:
        k, v = e.args
        if not (isinstance(k, Obj) and k.tag == "str"):
            good = False
        syms = set()
        for _g, x in cases_of(v):
            if isinstance(x, Rat):
                syms |= x.symbols()
        if not syms <= {"points.y", "points.x", "n"}:
            good = False
            res.violation("U1", mod, fi.name, e.node, f"the value cached under {k.val!r} depends on {sorted(syms)}, not on points only: a shared cache returns it for a different breakpoint set", _short(v),
                          "a function of points", construct="tss cache closure")
        notin = g_not(G("atom", ("in", vkey(k), vkey(env["cache"]))))
        if not g_implies(e.guard, notin):
            good = False
    if good:
        res.ok("U1", f"{fi.qualname}:tss", "cache['tss'] stored once, only when absent, depends on points only")
    elif not st:
        res.error("U1: the 'tss' cache entry was not found in compute_cost - shape not recognised")


def _partial(rc: RuleCtx):
    res = rc.res
    fi = rc.func("evaluation.compute_partial_cost")
    for mname in METRICS:
        ev = rc.new_eval()
        y, yh, eps = ev.symbol("y", True), ev.symbol("y_hat", True), ev.symbol("eps")
        ev.len_map = {"y": sym("N"), "y_hat": sym("N")}
        out = ev.eval_function(fi, {"y": y, "y_hat": yh, "cost": Obj("enum", f"Metrics.{mname}"), "eps": eps})
        want = ref(PARTIAL_REFS[mname], {"y": y, "y_hat": yh, "eps": eps})
        rc.expect_equal("U5", fi, out.value(), want, f"compute_partial_cost[{mname}] == un-normalised summand of metrics.{mname}")


def _global_rmse(rc: RuleCtx):
    res = rc.res
    fi, ev, env, pre, loop, post, fr = _segment_loop(rc, "evaluation.compute_global_rmse", None)
    mod = fi.module
    pts, red, cache = env["points"], env["reduced"], env["cache"]
    from .common import bind_loop
    b = bind_loop(ev, fr, loop, env)
    if b is None:
        raise AnalysisError(f"{fi.qualname}: segment loop header has no recognised shape")
    i = b.idx
    benv = dict(env)
    benv.update(b.bindings)
    tnames = set(b.bindings)
    carried = [nme for nme in stored_names(ast.Module(body=loop.body, type_ignores=[])) if nme in env and nme not in tnames]
    for nme in carried:
        benv[nme] = ev.symbol(nme)
    out = ev.eval_loop_body(fi, loop, benv)
    # the segment of one iteration: the key (left, right) under which its error is cached
    keys = [e.args[0] for e in out.events if e.kind == "store" and e.target == "cache" and isinstance(e.args[0], Vec) and len(e.args[0].items) == 2]
    if not keys:
        raise AnalysisError(f"{fi.qualname}: no cache[(left, right)] store in the segment loop - shape not recognised")
    left, right = keys[0].items
    if not (isinstance(left, Rat) and isinstance(right, Rat)):
        raise AnalysisError(f"{fi.qualname}: segment key is not a pair of indices")
    ra_ = single_atom(right)
    e_idx = ra_.args[1] if (ra_ is not None and ra_.name == "at" and ra_.args[0].equals(red)) else None
    shift = (e_idx - i).is_const() if e_idx is not None else None
    if shift is None or (b.lo + C(shift)).is_const() != 1 or not (b.hi + C(shift)).equals(sym("R")):
        res.violation("U6", mod, fi.name, loop, "the global RMSE does not run over the consecutive breakpoint pairs", _short(right, 80), "right = reduced[k], k = 1..len(reduced)-1",
                      construct="rmse segment chain")
        return
    la_ = single_atom(left)
    if la_ is not None and la_.kind == "sym" and la_.name in carried:
        # the left end is carried from the previous iteration: reduced[0] at first, then the previous right end
        lname = la_.name
        if not (isinstance(env.get(lname), Rat) and env[lname].equals(_at(red, C(0)))):
            res.violation("U6", mod, fi.name, fi.node, "the first segment of the global RMSE does not start at reduced[0]", _short(env.get(lname), 60), "left = reduced[0]",
                          construct="rmse left init")
            return
        nxt = out.env.get(lname)
        if not (isinstance(nxt, Rat) and nxt.equals(right)):
            res.violation("U6", mod, fi.name, loop, "the global RMSE does not run over the consecutive breakpoint pairs: the next segment does not start where this one ends",
                          _short(nxt, 80), "left = right", construct="rmse segment chain")
            return
    elif not left.equals(_at(red, e_idx - C(1))):
        res.violation("U6", mod, fi.name, loop, "the global RMSE does not run over the consecutive breakpoint pairs (left end is not the previous breakpoint)",
                      f"({_short(left, 60)}, {_short(right, 60)})", "(reduced[k-1], reduced[k])", construct="rmse segment chain")
        return
    key = Vec([left, right])
    xs = anf.opaque("slice", pts.items[0], left, right + C(1), array=True)
    ys = anf.opaque("slice", pts.items[1], left, right + C(1), array=True)
    x0, xn, y0, yn = _at(pts.items[0], left), _at(pts.items[0], right), _at(pts.items[1], left), _at(pts.items[1], right)
    m = (y0 - yn) / (x0 - xn)
    b = y0 - m * x0
    want = ref("Sum((y - y_hat)**2)", {"y": ys, "y_hat": xs * m + b}, length=right + C(1) - left)
    stores = [e for e in out.events if e.kind == "store" and e.target == "cache"]
    good = False
    degenerate = canon_sign(x0 - xn, OPS["=="])          # a segment whose end points share their x: outside the curve domain (x strictly increasing)
    for e in stores:
        k, v = e.args
        if veq(k, key):
            # every way the stored value can be computed must be that SSE (not just one branch of it)
            live = [(g, x) for g, x in cases_of(v) if g_sat(g_and(e.guard, g, g_not(degenerate)))]
            good = bool(live) and all(isinstance(x, Rat) and x.equals(want) for _g, x in live)
    if good:
        res.ok("U6", f"{fi.qualname}:segments", "cache[(left,right)] == SSE of points[left:right+1] against its endpoint line; consecutive segments")
    else:
        res.violation("U6", mod, fi.name, loop, "the cached segment error of the global RMSE is not the SSE against the segment's endpoint line",
                      str([_short(e.args[1]) for e in stores]), _short(want), construct="rmse segment sse")
    fr2 = Frame(ev, fi, 0)
    zs = [st for st in pre if isinstance(st, ast.Assign) and isinstance(st.value, ast.Call) and ast.unparse(st.value.func) in ("np.zeros", "numpy.zeros")
          and isinstance(st.targets[0], ast.Name)]
    segname = zs[0].targets[0].id if len(zs) == 1 else "segment_errors"
    seg = ev.symbol("segment_errors", True)
    ev.len_map["segment_errors"] = sym("S")
    penv = {"points": pts, segname: seg}
    fr2.block(post, penv, TRUE)
    val = mk_pw(fr2.returns)
    from .common import account_returns
    account_returns(fi)            # (the value returned after the loop is compared with the reference just below)
    want = anf.f_sqrt(anf.f_sum(seg, sym("S")) / sym("n"))
    if isinstance(val, Rat) and val.equals(want):
        res.ok("U6", f"{fi.qualname}:final", "sqrt(sum(segment SSE) / len(points))")
    else:
        res.violation("U6", mod, fi.name, fi.node, "global RMSE is not sqrt(sum of segment SSE / len(points))", _short(val), _short(want), construct="rmse final")


def _mip_by_value(rc: RuleCtx, fi) -> bool:
    """U6 decided on the value of the whole function: (median(IP), median(|IP - median(IP)|)) with IP an array of len(reduced) - 2
    values whose element j is rmse(reduced without breakpoint j+1) - rmse(reduced).  True when decided (either way); False
    when the function does not evaluate to that shape (the loop-shaped reading below is used instead)."""
    from .. import elem
    res = rc.res
    ev = rc.new_eval()
    ev.summarise_loops = True
    ev.no_inline |= {"evaluation.compute_global_rmse"}
    pts = ev.point("points", True)
    red = ev.symbol("reduced", True)
    ev.len_map = {"points": sym("n"), "reduced": sym("R")}
    try:
        out_ = ev.eval_function(fi, {"points": pts, "reduced": red})
        val = out_.value()
    except (Unsupported, AnalysisError):
        return False
    from .common import stray_stores
    if stray_stores(out_):
        return False
    if not (isinstance(val, Vec) and len(val.items) == 2 and all(isinstance(i, Rat) for i in val.items)):
        return False
    m0 = single_atom(val.items[0])
    if m0 is None or m0.name != "median" or len(m0.args) != 1:
        return False
    X = m0.args[0]
    xa = single_atom(X)
    IP = ev.vec_registry.get(xa.skey) if (xa is not None and xa.name == "vec") else X
    j = sym("j")
    anf.declare_integer(j)
    try:
        got, ln = elem.element_of_value(ev, IP, j)
    except elem.NoElement:
        return False
    if any("@after" in s_ or "#" in s_ for s_ in got.symbols()):
        return False

    def is_rmse(a, red_arg) -> bool:
        names = list(a.extra or ())
        return a.kind == "fn" and a.name == "call:evaluation.compute_global_rmse" and "points" in names and "reduced" in names \
            and a.args[names.index("points")].equals(ev.to_rat(pts)) and a.args[names.index("reduced")].equals(red_arg)
    calls = [a for a in got.atoms() if a.kind == "fn" and a.name == "call:evaluation.compute_global_rmse"]
    fin = [a for a in calls if is_rmse(a, red)]
    ref = []
    for a in calls:
        names = list(a.extra or ())
        ra = single_atom(a.args[names.index("reduced")]) if "reduced" in names else None
        if ra is not None and ra.name == "np.delete" and len(ra.args) >= 2 and ra.args[0].equals(red) and ra.args[1].equals(j + C(1)) and is_rmse(a, Rat.from_atom(ra)):
            ref.append(a)
    good = len(fin) == 1 and len(ref) == 1 and got.equals(Rat.from_atom(ref[0]) - Rat.from_atom(fin[0])) and ln.equals(sym("R") - C(2))
    if good:
        res.ok("U6", f"{fi.qualname}:improvement", "ip[j] = rmse(reduced without breakpoint j+1) - rmse(reduced) for j = 0..len(reduced)-3 (by value)")
    else:
        res.violation("U6", fi.module, fi.name, fi.node, "the per-breakpoint improvement is not rmse(reduced without d) - rmse(reduced) over the interior breakpoints d = 1..len(reduced)-2",
                      f"ip[j] = {_short(got, 200)}; {_short(ln, 40)} values", "ip[j] = compute_global_rmse(points, np.delete(reduced, j+1)) - compute_global_rmse(points, reduced), len(reduced)-2 values",
                      construct="mip improvement")
    med = Rat.from_atom(m0)
    want2 = anf.opaque("median", anf.f_abs(X - med), array=False)
    second_ok = val.items[1].equals(want2)
    if not second_ok:
        # ... or the deviations are known element by element as well
        m1 = single_atom(val.items[1])
        if m1 is not None and m1.name == "median" and len(m1.args) == 1 and val.items[1].equals(Rat.from_atom(m1)):
            ya = single_atom(m1.args[0])
            Y = ev.vec_registry.get(ya.skey) if (ya is not None and ya.name == "vec") else m1.args[0]
            try:
                got2, ln2 = elem.element_of_value(ev, Y, j)
                second_ok = got2.equals(anf.f_abs(got - med)) and ln2.equals(ln)
            except elem.NoElement:
                pass
    if second_ok:
        res.ok("U6", f"{fi.qualname}:median", "(median(ip), median(|ip - median(ip)|))")
    else:
        res.violation("U6", fi.module, fi.name, fi.node, "MIP is not (median of the improvements, their MAD)", _short(val), f"(median(ip), {_short(want2, 120)})", construct="mip median")
    return True


def _mip(rc: RuleCtx):
    res = rc.res
    fi = rc.func("evaluation.mip")
    mod = fi.module
    if _mip_by_value(rc, fi):
        return
    ev = rc.new_eval()
    pts = ev.point("points", True)
    red = ev.symbol("reduced", True)
    ev.len_map = {"points": sym("n"), "reduced": sym("R")}
    pre, loop, post = split_at_loop(fi)
    env = {"points": pts, "reduced": red}
    fr = Frame(ev, fi, 0)
    fr.block(pre, env, TRUE)
    from .common import bind_loop
    b = bind_loop(ev, fr, loop, env)
    if b is None:
        raise AnalysisError("evaluation.mip: loop header has no recognised shape")
    benv = dict(env)
    benv.update(b.bindings)
    from .common import carry
    carry(ev, loop, env, benv)
    out = ev.eval_loop_body(fi, loop, benv)
    sts = [e for e in out.events if e.kind == "store"]
    if not sts:
        # values collected with .append (a written-out list comprehension): the k-th element is stored at k = i - lo
        from ..gvn import Event
        sts = [Event(e.guard, "store", e.target, (b.idx - b.lo, e.args[0]), e.node) for e in out.events
               if e.kind == "append" and e.guard.kind == "true" and isinstance(env.get(e.target), Vec) and not env[e.target].items]
    dicts = [v for v in env.values() if isinstance(v, Obj) and v.tag == "dict"]
    cache_v = dicts[0] if dicts else None

    def rmse_call(red_arg: Rat):
        names = ("points", "reduced", "cache")
        args = [ev.to_rat(pts), red_arg, ev.to_rat(cache_v) if cache_v is not None else sym("cache")]
        return anf.opaque("call:evaluation.compute_global_rmse", *args, array=any(a.is_array() for a in args), extra=names)
    want_fin = rmse_call(red)
    fins = [v for v in env.values() if isinstance(v, Rat) and v.equals(want_fin)]
    fin = fins[0] if fins else None
    good = isinstance(fin, Rat)
    body_ok = False
    for e in sts:
        idx, v = e.args
        if not (isinstance(idx, Rat) and isinstance(v, Rat)):
            continue
        # the deleted breakpoint d = (store index + 1) must range over 1..len(reduced)-2, and the stored value is
        # rmse(reduced without d) - rmse(reduced)
        d = idx + C(1)
        off = (d - b.idx).is_const()
        if off is None or (b.lo + C(off)).is_const() != 1 or not (b.hi + C(off)).equals(sym("R") - C(1)):
            continue
        want_ref = None
        for a in v.all_atoms():
            if a.kind == "fn" and a.name == "np.delete" and len(a.args) >= 2 and a.args[0].equals(red) and a.args[1].equals(d):
                want_ref = rmse_call(Rat.from_atom(a))
        if want_ref is not None and v.equals(want_ref - want_fin):
            body_ok = True
    if good and body_ok:
        res.ok("U6", f"{fi.qualname}:improvement", "ip[d-1] = rmse(reduced without d) - rmse(reduced) for every interior breakpoint d = 1..len(reduced)-2")
    else:
        res.violation("U6", mod, fi.name, loop, "the per-breakpoint improvement is not rmse(reduced without d) - rmse(reduced) over the interior breakpoints d = 1..len(reduced)-2",
                      f"header {ast.unparse(loop.iter)}; stores {[(_short(e.args[0], 40), _short(e.args[1], 120)) for e in sts]}",
                      "ip[d-1] = compute_global_rmse(points, np.delete(reduced, d)) - compute_global_rmse(points, reduced)", construct="mip improvement")
    fr2 = Frame(ev, fi, 0)
    ipname = sts[0].target if sts else "ip"
    ipv = ev.symbol("ip", True)
    penv = {ipname: ipv}
    penv.update({k: v for k, v in env.items() if k not in penv and k != ipname})
    fr2.block(post, penv, TRUE)
    val = mk_pw(fr2.returns)
    med = anf.opaque("median", ipv, array=False)
    want = Vec([med, anf.opaque("median", anf.f_abs(ipv - med), array=False)])
    if veq(val, want):
        res.ok("U6", f"{fi.qualname}:median", "(median(ip), median(|ip - median(ip)|))")
    else:
        res.violation("U6", mod, fi.name, fi.node, "MIP is not (median of the improvements, their MAD)", _short(val), _short(want), construct="mip median")
