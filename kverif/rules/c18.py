"""C18 -- convex-hull routines return the true hull (structural part).

H1  every name / call in the three scans resolves (E1).
H2  _ccw(a, b, c) == (b - a) x (c - a) as a polynomial.
H3  lower chain: pop while len(stack) > 1 and orient(s[-2], s[-1], p_i) <= 0 (strictly
    counter-clockwise turns are kept); upper chain: the mirrored predicate (orient >= 0);
    every index 0..n-1 is offered to the chain exactly once in ascending order and pushed
    after the pops; the popping loops only pop.
H4  every stack[-k] read in a popping loop is dominated by a length test >= k.
H5  graham_scan pops on non-clockwise turns (>= 0) of the angularly sorted points; the sort
    pivots on the lowest-leftmost point and orders clockwise, nearer first on ties.
"""

from __future__ import annotations

import ast

from .. import AnalysisError, anf
from ..anf import Rat, sym
from ..guards import (G, TRUE, FALSE, g_and, g_not, g_or, g_equiv, g_implies, g_sat, compare, canon_sign, OPS)
from ..gvn import Frame, Obj, PW, Vec, cases_of, veq, mk_pw, Unsupported
from ..intervals import single_atom, split_const
from .common import section, RuleCtx, _short, range_args, sign_set_name

C = Rat.const


def _at(x, i):
    return anf.opaque("at", x, i, array=False)


def int_lower_bound(g: G, q: Rat):
    """Largest integer b such that g implies q >= b (q integer valued), or None."""
    best = None
    items = g.a if g.kind == "and" else (g,)
    for x in items:
        if x.kind != "sign":
            continue
        # x: sign(r) in S with r = +-(q - c)
        d = x.a.sub(q)
        c = d.is_const()
        signs = x.b
        if c is None:
            d2 = x.a.add(q)
            c2 = d2.is_const()
            if c2 is None:
                continue
            # x.a = -q + c2  => sign(-(q - c2))
            c = -c2
            signs = frozenset(-s for s in signs)
        # now sign(q + c) in signs
        if signs == OPS[">"]:
            b = -c + 1 if c.denominator == 1 else None
        elif signs == OPS[">="]:
            b = -c
        else:
            continue
        if b is not None and (best is None or b > best):
            best = b
    return best


def run(ctx):
    rc = RuleCtx(ctx)
    res = ctx.result
    res.level = "other"
    for k, v in {"H1": "names / attributes / call signatures inside graham_scan, graham_scan_lower, graham_scan_upper and their helpers resolve",
                 "H2": "_ccw(a,b,c) == (b.x-a.x)(c.y-a.y) - (c.x-a.x)(b.y-a.y)",
                 "H3": "lower: pop while len > 1 and orient(s[-2], s[-1], p_i) in {-,0}; upper: orient in {0,+}; seed + loop offer every index once, ascending, pushed after the pops; popping loops only pop",
                 "H4": "stack[-k] inside a popping loop only after a conjunct that implies len(stack) >= k",
                 "H5": "graham_scan: pop while orient(s[-2], s[-1], p) >= 0; _sort_points pivots on min by (x, y) and sorts clockwise, nearer first when collinear"}.items():
        res.rule(k, v)
    mod = rc.repo.mod("convex_hull")
    # ---- H1 --------------------------------------------------------------------
    errs = []

    def on_error(rule, fname, node, msg, extracted="", expected="", construct=None):
        errs.append((rule, fname, node, msg, extracted, expected))

    rc.lk.check_module(mod, on_error, lambda *a, **k: None)
    from ..linker import definite_assignment_findings
    for fi in mod.all_functions:
        for (name, use, idiom) in definite_assignment_findings(mod, fi):
            if not idiom:
                errs.append(("N-unbound", fi.name, use, f"UnboundLocalError: local '{name}' may be unassigned", name, "assigned on every path"))
    if errs:
        for (rule, fname, node, msg, extracted, expected) in errs:
            res.violation("H1", mod, fname, node, f"hull routine cannot run: {msg}", extracted, expected)
    else:
        res.ok("H1", "convex_hull", f"{len(mod.all_functions)} functions: every name, attribute and call signature resolves")
    # ---- H2 --------------------------------------------------------------------
    ev = rc.new_eval()
    a, b, c = ev.point("a"), ev.point("b"), ev.point("c")
    fi, out = rc.eval_fn("convex_hull._ccw", {"a": a, "b": b, "c": c})
    want = (b.items[0] - a.items[0]) * (c.items[1] - a.items[1]) - (c.items[0] - a.items[0]) * (b.items[1] - a.items[1])
    rc.expect_equal("H2", fi, out.value(), want, "_ccw(a, b, c) == cross(b - a, c - a)")
    # ---- H3 / H4 -------------------------------------------------------------------
    for name, keep in (("graham_scan_lower", OPS["<="]), ("graham_scan_upper", OPS[">="])):
        section(rc, _chain, name, keep)
    section(rc, _graham)
    res.assumptions += ["x-sorted input for the monotone chains", "real-number reading of the orientation polynomial"]
    res.not_decided += ["equality with the brute-force hull", "behaviour of the angular sort under ties beyond the comparator's definition"]
    from .common import hidden_state as _hidden_state
    _hidden_state(rc, "H6", ['convex_hull.graham_scan', 'convex_hull.graham_scan_lower', 'convex_hull.graham_scan_upper'], "the hull scans")
    res.require_instances("C18 obligations", len(res.obligations), 12)


def _popping_while(fi, outer: ast.For):
    ws = [st for st in outer.body if isinstance(st, ast.While)]
    if len(ws) != 1:
        raise AnalysisError(f"{fi.qualname}: expected one popping while loop inside the scan")
    return ws[0]


def _orientation(pts: Vec, s2: Rat, s1: Rat, i: Rat) -> Rat:
    px, py = pts.items
    ax, ay = _at(px, s2), _at(py, s2)
    bx, by = _at(px, s1), _at(py, s1)
    cx, cy = _at(px, i), _at(py, i)
    return (bx - ax) * (cy - ay) - (cx - ax) * (by - ay)


def _neg_subscripts(node, stack_name: str):
    out = []
    for n in ast.walk(node):
        if isinstance(n, ast.Subscript) and isinstance(n.value, ast.Name) and n.value.id == stack_name:
            sl = n.slice
            if isinstance(sl, ast.UnaryOp) and isinstance(sl.op, ast.USub) and isinstance(sl.operand, ast.Constant) and isinstance(sl.operand.value, int):
                out.append((sl.operand.value, n))
    return out


def _check_dominated(rc: RuleCtx, fi, w: ast.While, stack_name: str, ev, env) -> bool:
    """H4: every stack[-k] read in the popping loop (test or body) happens only after a test that implies
    len(stack) >= k: earlier conjuncts of the loop test for reads in the test, the whole loop test for reads
    in the body."""
    res = rc.res
    in_test = _neg_subscripts(w.test, stack_name)
    in_body = [x for st in w.body for x in _neg_subscripts(st, stack_name)]
    if not in_test and not in_body:
        res.ok("H4", f"{fi.qualname}", "no negative stack subscript in the popping loop")
        return True
    fr = Frame(ev, fi, 0)
    problems = []
    bound_t = None
    if in_test:
        kmax = max(k for k, _n in in_test)
        guards = []
        if isinstance(w.test, ast.BoolOp) and isinstance(w.test.op, ast.And):
            for v in w.test.values:
                if _neg_subscripts(v, stack_name):
                    break
                guards.append(v)
        if guards:
            g = g_and(*[fr.cond(x, env) for x in guards])
            bound_t = int_lower_bound(g, sym("S"))
        if bound_t is None or bound_t < kmax:
            problems.append((kmax, "in the loop test"))
    if in_body:
        kmax_b = max(k for k, _n in in_body)
        # the whole test guards the body; subscripts inside the test itself are not a problem for this bound
        gb = None
        try:
            parts = w.test.values if isinstance(w.test, ast.BoolOp) and isinstance(w.test.op, ast.And) else [w.test]
            gb = g_and(*[fr.cond(x, env) for x in parts if not _neg_subscripts(x, stack_name)])
        except Unsupported:
            gb = None
        bound_b = int_lower_bound(gb, sym("S")) if gb is not None else None
        if bound_b is None or bound_b < kmax_b:
            problems.append((kmax_b, "in the loop body"))
    if not problems:
        kall = max([k for k, _n in in_test + in_body])
        res.ok("H4", fi.qualname, f"stack[-{kall}] read only after a test implying len(stack) >= {kall}")
        return True
    kmax, where = problems[0]
    res.violation("H4", fi.module, fi.name, w,
                  f"stack[-{kmax}] is read {where} of the popping loop without a preceding test that the stack has at least {kmax} elements "
                  f"(the loop can pop the stack below that: IndexError on collinear input)",
                  ast.unparse(w.test), f"len({stack_name}) > {kmax - 1} and ...", construct="stack guard")
    return False


def _through_wrapper(rc: RuleCtx, fi):
    """`def f(points): return _worker(points, <constants>)`: the worker and the values its other parameters are bound to (two
    near-identical scans folded into one function with a flag are read as that function with the flag fixed)."""
    body = [st for st in fi.node.body if not (isinstance(st, ast.Expr) and isinstance(st.value, ast.Constant))]
    if len(body) != 1 or not isinstance(body[0], ast.Return) or not isinstance(body[0].value, ast.Call):
        return fi, {}, fi.signature.positional[0] if fi.signature.positional else "points"
    call = body[0].value
    r = rc.lk.resolve(fi.module, call.func)
    if r.kind != "func" or r.obj is None or not call.args or not isinstance(call.args[0], ast.Name) or call.args[0].id != fi.signature.positional[0]:
        return fi, {}, fi.signature.positional[0]
    worker = r.obj
    pos = worker.signature.positional
    bound = {}
    for i_, a_ in enumerate(call.args[1:], 1):
        if not isinstance(a_, ast.Constant) or i_ >= len(pos):
            return fi, {}, fi.signature.positional[0]
        bound[pos[i_]] = a_.value
    for kw in call.keywords:
        if kw.arg is None or not isinstance(kw.value, ast.Constant):
            return fi, {}, fi.signature.positional[0]
        bound[kw.arg] = kw.value.value
    vals = {}
    for k_, v_ in bound.items():
        vals[k_] = (TRUE if v_ else FALSE) if isinstance(v_, bool) else (Obj("none") if v_ is None else C(v_) if isinstance(v_, (int, float)) else None)
        if vals[k_] is None:
            return fi, {}, fi.signature.positional[0]
    return worker, vals, pos[0]


def _chain(rc: RuleCtx, name: str, pop_signs):
    res = rc.res
    fi = rc.func(f"convex_hull.{name}")
    fi, bound, pname = _through_wrapper(rc, fi)
    mod = fi.module
    ev = rc.new_eval()
    pts = ev.point("points", True)
    ev.len_map = {"points": sym("n"), "stack": sym("S")}
    fors = [st for st in fi.node.body if isinstance(st, ast.For)]
    if len(fors) != 1:
        raise AnalysisError(f"{fi.qualname}: expected one scan loop")
    loop = fors[0]
    from . import common as _common
    _common.READ_LOOPS[fi.qualname] = (fi, loop)          # (exits in front of the scan and the form of the return after it are audited)
    k = fi.node.body.index(loop)
    env = {pname: pts}
    env.update(bound)
    fr = Frame(ev, fi, 0)
    fr.block(fi.node.body[:k], env, TRUE)
    # an exit in front of the scan is the scan skipped: with 3 points the middle one still has to be tested against the chord
    from .common import early_exits_bounded
    anf.declare_integer(sym("n"))
    early_exits_bounded(rc, "H3", fi, fr.returns, sym("n"), 2, f"{fi.qualname}")
    from .common import account_exits
    account_exits(fi)
    seeds = [(nme, v) for nme, v in env.items() if isinstance(v, Vec) and v.kind == "list"]
    if len(seeds) != 1:
        raise AnalysisError(f"{fi.qualname}: cannot identify the chain stack")
    sname, seed = seeds[0]
    # the offered index: `for i in range(k, n)`, or the counter of `for i, p in enumerate(points[k:], start=k)`
    from .common import bind_loop
    from ..seqdom import subst_value
    b_ = bind_loop(ev, fr, loop, env) if not range_args(loop) else None
    extra_bind = {}
    iname = loop.target.id if isinstance(loop.target, ast.Name) else None
    if b_ is not None and isinstance(loop.target, ast.Tuple) and isinstance(loop.target.elts[0], ast.Name):
        iname = loop.target.elts[0].id
        J = b_.bindings.get(iname)
        c_ = J.sub(b_.idx) if isinstance(J, Rat) else None
        if c_ is None or c_.is_const() is None or len(b_.idx.atoms()) != 1:
            raise AnalysisError(f"{fi.qualname}: the scan loop does not count the offered index ({ast.unparse(loop.iter)[:60]}) - shape not recognised")
        lo, hi = b_.lo.add(c_), b_.hi.add(c_)
        isym = ev.symbol(iname)
        ren = {b_.idx.atoms()[0].name: isym.sub(c_)}
        for k_, v_ in b_.bindings.items():
            if k_ != iname:
                extra_bind[k_] = subst_value(v_, ren)
    elif iname is None:
        raise AnalysisError(f"{fi.qualname}: scan loop header {ast.unparse(loop.iter)[:60]!r} has no recognised shape")
    else:
        ra = range_args(loop)
        lo = fr.expr(ra[0], env) if ra and len(ra) == 2 else None
        hi = fr.expr(ra[1], env) if ra and len(ra) == 2 else None
    nseed = len(seed.items)
    seed_ok = all(isinstance(x, Rat) and x.is_const() == j for j, x in enumerate(seed.items))
    if seed_ok and isinstance(lo, Rat) and lo.is_const() == nseed and isinstance(hi, Rat) and hi.equals(sym("n")):
        res.ok("H3", f"{fi.qualname}:offer", f"seed [0..{nseed - 1}] + range({nseed}, n): every index offered once, ascending")
    else:
        res.violation("H3", mod, fi.name, loop, "the scan does not offer every index 0..n-1 to the chain exactly once in ascending order",
                      f"seed {seed}, {ast.unparse(loop.iter)}", "seed [0..k-1] and range(k, len(points))", construct="offer order")
    w = _popping_while(fi, loop)
    i = ev.symbol(iname)
    benv = dict(env)
    benv[iname] = i
    benv.update(extra_bind)
    benv[sname] = ev.symbol("stack", True)
    # temporaries hoisted in front of the popping loop (e.g. candidate = points[i])
    frp = Frame(ev, fi, 0)
    try:
        frp.block(loop.body[:loop.body.index(w)], benv, TRUE)
    except Unsupported as e:
        raise AnalysisError(f"{fi.qualname}: scan body not modelled: {e}")
    # the scan itself is never left early: a break / return at the level of the scan loop stops offering indices
    early_ = [n_ for st_ in loop.body if st_ is not w for n_ in ast.walk(st_) if isinstance(n_, (ast.Break, ast.Return))]
    if early_:
        res.violation("H3", mod, fi.name, early_[0], "the scan can be left before every index was offered to the chain (a break / return at the level of the scan loop)",
                      ast.unparse(mod.parent(early_[0]) or early_[0])[:100] if hasattr(mod, "parent") else "break", "no exit from the scan loop", construct="scan left early")
    skips_ = [n_ for st_ in loop.body if st_ is not w for n_ in ast.walk(st_) if isinstance(n_, ast.Continue)]
    if skips_:
        raise AnalysisError(f"{fi.qualname}: the scan loop can skip an index (`continue`, line {skips_[0].lineno}) - shape not recognised")
    # popping loop only pops
    wenv = dict(benv)
    from .common import carry
    carry(ev, w, benv, wenv)
    try:
        wout = ev.eval_loop_body(fi, w, wenv)
    except Unsupported as e:
        raise AnalysisError(f"{fi.qualname}: popping loop not modelled: {e}")
    wpops = [e for e in wout.events if e.kind == "pop" and e.target == sname]
    wother = [e for e in wout.events if e.target == sname and e.kind not in ("pop",)]
    only_pop = len(wpops) == 1 and not wother and not wout.returns and not wout.continues
    if only_pop:
        res.ok("H3", f"{fi.qualname}:pop-only", "the inner loop only pops the chain (terminates: the test bounds the length from below)")
    else:
        res.violation("H3", mod, fi.name, w, "the inner loop does more than popping the top of the chain", ast.unparse(w)[:120], f"{sname}.pop()", construct="pop only")
    # push after pops, unconditional, of i
    after = loop.body[loop.body.index(w) + 1:]
    fra = Frame(ev, fi, 0)
    aenv = dict(benv)
    fra.block(after, aenv, TRUE)
    a_apps = [e for e in fra.events if e.kind == "append" and e.target == sname]
    pre_apps = [e for e in frp.events if e.target == sname]
    push_ok = len(a_apps) == 1 and a_apps[0].guard.kind == "true" and isinstance(a_apps[0].args[0], Rat) and a_apps[0].args[0].equals(i) and not pre_apps
    if push_ok:
        res.ok("H3", f"{fi.qualname}:push", "the offered index is pushed once, after the pops")
    else:
        res.violation("H3", mod, fi.name, loop, "the offered index is not pushed exactly once after the pops", ast.unparse(loop)[:160],
                      f"while ...: {sname}.pop(); {sname}.append(i)", construct="push after pops")
    _check_dominated(rc, fi, w, sname, ev, benv)
    # predicate
    fr2 = Frame(ev, fi, 0)
    try:
        test = fr2.cond(w.test, benv)
    except Unsupported as e:
        raise AnalysisError(f"{fi.qualname}: popping test not modelled: {e}")
    # a pop happens iff the loop test holds and control reaches the pop (no earlier break)
    if wpops:
        test = g_and(test, wpops[0].guard)
    st_ = sym("stack", True)
    orient = _orientation(pts, _at(st_, C(-2)), _at(st_, C(-1)), i)
    turn = canon_sign(orient, pop_signs)
    items = test.a if test.kind == "and" else (test,)
    pred = [x for x in items if x.kind == "sign" and not x.a.sub(sym("S")).is_const() is not None and "S" not in x.a.symbols()]
    got = g_and(*pred) if pred else FALSE
    if g_equiv(got, turn):
        res.ok("H3", f"{fi.qualname}:turn", f"pops while orient(s[-2], s[-1], p_i) {sign_set_name(pop_signs)} 0")
        res.sample({"function": fi.qualname, "pop_while": str(turn)})
    else:
        which = "counter-clockwise" if name.endswith("lower") else "clockwise"
        res.violation("H3", mod, fi.name, w,
                      f"the chain does not pop exactly the turns that are not strictly {which}: the orientation test differs from orient(s[-2], s[-1], p_i) {sign_set_name(pop_signs)} 0",
                      _short(got, 200), _short(turn, 200), construct="turn predicate")


def _graham(rc: RuleCtx):
    res = rc.res
    fi = rc.func("convex_hull.graham_scan")
    mod = fi.module
    ev = rc.new_eval()
    ev.no_inline.add("convex_hull._sort_points")
    pts = ev.point("points", True)
    ev.len_map = {"points": sym("n"), "stack": sym("S")}
    # sorted_points comes from _sort_points(points)
    srt = [st for st in fi.node.body if isinstance(st, ast.Assign) and isinstance(st.value, ast.Call) and ast.unparse(st.value) == "_sort_points(points)"]
    if len(srt) == 1 and isinstance(srt[0].targets[0], ast.Name):
        res.ok("H5", "convex_hull.graham_scan:sorted", "scans _sort_points(points)")
        spname = srt[0].targets[0].id
    else:
        other = [st for st in fi.node.body if isinstance(st, ast.Assign) and isinstance(st.value, ast.Call) and isinstance(st.value.func, ast.Name)
                 and st.value.func.id == "_sort_points" and len(st.value.args) == 1]
        if len(other) == 1 and ast.unparse(other[0].value.args[0]) != "points":
            # the angular sort is applied to something else than the input rows (its comparator measures distances on whole rows)
            res.violation("H5", mod, fi.name, other[0], "the scan does not run over _sort_points(points): the angular sort is applied to a different array",
                          ast.unparse(other[0].value), "sorted_points = _sort_points(points)", construct="graham sort")
            return
        # (not finding the text is not a fact about the code: the sort may be reached another way)
        raise AnalysisError("graham_scan: no top-level `sorted = _sort_points(points)` in front of the scan - shape not recognised")
    fors = [st for st in fi.node.body if isinstance(st, ast.For)]
    if not fors:
        # the scan itself may live in a private helper that is handed the sorted points
        for st in fi.node.body:
            if isinstance(st, ast.Assign) and isinstance(st.value, ast.Call) and isinstance(st.value.func, ast.Name) and len(st.value.args) == 1 \
                    and isinstance(st.value.args[0], ast.Name) and st.value.args[0].id == spname and not st.value.keywords:
                r_ = rc.lk.resolve(mod, st.value.func)
                if r_.kind == "func" and r_.obj.module is mod and len(r_.obj.signature.positional) == 1:
                    helper = r_.obj
                    hf = [x for x in helper.node.body if isinstance(x, ast.For)]
                    if len(hf) == 1:
                        fi, fors, spname = helper, hf, helper.signature.positional[0]
                        break
    if len(fors) != 1:
        raise AnalysisError("graham_scan: expected one scan loop")
    loop = fors[0]
    from . import common as _common
    _common.READ_LOOPS[fi.qualname] = (fi, loop)
    w = _popping_while(fi, loop)
    sp = ev.point("sp", True)
    ev.len_map["sp"] = sym("m")
    # the hull stack: the list popped inside the popping loop
    pops = [c for c in ast.walk(w) if isinstance(c, ast.Call) and isinstance(c.func, ast.Attribute) and c.func.attr == "pop" and isinstance(c.func.value, ast.Name)]
    if len(pops) != 1:
        raise AnalysisError("graham_scan: expected one pop in the popping loop")
    stk = pops[0].func.value.id
    env = {"points": pts, spname: sp, stk: ev.symbol("stack", True)}
    # the scan positions: an index loop over sorted_points or direct iteration over sorted_points[3:]
    from .common import bind_loop
    fr = Frame(ev, fi, 0)
    # scalar temporaries hoisted in front of the loop (n = len(sorted_points)) are read through
    for st_ in fi.node.body[:fi.node.body.index(loop)]:
        if isinstance(st_, ast.Assign) and len(st_.targets) == 1 and isinstance(st_.targets[0], ast.Name) and st_.targets[0].id not in env \
                and all(n_.id in env or n_.id in ("len", "np", "numpy") for n_ in ast.walk(st_.value) if isinstance(n_, ast.Name)):
            try:
                trial = dict(env)
                fr.stmt(st_, trial, TRUE)
                v_ = trial.get(st_.targets[0].id)
                if isinstance(v_, Rat) and not v_.is_array():
                    env[st_.targets[0].id] = v_
            except Unsupported:
                pass
    b = bind_loop(ev, fr, loop, env)
    if b is None:
        raise AnalysisError("graham_scan: scan loop header has no recognised shape")
    i = b.idx
    env.update(b.bindings)
    pre_w = loop.body[:loop.body.index(w)]
    fr.block(pre_w, env, TRUE)
    # model stack elements as points: stack[-2] -> point symbols
    s2, s1 = ev.point("s2"), ev.point("s1")

    class _F(Frame):
        pass
    # evaluate the test with stack[-k] substituted: rewrite the AST
    import copy
    test_ast = copy.deepcopy(w.test)
    from ..model import keep
    keep(test_ast)
    for n in ast.walk(test_ast):
        mod.node_scope[id(n)] = fi.scope

    class Sub(ast.NodeTransformer):
        def visit_Subscript(self, node):
            if isinstance(node.value, ast.Name) and node.value.id == stk:
                t = ast.unparse(node.slice)
                if t == "-2":
                    return ast.copy_location(ast.Name(id="__s2", ctx=ast.Load()), node)
                if t == "-1":
                    return ast.copy_location(ast.Name(id="__s1", ctx=ast.Load()), node)
            return self.generic_visit(node)
    test_ast = Sub().visit(test_ast)
    ast.fix_missing_locations(test_ast)
    keep(test_ast)
    for n in ast.walk(test_ast):
        mod.node_scope[id(n)] = fi.scope
    env2 = dict(env)
    env2["__s2"], env2["__s1"] = s2, s1
    # a stack of positions in the sorted points (`stack.append(i)`, read back as sorted_points[stack[-k]]) holds the same points
    pushes = [c for st_ in loop.body[loop.body.index(w) + 1:] for c in ast.walk(st_)
              if isinstance(c, ast.Call) and isinstance(c.func, ast.Attribute) and c.func.attr == "append" and isinstance(c.func.value, ast.Name) and c.func.value.id == stk]
    if len(pushes) == 1 and len(pushes[0].args) == 1:
        try:
            pushed = fr.expr(pushes[0].args[0], dict(env))
        except Unsupported:
            pushed = None
        if isinstance(pushed, Rat) and pushed.equals(i):
            s2i, s1i = ev.symbol("s2@pos"), ev.symbol("s1@pos")
            anf.declare_integer(s2i)
            anf.declare_integer(s1i)
            env2["__s2"], env2["__s1"] = s2i, s1i
            s2 = Vec([anf.opaque("at", c, s2i, array=False) for c in sp.items], "point")
            s1 = Vec([anf.opaque("at", c, s1i, array=False) for c in sp.items], "point")
    test = fr.cond(test_ast, env2)
    want_p = Vec([anf.opaque("at", c, i, array=False) for c in sp.items], "point")
    ps = [v for v in env.values() if isinstance(v, Vec) and v.kind == "point" and veq(v, want_p)]
    p = ps[0] if ps else None
    if not isinstance(p, Vec):
        raise AnalysisError("graham_scan: current point sorted_points[i] not found")
    orient = (s1.items[0] - s2.items[0]) * (p.items[1] - s2.items[1]) - (p.items[0] - s2.items[0]) * (s1.items[1] - s2.items[1])
    turn = canon_sign(orient, OPS[">="])
    turn_strict = canon_sign(orient, OPS[">"])
    items = test.a if test.kind == "and" else (test,)
    pred = [x for x in items if x.kind == "sign" and "S" not in x.a.symbols()]
    got = g_and(*pred) if pred else FALSE
    # accept {>=, >}: the statement allows boundary (collinear) points to stay, it only fixes that
    # counter-clockwise turns are removed
    if g_equiv(got, turn) or g_equiv(got, turn_strict):
        res.ok("H5", "convex_hull.graham_scan:turn", "pops while orient(s[-2], s[-1], p) >= 0 (or > 0): every counter-clockwise turn is removed")
    else:
        res.violation("H5", mod, fi.name, w, "graham_scan does not pop exactly the non-clockwise turns (orient(s[-2], s[-1], p) >= 0)", _short(got, 200), _short(turn, 200),
                      construct="graham turn predicate")
    benv = dict(env)
    _check_dominated(rc, fi, w, stk, ev, benv)
    # seeds and range
    if b.visits(3, sym("m")):
        res.ok("H5", "convex_hull.graham_scan:range", "first three sorted points seeded, the others offered once in sorted order")
    else:
        res.violation("H5", mod, fi.name, loop, "the scan does not offer the sorted points 3..m-1 once each after seeding the first three", ast.unparse(loop.iter),
                      "positions 3..len(sorted_points)-1", construct="graham range")
    # comparator
    ev2 = rc.new_eval()
    p0, pi, pj = ev2.point("p0"), ev2.point("pi"), ev2.point("pj")
    fc, outc = rc.eval_fn("convex_hull._compare_points", {"p0": p0, "pi": pi, "pj": pj})
    o = (pi.items[0] - p0.items[0]) * (pj.items[1] - p0.items[1]) - (pj.items[0] - p0.items[0]) * (pi.items[1] - p0.items[1])

    def dist(u):
        return anf.f_sqrt((p0.items[0] - u.items[0]) * (p0.items[0] - u.items[0]) + (p0.items[1] - u.items[1]) * (p0.items[1] - u.items[1]))
    zero = canon_sign(o, OPS["=="])
    nearer = canon_sign(dist(pj) - dist(pi), OPS[">="])
    want = {(-1): g_or(canon_sign(o, OPS["<"]), g_and(zero, nearer)), 1: g_or(canon_sign(o, OPS[">"]), g_and(zero, g_not(nearer)))}
    good = True
    for g, v in cases_of(outc.value()):
        cval = v.is_const() if isinstance(v, Rat) else None
        if cval not in (-1, 1) or not g_implies(g, want[int(cval)]):
            good = False
    if good:
        res.ok("H5", "convex_hull._compare_points", "pi before pj iff clockwise (orient < 0), nearer first when collinear")
    else:
        res.violation("H5", fc.module, fc.name, fc.node, "the angular comparator is not 'clockwise first, nearer first when collinear'", _short(outc.value(), 300),
                      "-1 iff orient(p0,pi,pj) < 0 or (== 0 and |p0 pj| >= |p0 pi|)", construct="angular comparator")
    # pivot
    fs = rc.func("convex_hull._sort_points")
    mins = [c for c in ast.walk(fs.node) if isinstance(c, ast.Call) and isinstance(c.func, ast.Name) and c.func.id == "min"]
    piv = False
    for c in mins:
        key = [kw.value for kw in c.keywords if kw.arg == "key"]
        kfn = key[0] if key else None
        if isinstance(kfn, ast.Name):
            # a named key function: a nested def with a single return, or a lambda bound to that name
            kname = kfn.id
            for n_ in ast.walk(fs.node):
                if isinstance(n_, ast.FunctionDef) and n_.name == kname and len(n_.args.args) == 1 and len(n_.body) >= 1 and isinstance(n_.body[-1], ast.Return) \
                        and all(isinstance(b_, ast.Expr) and isinstance(b_.value, ast.Constant) for b_ in n_.body[:-1]):
                    kfn = ast.Lambda(args=n_.args, body=n_.body[-1].value)
                elif isinstance(n_, ast.Assign) and any(isinstance(t_, ast.Name) and t_.id == kname for t_ in n_.targets) and isinstance(n_.value, ast.Lambda):
                    kfn = n_.value
        if isinstance(kfn, ast.Lambda) and len(kfn.args.args) == 1:
            body = ast.unparse(kfn.body).replace(" ", "").replace(kfn.args.args[0].arg + "[", "p[")
            if body in ("(p[0],p[1])", "[p[0],p[1]]"):
                piv = True
    if piv:
        res.ok("H5", "convex_hull._sort_points:pivot", "pivot == min by (x, y)")
    else:
        _pivot_by_index(rc, fs)


def _pivot_by_index(rc: RuleCtx, fs):
    """The pivot chosen through row indices (argmin idioms).  Facts read off the evaluated prefix of _sort_points:
    the pivot is points[I]; I is a *row* of points on every case - an argmin taken over a sub-selection points[T, .]
    is a position inside T and has to be mapped back through T."""
    res = rc.res
    ev = rc.new_eval()
    pts = ev.point("points", True)
    ev.len_map = {"points": sym("n")}
    fr = Frame(ev, fs, 0)
    env = {"points": pts}
    for st in fs.node.body:
        try:
            fr.block([st], env, TRUE)
        except Unsupported:
            break
    px, py = pts.items
    found = []
    for nme, v in env.items():
        cases = []
        good = True
        for g, c in cases_of(v):
            if not (isinstance(c, Vec) and len(c.items) == 2 and all(isinstance(k, Rat) for k in c.items)):
                good = False
                break
            ax, ay = single_atom(c.items[0]), single_atom(c.items[1])
            if not (ax is not None and ay is not None and ax.name == "at" and ay.name == "at" and ax.args[0].equals(px) and ay.args[0].equals(py)
                    and ax.args[1].equals(ay.args[1])):
                good = False
                break
            cases.append((g, ax.args[1]))
        if good and cases and nme != "points":
            found.append((nme, cases))
    if not found:
        raise AnalysisError("convex_hull._sort_points: the pivot is neither min(points, key=(x, y)) nor points[<row index>] - shape not recognised")
    nme, cases = found[0]
    tie_handled = False
    for g, I in cases:
        a = single_atom(I)
        if a is not None and a.name == "argmin" and a.args[0].equals(px):
            continue                        # leftmost row (first of equals): fine when no other row ties, see below
        if a is not None and a.name in ("at", "item") and len(a.args) == 2:
            T, pos = a.args
            b = single_atom(pos)
            inner = single_atom(b.args[0]) if b is not None and b.name == "argmin" else None
            if inner is not None and inner.name in ("at", "take") and inner.args[0].equals(py) and inner.args[1].equals(T):
                tie_handled = True
                continue
        if a is not None and a.name == "argmin":
            inner = single_atom(a.args[0])
            if inner is not None and inner.name in ("at", "take", "mask") and not inner.args[0].equals(px):
                res.violation("H5", fs.module, fs.name, fs.node,
                              "the pivot row is an argmin taken over a sub-selection of the points and used directly as a row of the full array: it is a position inside "
                              "the sub-selection (index-space mix-up) - with several leftmost points the scan starts from the wrong, possibly interior, point",
                              _short(I, 160), "<selection>[np.argmin(points[<selection>, 1])]", construct="pivot index space")
                return
        raise AnalysisError(f"convex_hull._sort_points: pivot row {_short(I, 80)} not recognised")
    if tie_handled:
        res.ok("H5", "convex_hull._sort_points:pivot", "pivot == points[row of the smallest x, ties broken by the smallest y (mapped back to rows)]")
    else:
        res.violation("H5", fs.module, fs.name, fs.node, "the pivot is the first leftmost point: ties on x are not broken by y, so it need not be the lowest-leftmost point",
                      str([(_short(g, 60), _short(I, 80)) for g, I in cases]), "min by (x, y)", construct="pivot ties")
