"""C16 -- regression metrics and linear-fit helpers equal their mathematical definitions.

Translation validation: each function body is abstracted into an exact
rational normal form (gated value numbering, no execution) and compared with a
reference formula written once in this file.  Tuning parameters (eps, r2) are
shared *symbols*, so a wrapper that drops one differs from the reference.
"""

from __future__ import annotations

import ast

from .. import AnalysisError, anf
from ..anf import Rat, sym
from ..guards import G, TRUE, g_and, g_not, g_equiv, g_implies, g_sat, compare, canon_sign, OPS
from ..gvn import Obj, PW, Vec, cases_of, Unsupported
from ..ref import ref
from ..model import norm_text
from .common import section, RuleCtx, judge, _short

METRIC_REFS = {
    "rmse": "sqrt(Sum((y - y_hat)**2) / N)",
    "rmsle": "sqrt(Sum((log(y + 1) - log(y_hat + 1))**2) / N)",
    "rmspe": "sqrt(Sum(((y - y_hat) / (y + eps))**2) / N)",
    "rpd": "Sum(abs((y - y_hat) / (max(y, y_hat) + eps))) / N",
    "residuals": "Sum((y - y_hat)**2)",
    "smape": "Sum(2 * abs(y_hat - y) / (abs(y) + abs(y_hat) + eps)) / N",
}
RSS = "Sum((y - y_hat)**2)"
TSS = "Sum((y - Sum(y)/N)**2)"
R2_CLASSIC = f"1 - ({RSS}) / ({TSS})"
R2_ADJUSTED = f"1 - (1 - ({R2_CLASSIC})) * ((N - 1) / (N - 2))"

# wrapper -> (metric, takes eps, takes r2)
WRAPPERS = {
    "rmspe": ("rmspe", True), "rmsle": ("rmsle", False), "smape": ("smape", True), "rpd": ("rpd", True),
    "rmse": ("rmse", False), "linear_residuals": ("residuals", False),
}
POINTS_WRAPPERS = {
    "rmspe_points": "rmspe", "rmsle_points": "rmsle", "smape_points": "smape", "rpd_points": "rpd",
    "rmse_points": "rmse", "linear_residuals_points": "linear_residuals", "linear_r2_points": "linear_r2",
}


# N-int rule instances: y / x are the (possibly integer-typed) curve columns, y_hat the fitted values (real), coef = (b, m) reals
INT_SHAPES = {
    **{f"metrics.{m}": {"y": "arr", "y_hat": "float"} for m in ("rmse", "rmsle", "rmspe", "rpd", "residuals", "smape", "r2")},
    "linear_fit.linear_fit": {"x": "arr", "y": "arr"},
    "linear_fit.linear_transform": {"x": "arr", "coef": "coef"},
    "linear_fit.linear_r2": {"x": "arr", "y": "arr", "coef": "coef"},
    "linear_fit.linear_residuals": {"x": "arr", "y": "arr", "coef": "coef"},
    "linear_fit.linear_fit_residuals": {"x": "arr", "y": "arr"},
    "linear_fit.linear_hv_residuals": {"x": "arr", "y": "arr"},
    "linear_fit.r2": {"x": "arr", "y": "arr"},
    "linear_fit.rmse": {"x": "arr", "y": "arr", "coef": "coef"},
    "linear_fit.rmspe": {"x": "arr", "y": "arr", "coef": "coef"},
    "linear_fit.rmsle": {"x": "arr", "y": "arr", "coef": "coef"},
    "linear_fit.smape": {"x": "arr", "y": "arr", "coef": "coef"},
    "linear_fit.rpd": {"x": "arr", "y": "arr", "coef": "coef"},
}


def _metric_env(rc: RuleCtx):
    ev = rc.new_eval()
    y = ev.symbol("y", True)
    yh = ev.symbol("y_hat", True)
    eps = ev.symbol("eps")
    ev.len_map = {"y": sym("N"), "y_hat": sym("N"), "x": sym("N"), "points": sym("N")}
    return ev, {"y": y, "y_hat": yh, "eps": eps}


def _check_adjusted_of_classic(rc: RuleCtx, rule: str, fi, classic, adjusted, n: Rat, what: str):
    """"Adjusted variants apply the (n-1)/(n-2) correction": on every path - the constant-y convention included - the adjusted
    value is 1 - (1 - v)(n-1)/(n-2) of the value v the same function returns as classic R2 there."""
    res = rc.res
    ok = True
    for g1, v1 in cases_of(classic):
        for g2, v2 in cases_of(adjusted):
            if not g_sat(g_and(g1, g2)):
                continue
            if not (isinstance(v1, Rat) and isinstance(v2, Rat)):
                continue
            want = Rat.const(1) - (Rat.const(1) - v1) * ((n - Rat.const(1)) / (n - Rat.const(2)))
            verdict, why = judge(v2, want)
            if verdict == "equal":
                continue
            ok = False
            if verdict == "inconclusive":
                res.error(f"INCONCLUSIVE {rule} {fi.qualname} ({what}): {why}")
            else:
                res.violation(rule, fi.module, fi.name, fi.node,
                              f"{what}: under {g_and(g1, g2)} the adjusted value is not the (n-1)/(n-2) correction of the classic value returned there ({why})",
                              _short(v2), _short(want), construct=what + " adjusted of classic")
    if ok:
        res.ok(rule, fi.qualname, f"{what}: adjusted == 1 - (1 - classic)(n-1)/(n-2) on every path (constant-y convention included)")
    return ok


def _check_r2_like(rc: RuleCtx, rule: str, fi, val, env, what: str, adjusted: bool):
    """val must be: textbook R2 whenever tss != 0; the exceptional branch may only be taken when tss == 0."""
    res = rc.res
    tss = ref(TSS, env)
    want = ref(R2_ADJUSTED if adjusted else R2_CLASSIC, env)
    tss_zero = canon_sign(tss, OPS["=="])
    n_text = 0
    ok = True
    for g, v in cases_of(val):
        if not isinstance(v, Rat):
            res.violation(rule, fi.module, fi.name, fi.node, f"{what}: non-numeric value {v!r}", construct=what)
            ok = False
            continue
        if g_implies(g, tss_zero) and g.kind != "true":
            # the convention for a constant y: only required to be selected by tss == 0
            res.ok(rule + "-degenerate", fi.qualname, f"{what}: exceptional value {_short(v, 60)} only when tss == 0")
            continue
        verdict, why = judge(v, want)
        if verdict == "equal":
            n_text += 1
            if not g_implies(g_not(tss_zero), g) and not g_equiv(g, g_not(tss_zero)) and g.kind != "true":
                pass
            continue
        ok = False
        if verdict == "inconclusive":
            res.error(f"INCONCLUSIVE {rule} {fi.qualname} ({what}): {why}")
        else:
            res.violation(rule, fi.module, fi.name, fi.node,
                          f"{what}: value under guard {g} is not 1 - rss/tss" + (" with the (n-1)/(n-2) correction" if adjusted else "")
                          + f" ({why})", _short(v), _short(want), construct=what)
    # the textbook branch must cover every tss != 0 input
    cover = [g for g, v in cases_of(val) if isinstance(v, Rat) and v.equals(want)]
    from ..guards import g_or
    if ok and not g_implies(g_not(tss_zero), g_or(*cover) if cover else g_not(TRUE)):
        ok = False
        res.violation(rule, fi.module, fi.name, fi.node, f"{what}: the textbook value is not returned for every input with tss != 0",
                      str([str(g) for g in cover]), "guard implied by tss != 0", construct=what + " coverage")
    if ok:
        res.ok(rule, fi.qualname, f"{what}: 1 - rss/tss on tss != 0" + (", adjusted" if adjusted else ""),
               f"{fi.module.relpath}:{fi.lineno}")
        res.sample({"rule": rule, "function": fi.qualname, "what": what, "normal_form": _short(want, 300)})
    return ok


def helper_contracts(rc: RuleCtx, rule: str, helpers=("smape_points", "linear_r2_points", "linear_fit_points")):
    """The contracts of the linear_fit helpers another property leans on (its rules treat them as opaque calls):
    evaluated through every wrapper layer down to metrics.* and compared with the textbook formula of (y, m*x + b)."""
    res = rc.res
    from fractions import Fraction
    for h in helpers:
        ev = rc.new_eval()
        pts = ev.point("points", True)
        ev.len_map = {"points": sym("N"), "x": sym("N"), "y": sym("N")}
        b_, m_ = ev.symbol("b"), ev.symbol("m")
        x, y = pts.items
        renv = {"y": y, "y_hat": x.mul(m_).add(b_), "eps": Rat.const(Fraction(1e-16))}
        fi = rc.func(f"linear_fit.{h}")
        if h == "linear_fit_points":
            _f, out = rc.eval_fn(f"linear_fit.{h}", {"points": pts})
            x0, xn, y0, yn = (ref("at(x, 0)", {"x": x}), ref("at(x, 0 - 1)", {"x": x}), ref("at(y, 0)", {"y": y}), ref("at(y, 0 - 1)", {"y": y}))
            nondeg = compare("!=", x0, xn)
            good = True
            for g, v in cases_of(out.value()):
                if not (isinstance(v, Vec) and len(v.items) == 2 and all(isinstance(i, Rat) for i in v.items)):
                    good = False
                    continue
                b, m = v.items
                if not (m.mul(x0).add(b).equals(y0) and m.mul(xn).add(b).equals(yn)) and g_sat(g_and(g, nondeg)):
                    good = False
            if good:
                res.ok(rule, fi.qualname, "the endpoint line passes through the first and the last point")
            else:
                res.violation(rule, fi.module, fi.name, fi.node, "linear_fit_points is not the line through the first and last point (the straightness test relies on it)",
                              _short(out.value(), 160), "m*x0+b == y0 and m*xn+b == yn", construct=f"helper {h}")
            continue
        call = {"points": pts, "coef": Vec([b_, m_])}
        if h == "linear_r2_points":
            _f, out = rc.eval_fn(f"linear_fit.{h}", call)
            _check_r2_like(rc, rule, fi, out.value(), renv, f"linear_fit.{h}", adjusted=False)
            continue
        metric = POINTS_WRAPPERS[h]
        metric = WRAPPERS.get(metric, (metric,))[0]
        _f, out = rc.eval_fn(f"linear_fit.{h}", call)
        want = ref(METRIC_REFS[metric], renv)
        rc.expect_equal(rule, fi, out.value(), want, f"linear_fit.{h} == {metric}(y, m*x+b) (the helper the property's test relies on)")


def run(ctx):
    rc = RuleCtx(ctx)
    res = ctx.result
    res.level = "translation_validation"
    res.rule("M", "each metrics.* body, abstracted to an exact rational normal form, equals its textbook formula (eps symbolic)")
    res.rule("M-r2", "metrics.r2 is 1 - rss/tss whenever tss != 0 (classic) and 1 - (1-R2)(n-1)/(n-2) (adjusted); any other value only under tss == 0")
    res.rule("W", "each linear_fit wrapper equals the homonymous metric applied to (y, m*x + b) and forwards every tuning parameter it accepts")
    res.rule("W-points", "each *_points wrapper equals its array counterpart on (points[:,0], points[:,1])")
    res.rule("F", "linear_fit: m*x0 + b == y0 and m*xn + b == yn whenever x0 != xn; linear_transform == x*m + b")
    res.rule("B", "best-fit r2 == corrcoef(x, y)[0,1]**2, adjusted variant applies (n-1)/(n-2); <= 2 points give 1")
    programs = 0

    # ---- M: the seven metrics --------------------------------------------
    for name, text in METRIC_REFS.items():
        ev, env = _metric_env(rc)
        fi, out = rc.eval_fn(f"metrics.{name}", env)
        want = ref(text, env)
        rc.expect_equal("M", fi, out.value(), want, f"metrics.{name}(y, y_hat" + (", eps)" if "eps" in text else ")"))
        programs += 1
    both = {}
    ev, env = _metric_env(rc)
    for adjusted in (False, True):
        args = dict(env)
        args["r2"] = Obj("enum", "R2.adjusted" if adjusted else "R2.classic")
        fi, out = rc.eval_fn("metrics.r2", args)
        both[adjusted] = out.value()
        _check_r2_like(rc, "M-r2", fi, out.value(), env, f"metrics.r2[{'adjusted' if adjusted else 'classic'}]", adjusted)
        programs += 1
    _check_adjusted_of_classic(rc, "M-r2", fi, both[False], both[True], ref("N", env), "metrics.r2")
    # the default must be the classic variant
    fi = rc.func("metrics.r2")
    d = fi.param_default("r2")
    if d is None or not norm_ends(d, "classic"):
        res.violation("M-r2", fi.module, fi.name, fi.node, "default R2 variant is not the classic one", construct="default r2")

    # ---- F: linear_fit / linear_transform --------------------------------
    ev = rc.new_eval()
    x = ev.symbol("x", True)
    y = ev.symbol("y", True)
    ev.len_map = {"x": sym("N"), "y": sym("N")}
    fi, out = rc.eval_fn("linear_fit.linear_fit", {"x": x, "y": y})
    programs += 1
    x0, xn = ref("at(x, 0)", {"x": x}), ref("at(x, 0 - 1)", {"x": x})
    y0, yn = ref("at(y, 0)", {"y": y}), ref("at(y, 0 - 1)", {"y": y})
    nondeg = compare("!=", x0, xn)
    covered = []
    good = True
    for g, v in cases_of(out.value()):
        if not (isinstance(v, Vec) and len(v.items) == 2 and all(isinstance(i, Rat) for i in v.items)):
            res.violation("F", fi.module, fi.name, fi.node, f"linear_fit returns {v!r}, expected a pair (b, m)", construct="return shape")
            good = False
            continue
        b, m = v.items
        through0 = m.mul(x0).add(b).equals(y0)
        throughn = m.mul(xn).add(b).equals(yn)
        if through0 and throughn:
            covered.append(g)
        elif g_sat(g_and(g, nondeg)):
            good = False
            res.violation("F", fi.module, fi.name, fi.node,
                          f"endpoint fit does not interpolate both end points under {g}: m*x0+b {'==' if through0 else '!='} y0, m*xn+b {'==' if throughn else '!='} yn",
                          f"b={_short(b, 80)}, m={_short(m, 80)}", "m*x0+b == y0 and m*xn+b == yn", construct="interpolation")
    from ..guards import g_or
    if good and not g_implies(nondeg, g_or(*covered) if covered else g_not(TRUE)):
        good = False
        res.violation("F", fi.module, fi.name, fi.node, "the interpolating line is not returned for every x0 != xn",
                      str([str(g) for g in covered]), "x0 != xn", construct="interpolation coverage")
    if good:
        res.ok("F", fi.qualname, "m*x0+b == y0 and m*xn+b == yn as rational identities under x0 != xn")
    ev = rc.new_eval()
    x = ev.symbol("x", True)
    b_, m_ = ev.symbol("b"), ev.symbol("m")
    fi, out = rc.eval_fn("linear_fit.linear_transform", {"x": x, "coef": Vec([b_, m_])})
    rc.expect_equal("F", fi, out.value(), x.mul(m_).add(b_), "linear_transform(x, (b, m)) == x*m + b")
    programs += 1

    # ---- W: wrappers -------------------------------------------------------
    def wrapper_env():
        ev = rc.new_eval()
        x = ev.symbol("x", True)
        y = ev.symbol("y", True)
        b_, m_ = ev.symbol("b"), ev.symbol("m")
        eps = ev.symbol("eps")
        ev.len_map = {"x": sym("N"), "y": sym("N")}
        return ev, {"x": x, "y": y, "coef": Vec([b_, m_]), "eps": eps}, {"y": y, "y_hat": x.mul(m_).add(b_), "eps": eps}

    for wname, (metric, has_eps) in WRAPPERS.items():
        ev, args, renv = wrapper_env()
        fi = rc.func(f"linear_fit.{wname}")
        sigp = fi.signature.positional
        if has_eps and "eps" not in sigp:
            args.pop("eps")
            renv["eps"] = Rat.const(__import__("fractions").Fraction(1e-16))
        call = {k: v for k, v in args.items() if k in sigp}
        fi, out = rc.eval_fn(f"linear_fit.{wname}", call)
        want = ref(METRIC_REFS[metric], renv)
        rc.expect_equal("W", fi, out.value(), want, f"linear_fit.{wname} == metrics.{metric}(y, m*x+b" + (", eps)" if has_eps else ")"))
        programs += 1
    both = {}
    ev, args, renv = wrapper_env()
    for adjusted in (False, True):
        call = {"x": args["x"], "y": args["y"], "coef": args["coef"], "r2": Obj("enum", "R2.adjusted" if adjusted else "R2.classic")}
        fi, out = rc.eval_fn("linear_fit.linear_r2", call)
        both[adjusted] = out.value()
        _check_r2_like(rc, "W", fi, out.value(), renv, f"linear_fit.linear_r2[{'adjusted' if adjusted else 'classic'}]", adjusted)
        programs += 1
    _check_adjusted_of_classic(rc, "W", fi, both[False], both[True], ref("N", renv), "linear_fit.linear_r2")
    # linear_fit_residuals: residuals of the endpoint fit
    ev = rc.new_eval()
    x = ev.symbol("x", True)
    y = ev.symbol("y", True)
    ev.len_map = {"x": sym("N"), "y": sym("N")}
    fi, out = rc.eval_fn("linear_fit.linear_fit_residuals", {"x": x, "y": y})
    _fi2, fit = rc.eval_fn("linear_fit.linear_fit", {"x": x, "y": y})
    for g, v in cases_of(fit.value()):
        if isinstance(v, Vec) and len(v.items) == 2:
            b, m = v.items
            want = ref(METRIC_REFS["residuals"], {"y": y, "y_hat": x.mul(m).add(b)})
            rc.expect_equal("W", fi, out.value(), want, f"linear_fit_residuals == residuals(y, endpoint line) [{g}]", under=g)
    programs += 1

    # ---- W-points -----------------------------------------------------------
    for pname, target in list(POINTS_WRAPPERS.items()) + [("linear_fit_points", "linear_fit"), ("linear_transform_points", "linear_transform"),
                                                            ("linear_fit_residuals_points", "linear_fit_residuals")]:
        ev = rc.new_eval()
        pts = ev.point("points", True)
        ev.len_map = {"points": sym("N")}
        b_, m_ = ev.symbol("b"), ev.symbol("m")
        eps = ev.symbol("eps")
        r2v = Obj("enum", "R2.adjusted")
        fi = rc.func(f"linear_fit.{pname}")
        ft = rc.func(f"linear_fit.{target}")
        base = {"points": pts, "coef": Vec([b_, m_]), "eps": eps, "r2": r2v}
        call = {k: v for k, v in base.items() if k in fi.signature.positional}
        tbase = {"x": pts.items[0], "y": pts.items[1], "coef": Vec([b_, m_]), "eps": eps, "r2": r2v}
        tcall = {k: v for k, v in tbase.items() if k in ft.signature.positional and (k in ("x", "y", "coef") or k in call)}
        _f, got = rc.eval_fn(f"linear_fit.{pname}", call)
        _f, want = rc.eval_fn(f"linear_fit.{target}", tcall)
        gv, wv = got.value(), want.value()
        from ..gvn import veq
        if veq(gv, wv):
            res.ok("W-points", fi.qualname, f"== {target}(points[:,0], points[:,1], ...) with every accepted parameter forwarded")
        else:
            res.violation("W-points", fi.module, fi.name, fi.node,
                          f"{pname} differs from {target} on the point columns (a parameter dropped or a column swapped)",
                          _short(gv), _short(wv), construct=f"{pname} vs {target}")
        programs += 1

    # ---- B: best-fit r2 -------------------------------------------------------
    section(rc, _best_fit)
    programs += 2
    res.rule("D-dtype", "no metric / fit helper puts a real value into an array that inherits the dtype of its argument (np.*_like, .copy(): an integer-typed x or y "
             "would truncate the fitted values before the metric is taken)")
    from . import detectors as _d
    _d.dtype_guard(rc, "D-dtype", ["metrics", "linear_fit"])
    section(rc, _no_narrowing_cast)
    from . import c17 as _c17
    _c17._sec_intwidth(rc, "N-int", INT_SHAPES)
    res.extra_coverage.update({"programs": programs, "disagreements_checked": len(res.findings)})
    res.analysed["inlined_functions"] = sorted(rc.ev.inlined)
    res.assumptions += ["real-number reading of the formulas (floating-point rounding is outside the claim)",
                        "numpy element-wise semantics of the functions in kverif.npmodel",
                        "@jit(nopython=True) preserves the Python meaning of the metric bodies",
                        "all array arguments of one metric have the same length N"]
    res.not_decided += ["floating-point rounding error of the closed forms", "value of r2 on constant y (tss == 0) beyond being selected only then"]
    from .common import hidden_state as _hidden_state
    _hidden_state(rc, "H1", sorted(INT_SHAPES), "metrics and fit helpers")
    section(rc, _enum_typing)
    res.require_instances("C16 programs compared", programs, 30)


_NARROW_NAMES = {"int", "bool"}
_NARROW_PREFIXES = ("int", "uint", "bool", "float16", "float32", "half", "single", "longlong", "short", "byte", "ubyte")


def _narrow_type(e):
    """The text of a literal dtype argument that cannot hold a float64 value exactly (integer / bool / narrow float), else None."""
    if isinstance(e, ast.Name) and e.id in _NARROW_NAMES:
        return e.id
    if isinstance(e, ast.Attribute) and isinstance(e.value, ast.Name) and e.value.id in ("np", "numpy") and e.attr.startswith(_NARROW_PREFIXES):
        return "np." + e.attr
    if isinstance(e, ast.Constant) and isinstance(e.value, str) and (e.value.startswith(_NARROW_PREFIXES) or e.value[:1] in ("i", "u", "b", "?")
                                                                      or e.value in ("f2", "f4", "e", "f", "<f4", "<f2")):
        return repr(e.value)
    return None


def _no_narrowing_cast(rc: RuleCtx):
    """D-dtype, second half: every value of metrics / linear_fit is a real quantity (a coordinate, a fitted value, an error, a
    coefficient) - none is an index.  The value domain reads `.astype(T)` as the identity (it is one for float64), so a cast to a
    literal integer / bool / narrow float type is decided here, on the call itself: it truncates the value the formulas are about."""
    res = rc.res
    n = 0
    for mod in rc.ctx.repo.package_modules():
        if mod.short not in ("metrics", "linear_fit"):
            continue
        for c in ast.walk(mod.tree):
            if not (isinstance(c, ast.Call) and isinstance(c.func, ast.Attribute) and c.func.attr in ("astype", "view")):
                continue
            n += 1
            targ = c.args[0] if c.args else next((k.value for k in c.keywords if k.arg == "dtype"), None)
            t = _narrow_type(targ) if targ is not None else None
            if t is not None:
                res.violation("D-dtype", mod, mod.enclosing_function_name(c), c,
                              f"a real-valued quantity is cast to {t}: the fitted values / errors are truncated (or lose precision far beyond rounding) "
                              "before the metric is taken", norm_text(c), "no cast of a real value to an integer, bool or narrow float type",
                              construct=f"narrowing cast {mod.short}.{mod.enclosing_function_name(c)}")
    res.ok("D-dtype", "metrics+linear_fit:casts", f"{n} astype/view call(s): none to a literal integer / bool / narrow float type")


_JIT_DECOS = ("jit", "njit", "numba.jit", "numba.njit", "nb.jit", "nb.njit")
_PLAIN_ENUM_BASES = {"enum.Enum", "Enum", "enum.IntEnum", "IntEnum"}
_DATA_MIXINS = {"str", "int", "float", "bytes", "complex", "bool"}


def _enum_typing(rc: RuleCtx):
    """M-enum: the assumption '@jit preserves the Python meaning of the body' for selector arguments.  numba types an argument by
    single dispatch on its class: a member of `class R2(enum.Enum)` is an EnumMember and `r2 is R2.adjusted` is decided at run time
    by identity, but a member of `class R2(str, enum.Enum)` (any data-type mix-in in front of Enum) is typed as the mix-in - a plain
    string / integer - and the comparison with the enum constant is folded to False when the function is compiled: the selected branch
    is silently never taken.  Confirmed against the installed numba (typeof).  Decided on the class statements of every enum whose
    members a compiled function names."""
    res = rc.res
    res.rule("M-enum", "every Enum class whose members a numba-compiled function compares against derives from enum.Enum / enum.IntEnum alone "
             "(a str / int / float mix-in makes numba type the argument as the mix-in and fold `arg is Class.member` to a constant)")
    classes = {}
    for mod in rc.ctx.repo.package_modules():
        for st in mod.tree.body:
            if isinstance(st, ast.ClassDef):
                bases = [norm_text(b) for b in st.bases]
                if any(b.split(".")[-1] in ("Enum", "IntEnum", "Flag", "IntFlag", "StrEnum") for b in bases):
                    members = {t.id for a in st.body if isinstance(a, ast.Assign) for t in a.targets if isinstance(t, ast.Name)}
                    classes[st.name] = (mod, st, bases, members)
    used = {}
    for mod in rc.ctx.repo.package_modules():
        for fn in ast.walk(mod.tree):
            if not isinstance(fn, (ast.FunctionDef, ast.AsyncFunctionDef)):
                continue
            if not any(norm_text(d).startswith(_JIT_DECOS) for d in fn.decorator_list):
                continue
            for a in ast.walk(fn):
                if isinstance(a, ast.Attribute) and isinstance(a.ctx, ast.Load):
                    owner = a.value.id if isinstance(a.value, ast.Name) else (a.value.attr if isinstance(a.value, ast.Attribute) else None)
                    if owner in classes and a.attr in classes[owner][3]:
                        used.setdefault(owner, []).append(f"{mod.short}.{fn.name}")
    for name, sites in sorted(used.items()):
        mod, st, bases, _m = classes[name]
        mix = [b for b in bases if b in _DATA_MIXINS]
        if mix:
            res.violation("M-enum", mod, name, st,
                          f"enum {name} mixes in {', '.join(mix)}: numba types its members as {mix[0]} values, so the member tests compiled into "
                          f"{', '.join(sorted(set(sites)))} are folded to constants and the selected variant is never applied",
                          f"class {name}({', '.join(bases)})", f"class {name}(enum.Enum)", construct=f"enum bases {name}")
        elif all(b in _PLAIN_ENUM_BASES for b in bases) and len(bases) == 1:
            res.ok("M-enum", f"{mod.short}.{name}", f"bases {bases}; members compared inside {sorted(set(sites))}")
        else:
            res.error(f"M-enum: enum {name} has bases {bases}; how numba types its members is not tabled (used in {sorted(set(sites))})")
    res.require_instances("M-enum enum classes used by compiled functions", len(used), 1)


def norm_ends(node, suffix: str) -> bool:
    return ast.unparse(node).endswith(suffix)


def _centres_data(fi) -> bool:
    """Both data arrays are mean-centred element-wise (`x - x.mean()`, `x - np.mean(x)`, `x - sum(x)/n`) somewhere in the body."""
    params = [a.arg for a in fi.node.args.args][:2]
    centred = set()
    for n_ in ast.walk(fi.node):
        if isinstance(n_, ast.BinOp) and isinstance(n_.op, ast.Sub) and isinstance(n_.left, ast.Name) and n_.left.id in params:
            agg = [c for c in ast.walk(n_.right) if isinstance(c, ast.Call) and (
                (isinstance(c.func, ast.Attribute) and c.func.attr in ("mean", "sum", "average")) or (isinstance(c.func, ast.Name) and c.func.id in ("sum",)))]
            names = {m.id for m in ast.walk(n_.right) if isinstance(m, ast.Name)}
            if agg and n_.left.id in names:
                centred.add(n_.left.id)
            elif isinstance(n_.right, ast.Name):
                # x - mx with mx assigned from an aggregate of x
                for st in ast.walk(fi.node):
                    if isinstance(st, ast.Assign) and any(isinstance(t_, ast.Name) and t_.id == n_.right.id for t_ in st.targets):
                        nm2 = {m.id for m in ast.walk(st.value) if isinstance(m, ast.Name)}
                        if n_.left.id in nm2 and any(isinstance(c, ast.Call) for c in ast.walk(st.value)):
                            centred.add(n_.left.id)
    return len(centred) == 2


def _best_fit(rc: RuleCtx):
    res = rc.res
    for adjusted in (False, True):
        ev = rc.new_eval()
        x = ev.symbol("x", True)
        y = ev.symbol("y", True)
        ev.len_map = {"x": sym("N"), "y": sym("N")}
        fi = rc.func("linear_fit.r2")
        out = ev.eval_function(fi, {"x": x, "y": y, "t": Obj("enum", "R2.adjusted" if adjusted else "R2.classic")})
        # reference: the squared correlation coefficient, evaluated through the same vocabulary
        fr_fi = fi
        corr_sq = None
        for g, v in cases_of(out.value()):
            pass
        n = sym("N")
        small = compare("<=", n, Rat.const(2))
        ok = True
        seen_corr = False
        for g, v in cases_of(out.value()):
            if not isinstance(v, Rat):
                ok = False
                res.violation("B", fi.module, fi.name, fi.node, f"non-numeric value {v!r}", construct="best fit r2")
                continue
            if g_implies(g, small) and g.kind != "true":
                base = Rat.const(1)
            else:
                # find the corrcoef atom in the value
                cc = [a for a in v.all_atoms() if a.kind == "fn" and a.name == "item" and any(
                    b.name.startswith("np.corrcoef") for b in a.args[0].all_atoms() if b.kind == "fn")]
                if len(cc) != 1:
                    # a re-implementation of the Pearson correlation?  compare with its moment form in exact arithmetic
                    sx, sy = anf.f_sum(x, n), anf.f_sum(y, n)
                    cxy = anf.f_sum(x * y, n) - sx * sy / n
                    cxx = anf.f_sum(x * x, n) - sx * sx / n
                    cyy = anf.f_sum(y * y, n) - sy * sy / n
                    alg = cxy * cxy / (cxx * cyy)
                    want_alg = alg if not adjusted else Rat.const(1).sub(Rat.const(1).sub(alg).mul(n.sub(Rat.const(1)).div(n.sub(Rat.const(2)))))
                    if len(cc) == 0 and v.equals(want_alg):
                        centred = _centres_data(fi)
                        if centred:
                            seen_corr = True
                            continue
                        ok = False
                        res.violation("B", fi.module, fi.name, fi.node,
                                      "best-fit R2 is re-implemented with the one-pass raw-moment formula (sum(x*y) - sum(x)*sum(y)/n, ...): it equals the squared Pearson "
                                      "correlation only in exact arithmetic - for data with an offset that is large compared with its spread the subtractions cancel and "
                                      "the value is wrong (even outside [0, 1])", _short(v), "corrcoef(x,y)[0,1]**2 (or moments of the mean-centred data)",
                                      construct="best fit r2 raw moments")
                        continue
                    ok = False
                    res.violation("B", fi.module, fi.name, fi.node,
                                  "best-fit R2 is not a function of corrcoef(x, y)[0, 1]", _short(v), "corrcoef(x,y)[0,1]**2",
                                  construct="best fit r2 corr")
                    continue
                item = cc[0]
                idx = [a.is_const() for a in item.args[1:]]
                inner = [b for b in item.args[0].all_atoms() if b.kind == "fn" and b.name.startswith("np.corrcoef")][0]
                argnames = [sorted(a.symbols()) for a in inner.args]
                if sorted(map(int, idx)) != [0, 1] or sorted(sum(argnames, [])) != ["x", "y"]:
                    ok = False
                    res.violation("B", fi.module, fi.name, fi.node, "corrcoef is not taken between x and y at the off-diagonal entry",
                                  _short(v), "corrcoef(x, y)[0, 1]", construct="best fit r2 corr args")
                    continue
                seen_corr = True
                c = Rat.from_atom(item)
                base = c.mul(c)
            want = base
            if adjusted:
                want = Rat.const(1).sub(Rat.const(1).sub(base).mul(n.sub(Rat.const(1)).div(n.sub(Rat.const(2)))))
            if not v.equals(want):
                ok = False
                res.violation("B", fi.module, fi.name, fi.node,
                              f"best-fit R2 ({'adjusted' if adjusted else 'classic'}) under {g} is not the required value ({anf.explain_difference(v, want)})",
                              _short(v), _short(want), construct=f"best fit r2 {'adjusted' if adjusted else 'classic'}")
        if ok and seen_corr:
            res.ok("B", fi.qualname, f"corrcoef(x,y)[0,1]**2" + (" with (n-1)/(n-2) correction" if adjusted else ""))
        elif ok:
            res.error("rule B: no corrcoef-based case found in linear_fit.r2 - shape not recognised")
    # r2_points delegates
    ev = rc.new_eval()
    pts = ev.point("points", True)
    ev.len_map = {"points": sym("N")}
    fi = rc.func("linear_fit.r2_points")
    t = Obj("enum", "R2.adjusted")
    got = ev.eval_function(fi, {"points": pts, "t": t}).value()
    want = ev.eval_function(rc.func("linear_fit.r2"), {"x": pts.items[0], "y": pts.items[1], "t": t}).value()
    n = sym("N")
    small = compare("<=", n, Rat.const(2))
    ok = True
    from ..gvn import veq
    for g, v in cases_of(got):
        if g_implies(g, small) and g.kind != "true":
            continue     # <= 2 points: 1.0 by convention (no adjusted correction is defined there)
        match = any(veq(v, w) for gw, w in cases_of(want) if g_sat(g_and(g, gw)))
        if not match:
            ok = False
            res.violation("B", fi.module, fi.name, fi.node, "r2_points does not delegate to r2 on the point columns with its variant parameter",
                          _short(v), _short(want), construct="r2_points")
    if ok:
        res.ok("B", fi.qualname, "delegates to r2(points[:,0], points[:,1], t)")
