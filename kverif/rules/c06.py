"""C06 -- global RDP stops at the first refinement whose global cost meets the threshold.

G1  sibling alignment: the loop body of _grdp equals the loop body of _rdp_fixed (same split
    index, same pushes and push guards, same priorities, same retained index, same priority
    sort) once {budget counter, global-cost statements, in-loop sort of reduced} are removed.
G2  the acceptance test is the same before the loop and after each insertion:
    curved == (cost < t) for R2, (cost >= t) otherwise; the loop runs iff `curved and stack`.
G3  compute_global_cost(points, reduced, cost, cache) is evaluated after the new index is in
    `reduced` and `reduced` is sorted; one cache per _grdp call.
G4  mp_grdp returns the _grdp result iff len(reduced) >= min_points (accept >=, >), otherwise
    continues _rdp_fixed with length == min_points - len(reduced) on the same stack / reduced.
G5  min_point_rdp: thresholds visited in descending order; first result with
    len >= min_points returned; fallback rdp_fixed(points, min_points).
"""

from __future__ import annotations

import ast

from .. import AnalysisError, anf
from ..anf import Rat, sym
from ..guards import (G, TRUE, FALSE, g_and, g_not, g_or, g_equiv, g_implies, g_sat, compare, canon_sign, OPS)
from ..gvn import Frame, Obj, PW, Vec, cases_of, veq, Unsupported, vkey
from ..intervals import single_atom
from . import rdp_model as rm
from .c01 import _ascending
from .common import section, log_only_local, RuleCtx, _short, split_at_loop, sign_set_name

C = Rat.const
ORDERS = ["triangle", "area", "segment"]
METRICS = ["r2", "rmspe", "rmsle", "rpd", "smape"]


def _gcost(ev, pts, cost: Obj, cache) -> Rat:
    args = [ev.to_rat(pts), sym("reduced@list"), ev.to_rat(cost), ev.to_rat(cache)]
    return anf.opaque("call:evaluation.compute_global_cost", *args, array=True, extra=("points", "reduced", "cost", "cache"))


def run(ctx):
    rc = RuleCtx(ctx)
    res = ctx.result
    res.level = "other"
    for k, v in {"G1": "_grdp loop body == _rdp_fixed loop body modulo {length -= 1, global-cost evaluation, reduced.sort()}",
                 "G2": "curved == sign(global_cost - t) in {-} (R2) / {0,+} (others), identically before the loop and after each insertion; loop test `curved and stack`",
                 "G3": "global cost evaluated on (points, reduced, cost, cache) after append + sort; cache created once per _grdp call and never re-bound in the loop",
                 "G4": "mp_grdp: accept iff len(reduced) {>=,>} min_points; else _rdp_fixed(points, min_points - len(reduced), distance_points, order, stack, reduced) on _grdp's own stack / reduced",
                 "G5": "min_point_rdp: descending thresholds, first len(reduced) >= min_points returned, fallback rdp_fixed(points, min_points)"}.items():
        res.rule(k, v)
    # ---- G1 ----------------------------------------------------------------------
    for oname in ORDERS:
        bind = {"order": Obj("enum", f"Order.{oname}")}
        mf = rm.build(rc, "rdp._rdp_fixed", dict(bind))
        mg = rm.build(rc, "rdp._grdp", dict(bind, cost=Obj("enum", "Metrics.smape")), allow_break=True)
        _align(rc, mf, mg, oname)
    # ---- G2 / G3 -------------------------------------------------------------------
    for mname in METRICS:
        mg = rm.build(rc, "rdp._grdp", {"order": Obj("enum", "Order.segment"), "cost": Obj("enum", f"Metrics.{mname}")})
        _accept(rc, mg, mname)
    for q_ in ("rdp.grdp", "rdp.mp_grdp"):
        rm.check_distance_dispatch(rc, "G1", q_)
    _g3(rc, mg)
    # the acceptance test reads evaluation.compute_global_cost through ONE cache shared by every refinement of a run:
    # the cost of S_k is the stated one only if nothing cached for S_j (another breakpoint set) is reused for S_k
    from . import c15
    for k_, v_ in {"U1": "every cache store: def-use closure of the stored value within key components + points + metric (evaluation.compute_global_cost / compute_cost)",
                   "U2": "a segment with <= 2 points stores the literal 0", "U3": "divisor total == len(points) + len(segment_errors) - 1, recomputed for each breakpoint set",
                   "U4": "final cost clipped at 0", "U5": "per metric: finalise(sum partial) is the stated global cost"}.items():
        res.rule(k_, v_)
    c15._global_cost_loop(rc)
    c15._compute_cost(rc)
    section(rc, _mp_grdp)
    section(rc, _min_point)
    res.assumptions += ["t > 0; thresholds finite", "S_k denotes the fixed-size refinement sequence of C05 (the alignment G1 makes the two loops generate the same sequence)"]
    res.not_decided += ["equality with an independently computed S_k on concrete curves (behavioural)"]
    from .common import hidden_state as _hidden_state
    _hidden_state(rc, "G6", ['rdp.grdp', 'rdp.mp_grdp', 'rdp.min_point_rdp'], "global RDP")
    res.require_instances("C06 obligations", len(res.obligations), 13)


def _push_sig(m: rm.LoopModel):
    out = []
    for p in m.pushes:
        out.append((p.guard.key, tuple(vkey(i) for i in p.items)))
    return out


def _align(rc: RuleCtx, mf: rm.LoopModel, mg: rm.LoopModel, oname: str):
    res = rc.res
    tag = f"_grdp~_rdp_fixed[{oname}]"
    problems = []
    if not veq(mf.index, mg.index):
        problems.append(("split index", _short(mg.index, 160), _short(mf.index, 160)))
    if _push_sig(mf) != _push_sig(mg):
        problems.append(("pushes (guards, priorities, ranges)", str([[_short(i, 50) for i in p.items] for p in mg.pushes]),
                         str([[_short(i, 50) for i in p.items] for p in mf.pushes])))
    af, ag = mf.appends(mf.retained), mg.appends(mg.retained)
    if [(e.guard.key, vkey(e.args[0])) for e in af] != [(e.guard.key, vkey(e.args[0])) for e in ag]:
        problems.append(("retained index", str([_short(e.args[0], 80) for e in ag]), str([_short(e.args[0], 80) for e in af])))
    def sort_sig(call):
        key, rev = None, False
        for kw in call.keywords:
            if kw.arg == "key":
                lam = kw.value
                fld = rm.sort_key_field(mf.fi, lam) or rm.sort_key_field(mg.fi, lam)
                if fld is not None:
                    key = fld                       # by value: the tuple field the stack is ordered on
                else:
                    key = ast.dump(lam.body) if isinstance(lam, ast.Lambda) else ast.dump(lam)
                    if isinstance(lam, ast.Lambda) and len(lam.args.args) == 1:
                        # alpha-normalise the lambda parameter
                        key = key.replace(repr(lam.args.args[0].arg), "'_'")
            elif kw.arg == "reverse":
                rev = ast.unparse(kw.value)
                rev = {"False": False, "True": True}.get(rev, rev)
        return (key, rev)
    # the sort must run on every path of the step (its guard is part of the signature): the work stack is handed over
    # sorted, to the next iteration and - in mp_grdp - to the fixed-size continuation
    sf = [(sort_sig(e.node), e.guard.key) for e in mf.events if e.kind == "sort" and e.target == mf.stack]
    sg = [(sort_sig(e.node), e.guard.key) for e in mg.events if e.kind == "sort" and e.target == mg.stack]
    if sf != sg or not sf:
        gs = [str(e.guard)[:120] for e in mg.events if e.kind == "sort" and e.target == mg.stack]
        problems.append(("priority sort of the work stack (skipped or conditional on some path: the stack is left unsorted for the next pop)",
                         f"{len(sg)} sort(s) under {gs}", f"{len(sf)} unconditional sort(s)"))
    # pops
    pf = [[ast.unparse(a) for a in e.node.args] for e in mf.events if e.kind == "pop"]
    pg = [[ast.unparse(a) for a in e.node.args] for e in mg.events if e.kind == "pop"]
    if pf != pg:
        problems.append(("pop", str(pg), str(pf)))
    # nothing else may differ except the declared set
    def other(m):
        out = []
        for e in m.events:
            if e.kind in ("append", "pop"):
                continue
            if e.kind == "sort" and e.target == m.stack:
                continue
            if e.kind == "aug" and e.target == "length":
                continue
            if e.kind == "aug" and log_only_local(m.fi, e.target):
                continue            # a counter that only feeds a debug message
            if e.kind == "sort" and e.target == m.retained:
                continue
            if e.kind == "call" and e.target == "evaluation.compute_global_cost":
                continue
            out.append((e.kind, e.target, e.guard.key, tuple(vkey(a) for a in e.args)))
        return out
    if other(mf) != other(mg):
        problems.append(("other effects", str([(k, t) for k, t, _g, _a in other(mg)]), str([(k, t) for k, t, _g, _a in other(mf)])))
    if problems:
        for what, got, want in problems:
            res.violation("G1", mg.fi.module, mg.fi.name, mg.loop,
                          f"[{oname}] the global-RDP refinement step differs from the fixed-size one in its {what}: the two no longer generate the same refinement sequence S_k",
                          got, want, construct=f"alignment {what}")
    elif mg.out.breaks:
        raise AnalysisError("rdp._grdp: the refinement loop is left with `break` - shape not recognised")
    else:
        res.ok("G1", tag, "same pop, split index, retained index, pushes (guards, priorities, ranges) and priority sort")


def _accept(rc: RuleCtx, mg: rm.LoopModel, mname: str):
    res = rc.res
    ev = mg.ev
    pts = mg.env_pre["points"]
    caches = [v for v in mg.env_pre.values() if isinstance(v, Obj) and v.tag == "dict"]
    if len(caches) != 1:
        raise AnalysisError("rdp._grdp: expected exactly one per-call cache created before the loop")
    cache = caches[0]
    gc = _gcost(ev, pts, Obj("enum", f"Metrics.{mname}"), cache)
    want = canon_sign(gc - sym("t"), OPS["<"] if mname == "r2" else OPS[">="])
    # the continuation flag: the name tested by the loop together with the stack
    flags = [n.id for n in ast.walk(mg.loop.test) if isinstance(n, ast.Name) and n.id != mg.stack]
    if len(flags) != 1:
        raise AnalysisError("rdp._grdp: loop test is not `<flag> and <stack>`")
    flag = flags[0]
    pre_c = mg.env_pre.get(flag)
    post_c = mg.env_post.get(flag)
    fr = Frame(ev, mg.fi, 0)
    ok = True
    for label, v in (("before the loop", pre_c), ("after an insertion", post_c)):
        g = fr.truth(v) if v is not None else None
        if g is None or not g_equiv(g, want):
            ok = False
            res.violation("G2", mg.fi.module, mg.fi.name, mg.loop,
                          f"[{mname}] {label}: the refinement continues on a condition other than 'global cost {'<' if mname == 'r2' else '>='} t'",
                          _short(g, 200), _short(want, 200), construct=f"acceptance {label} {mname}")
    # loop test
    env = dict(mg.env_pre)
    env[flag] = sym("flag!")
    g = fr.cond(mg.loop.test, env)
    items = g.a if g.kind == "and" else (g,)
    has_c = any(x.kind == "atom" and "flag!" in repr(x.a) for x in items)
    has_s = any(x.kind == "atom" and mg.stack in repr(x.a) for x in items)
    if not (g.kind == "and" and len(items) == 2 and has_c and has_s):
        ok = False
        res.violation("G2", mg.fi.module, mg.fi.name, mg.loop, "the loop does not run exactly while the cost is rejecting and splittable segments remain",
                      str(g), "curved and stack", construct="grdp loop test")
    if ok:
        res.ok("G2", f"rdp._grdp[{mname}]", f"continue iff global cost {'<' if mname == 'r2' else '>='} t, same test before the loop and after each insertion")


def _g3(rc: RuleCtx, mg: rm.LoopModel):
    res = rc.res
    evs = mg.events
    pos = {id(e): k for k, e in enumerate(evs)}
    app = [e for e in evs if e.kind == "append" and e.target == mg.retained]
    srt = [e for e in evs if e.kind == "sort" and e.target == mg.retained and _ascending(e.node)]
    cst = [e for e in evs if e.kind == "call" and e.target == "evaluation.compute_global_cost"]
    ok = len(cst) == 1 and cst[0].guard.kind == "true" and bool(app) and bool(srt) \
        and all(pos[id(a)] < pos[id(cst[0])] for a in app) and pos[id(srt[0])] < pos[id(cst[0])] and pos[id(app[0])] < pos[id(srt[0])]
    if ok:
        args = cst[0].args
        ok = len(args) == 4 and isinstance(args[1], Rat) and "reduced@list" in args[1].symbols()
    # cache: created once before the loop, not re-bound inside
    cache_names = [k_ for k_, v in mg.env_pre.items() if isinstance(v, Obj) and v.tag == "dict"]
    cache_pre = mg.env_pre.get(cache_names[0]) if len(cache_names) == 1 else None
    rebound = any(isinstance(n, ast.Name) and isinstance(n.ctx, ast.Store) and n.id in cache_names for st in mg.loop.body for n in ast.walk(st))
    if ok and isinstance(cache_pre, Obj) and cache_pre.tag == "dict" and not cache_pre.val and not rebound:
        res.ok("G3", "rdp._grdp", "global cost of the current sorted set, with the per-call cache, after every insertion")
    else:
        res.violation("G3", mg.fi.module, mg.fi.name, mg.loop,
                      "the global cost is not evaluated on the current (inserted and sorted) set with one per-call cache",
                      str([(e.kind, e.target) for e in evs if e.target in (mg.retained, "evaluation.compute_global_cost")]) + f" cache={cache_pre} rebound={rebound}",
                      "append; sort; compute_global_cost(points, reduced, cost, cache)", construct="global cost evaluation")


def _mp_grdp(rc: RuleCtx):
    res = rc.res
    fi = rc.func("rdp.mp_grdp")
    ev = rc.new_eval()
    pts = ev.point("points", True)
    ev.len_map = {"points": sym("n")}
    env = {"points": pts, "distance": Obj("enum", "Distance.shortest")}
    for p in fi.signature.positional:
        if p not in env:
            env[p] = ev.symbol(p)
    out = ev.eval_function(fi, env)
    calls_g = [e for e in out.events if e.kind == "call" and e.target == "rdp._grdp"]
    calls_f = [e for e in out.events if e.kind == "call" and e.target == "rdp._rdp_fixed"]
    if len(calls_g) != 1 or len(calls_f) != 1:
        res.violation("G4", fi.module, fi.name, fi.node, "mp_grdp does not consist of one _grdp run followed by one conditional _rdp_fixed continuation",
                      f"_grdp calls {len(calls_g)}, _rdp_fixed calls {len(calls_f)}", "1 and 1", construct="mp_grdp calls")
        return
    # result of _grdp
    gi = rc.func("rdp._grdp")
    gpos = gi.signature.positional
    gargs = calls_g[0].args
    names = [p for p in gpos]
    ra = [ev.to_rat(a) if not isinstance(a, PW) else None for a in gargs]
    # locate the opaque _grdp result atom in the continuation arguments
    fpos = rc.func("rdp._rdp_fixed").signature.positional
    fmap = dict(zip(fpos, calls_f[0].args))

    def grdp_item(v, k):
        if isinstance(v, PW):
            return all(grdp_item(x, k) for _g, x in v.cases)
        a = single_atom(v) if isinstance(v, Rat) else None
        if a is None or a.name != "item" or a.args[1].is_const() != k:
            return False
        inner = single_atom(a.args[0])
        return inner is not None and inner.name == "call:rdp._grdp"
    ok = True
    if not grdp_item(fmap.get("reduced"), 0) or not grdp_item(fmap.get("stack"), 1):
        ok = False
        res.violation("G4", fi.module, fi.name, calls_f[0].node, "the continuation does not reuse the retained set and work stack returned by _grdp",
                      f"reduced={_short(fmap.get('reduced'), 80)} stack={_short(fmap.get('stack'), 80)}", "reduced, stack = _grdp(...)", construct="continuation state")
    red = fmap.get("reduced")
    length_ok = True
    nred = None
    gl = fmap.get("length")
    for g, r1 in cases_of(red):
        if not isinstance(r1, Rat):
            length_ok = False
            continue
        n1 = ev.length_of(r1)
        nred = n1 if nred is None else nred
        for g2, l1 in cases_of(gl):
            if g_sat(g_and(g, g2)) and not (isinstance(l1, Rat) and l1.equals(sym("min_points") - n1)):
                length_ok = False
    if not length_ok or nred is None:
        ok = False
        res.violation("G4", fi.module, fi.name, calls_f[0].node, "the continuation budget is not min_points - len(reduced)", _short(fmap.get("length"), 100),
                      "min_points - len(reduced)", construct="continuation budget")
    for k in ("distance_points", "order", "points"):
        a_f = fmap.get(k)
        a_g = dict(zip(gpos, gargs)).get(k)
        if a_f is None or a_g is None or not veq(a_f, a_g):
            ok = False
            res.violation("G4", fi.module, fi.name, calls_f[0].node, f"the continuation uses a different `{k}` than the global phase", _short(a_f, 80), _short(a_g, 80),
                          construct=f"continuation {k}")
    # guard of the continuation (per case of the piecewise seed)
    g = calls_f[0].guard
    if nred is not None:
        good_guard = True
        for gc, r1 in cases_of(red):
            n1 = ev.length_of(r1)
            acc_a = canon_sign(n1 - sym("min_points"), OPS[">="])
            acc_b = canon_sign(n1 - sym("min_points"), OPS[">"])
            if not (g_equiv(g_and(g, gc), g_and(gc, g_not(acc_a))) or g_equiv(g_and(g, gc), g_and(gc, g_not(acc_b)))):
                good_guard = False
        if not good_guard:
            ok = False
            res.violation("G4", fi.module, fi.name, calls_f[0].node, "the fixed-size continuation does not run exactly when the global result has fewer than min_points points",
                          str(g), f"not ({acc_a})", construct="continuation guard")
    if ok:
        res.ok("G4", fi.qualname, "returns the _grdp result iff len(reduced) >= min_points, else continues _rdp_fixed with budget min_points - len(reduced) on the same stack / reduced")


def _iter_part(g: G) -> G:
    """The conjuncts of an exit guard that only say 'inside an iteration of the loop'."""
    items = g.a if g.kind == "and" else (g,)
    keep = [x for x in items if x.kind == "atom" and isinstance(x.a, tuple) and x.a and x.a[0] == "iter"]
    return g_and(*keep) if keep else TRUE


def _min_point(rc: RuleCtx):
    res = rc.res
    fi = rc.func("rdp.min_point_rdp")
    # another formulation: the private loops driven directly (one search resumed from threshold to threshold).  Its equivalence with
    # "one fresh grdp run per threshold" is the prefix property itself: not read by the rules below
    for c_ in ast.walk(fi.node):
        if isinstance(c_, ast.Call):
            r_ = rc.lk.resolve(fi.module, c_.func)
            if r_.kind == "func" and r_.obj.qualname in ("rdp._grdp", "rdp._rdp_fixed"):
                raise AnalysisError(f"{fi.qualname}: the result is assembled from the private loops ({r_.obj.qualname}) instead of one grdp / rdp_fixed call per "
                                    "threshold - shape not recognised")
    from .common import account_loop_exits
    account_loop_exits(fi)          # (G5 below reads the return inside the threshold loop: the first threshold whose result has enough points)
    ev = rc.new_eval()
    ev.no_inline |= {"rdp.grdp", "rdp.rdp_fixed"}
    pts = ev.point("points", True)
    ev.len_map = {"points": sym("n")}
    pre, loop, post = split_at_loop(fi)
    tsym = ev.symbol("t", True)
    env = {"points": pts, "t": tsym, "min_points": ev.symbol("min_points")}
    fr = Frame(ev, fi, 0)
    fr.block(pre, env, TRUE)
    # descending order: t re-bound to sorted(t, reverse=True) (or an in-place descending sort -- which C20 rejects separately)
    ok = True
    tv = env.get("t")
    desc = False
    for st in pre:
        for call in [c for c in ast.walk(st) if isinstance(c, ast.Call)]:
            fn = ast.unparse(call.func)
            if fn in ("sorted", "t.sort") and any(kw.arg == "reverse" and isinstance(kw.value, ast.Constant) and kw.value.value is True for kw in call.keywords):
                if fn == "t.sort" or (call.args and ast.unparse(call.args[0]) == "t"):
                    desc = True
    it_ok = isinstance(loop, ast.For) and isinstance(loop.iter, ast.Name) and loop.iter.id == "t"
    if not (desc and it_ok) and isinstance(loop, ast.For):
        # by value: the loop visits sorted(t, reverse=True), whatever name holds it
        try:
            itv = fr.expr(loop.iter, env)
        except Unsupported:
            itv = None
        a_ = single_atom(itv) if isinstance(itv, Rat) else None
        if a_ is not None and a_.name == "py.sorted" and a_.args and a_.args[0].equals(tsym) and tuple(a_.extra or ()) == ("reverse",) and len(a_.args) == 2:
            b_ = ev.bool_registry.get(a_.args[1].atoms()[0].extra) if a_.args[1].atoms() else None
            if b_ is not None and b_.kind == "true":
                desc = it_ok = True
    def _is_sorted_desc(r_):
        a__ = single_atom(r_) if isinstance(r_, Rat) else None
        if a__ is not None and a__.name == "py.sorted" and a__.args and a__.args[0].equals(tsym) and tuple(a__.extra or ()) == ("reverse",) and len(a__.args) == 2:
            b__ = ev.bool_registry.get(a__.args[1].atoms()[0].extra) if a__.args[1].atoms() else None
            return b__ is not None and b__.kind == "true"
        return False
    if not (desc and it_ok) and isinstance(loop, ast.For):
        # an index loop over the sorted thresholds: for k in range(len(S)): current = S[k]
        from .common import bind_loop as _bl
        try:
            b__ = _bl(ev, fr, loop, env)
        except Unsupported:
            b__ = None
        if b__ is not None and b__.lo.is_zero():
            S_ = [v_ for v_ in env.values() if _is_sorted_desc(v_)]
            if S_ and b__.hi.equals(ev.length_of(S_[0])):
                benv__ = dict(env)
                benv__.update(b__.bindings)
                from .common import carry as _carry
                _carry(ev, loop, env, benv__)
                o__ = ev.eval_loop_body(fi, loop, benv__)
                if any(isinstance(v_, Rat) and v_.equals(anf.opaque("at", S_[0], b__.idx, array=False)) for v_ in list(o__.env.values()) + list(b__.bindings.values())):
                    desc = it_ok = True
    if desc and it_ok:
        res.ok("G5", f"{fi.qualname}:order", "thresholds are visited in descending order")
    else:
        ok = False
        res.violation("G5", fi.module, fi.name, loop, "the thresholds are not visited in descending order", ast.unparse(pre[-1]) if pre else "", "for current_t in sorted(t, reverse=True)",
                      construct="threshold order")
    # ---- by value: the whole function, with `break` / `return` inside the loop and a loop-else modelled ------------------
    ev2 = rc.new_eval()
    ev2.no_inline |= {"rdp.grdp", "rdp.rdp_fixed"}
    pts2 = ev2.point("points", True)
    ev2.len_map = {"points": sym("n")}
    mp = ev2.symbol("min_points")
    try:
        whole = ev2.eval_function(fi, {"points": pts2, "t": ev2.symbol("t", True), "min_points": mp})
    except Unsupported as e:
        raise AnalysisError(f"{fi.qualname}: not modelled: {e}")

    def pair_source(v):
        """('grdp'|'rdp_fixed', call atom) when v is the (reduced, removed) pair of one call of that simplifier."""
        if isinstance(v, Rat):
            a_ = single_atom(v)
            if a_ is not None and a_.name in ("call:rdp.grdp", "call:rdp.rdp_fixed") and v.equals(Rat.from_atom(a_)):
                return a_.name[9:], a_
        if isinstance(v, Vec) and len(v.items) == 2 and all(isinstance(k_, Rat) for k_ in v.items):
            r_, m_ = single_atom(v.items[0]), single_atom(v.items[1])
            if r_ is not None and m_ is not None and r_.name == "item" and m_.name == "item" and r_.args[0].equals(m_.args[0]) \
                    and r_.args[1].is_zero() and m_.args[1].is_const() == 1:
                c_ = single_atom(r_.args[0])
                if c_ is not None and c_.name in ("call:rdp.grdp", "call:rdp.rdp_fixed"):
                    return c_.name[9:], c_
        return None, None

    def flat_cases(v):
        if isinstance(v, Vec) and len(v.items) == 2:
            out_ = []
            for g1, a_ in cases_of(v.items[0]):
                for g2, b_ in cases_of(v.items[1]):
                    if g_sat(g_and(g1, g2)):
                        out_.append((g_and(g1, g2), Vec([a_, b_])))
            return out_
        return cases_of(v)
    seen_g = seen_f = False
    for g, v in whole.returns:
        for gc, vc in flat_cases(v):
            if not g_sat(g_and(g, gc)):
                continue
            kind, call = pair_source(vc)
            if kind == "grdp":
                amap = dict(zip(call.extra or (), call.args))
                tv = amap.get("t")
                t_ok = tv is not None and set(amap) == {"points", "t"} and amap["points"].equals(ev2.to_rat(pts2)) and tv.atoms() and not tv.is_array() \
                    and (all(a_.kind == "sym" for a_ in tv.atoms())
                         or (single_atom(tv) is not None and single_atom(tv).name == "at" and single_atom(single_atom(tv).args[0]) is not None
                             and single_atom(single_atom(tv).args[0]).name == "py.sorted" and all(a_.kind == "sym" for a_ in single_atom(tv).args[1].atoms())))
                if not t_ok:
                    ok = False
                    res.violation("G5", fi.module, fi.name, fi.node, "each threshold is not tried by one grdp(points, t=current_t) run", _short(Rat.from_atom(call), 120),
                                  "grdp(points, t=current_t)", construct="threshold run")
                    continue
                # the exit that hands this result out (a return in the loop, or a break) requires len(reduced) >= min_points
                nred = ev2.length_of(anf.opaque("item", Rat.from_atom(call), C(0), array=True))
                want = canon_sign(nred - mp, OPS[">="])
                exits = [gx for gx, _v in whole.returns if gx.kind != "true" and "iter" in repr(gx.key)] + list(whole.frame.breaks)
                exits = [gx for gx in exits if g_sat(gx)]
                if exits and all(g_implies(gx, want) for gx in exits) and any(g_equiv(g_and(gx, want), gx) for gx in exits):
                    # and nothing weaker: the exit guard is exactly the test (within its iteration)
                    exact = all(g_implies(g_and(_iter_part(gx), want), gx) for gx in exits)
                else:
                    exact = False
                if exact:
                    seen_g = True
                else:
                    ok = False
                    res.violation("G5", fi.module, fi.name, fi.node, "a global-RDP result is not returned exactly when it has at least min_points points",
                                  str([_short(gx, 120) for gx in exits]), "if len(reduced) >= min_points: return reduced, removed", construct="threshold accept")
            elif kind == "rdp_fixed":
                amap = dict(zip(call.extra or (), call.args))
                if amap.get("length") is not None and amap["length"].equals(mp) and amap.get("points") is not None and amap["points"].equals(ev2.to_rat(pts2)) \
                        and set(amap) == {"points", "length"}:
                    seen_f = True
                else:
                    ok = False
                    res.violation("G5", fi.module, fi.name, fi.node, "the fallback is not rdp_fixed(points, min_points)", _short(Rat.from_atom(call), 120),
                                  "return rdp_fixed(points, min_points)", construct="fallback")
            else:
                def _mentions_worker(v_):
                    for x_ in (v_.items if isinstance(v_, Vec) else [v_]):
                        if isinstance(x_, Rat) and any(a_.kind == "fn" and a_.name in ("call:rdp._grdp", "call:rdp._rdp_fixed", "call:rdp.compute_removed_points")
                                                       for a_ in x_.all_atoms()):
                            return True
                    return False
                if _mentions_worker(vc):
                    # the loops are driven directly (one search resumed from threshold to threshold): another formulation, whose equivalence
                    # with "one fresh grdp run per threshold" is the prefix property itself - not read here
                    raise AnalysisError(f"{fi.qualname}: the result is assembled from the private loops (_grdp / _rdp_fixed) instead of one grdp / rdp_fixed call per "
                                        "threshold - shape not recognised")
                ok = False
                res.violation("G5", fi.module, fi.name, fi.node,
                              "a returned (reduced, removed) pair is neither one grdp(points, t=current_t) result nor rdp_fixed(points, min_points)",
                              _short(vc, 160), "the pair of one simplifier call", construct="returned pair")
    if seen_g:
        res.ok("G5", f"{fi.qualname}:accept", "the first global-RDP result with len(reduced) >= min_points is returned")
    elif ok:
        res.violation("G5", fi.module, fi.name, fi.node, "no global-RDP result is ever returned", "", "if len(reduced) >= min_points: return reduced, removed",
                      construct="threshold accept")
    if seen_f:
        res.ok("G5", f"{fi.qualname}:fallback", "rdp_fixed(points, min_points) when no threshold yields enough points")
    elif ok:
        res.violation("G5", fi.module, fi.name, fi.node, "the fallback is not rdp_fixed(points, min_points)", "no rdp_fixed result is returned",
                      "return rdp_fixed(points, min_points)", construct="fallback")
