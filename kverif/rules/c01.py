"""C01 -- curve simplification terminates with a well-formed reduction.

Decided structurally, for all inputs:
  R1   every range pushed on a work stack is a non-empty strict sub-range of the popped one
       (split index interval [1, L-2] from its defining expression; linear obligations);
  R1b  every range that can be on a stack has L >= 3 (push guards / seed guards / the
       accepting literal for <= 2 points under t > 0, t <= 1 for R2);
  R2   exactly one retained index per refinement step; seeds [0, n-1]; final n-1 in rdp();
  R3   ascending output (LIFO push order in rdp(); sort before return in the others);
  R4   removed-row arithmetic: [left, #points(segment) - 2], same linear form in rdp() and
       compute_removed_points();
  R5   every Distance member selects a callee that resolves, accepts (pt, pt[0], pt[-1]),
       returns one distance per point, and does not reach numpy.cross on 2-vectors.
With R1+R1b+R2 every iteration retains a distinct interior index => at most n-2 iterations.
"""

from __future__ import annotations

import ast

from .. import AnalysisError, anf, deps
from ..anf import Rat, sym
from ..guards import (G, TRUE, FALSE, g_and, g_not, g_or, g_equiv, g_implies, g_sat, compare, canon_sign, OPS, count_true)
from ..gvn import Frame, Obj, PW, Vec, cases_of, veq, mk_pw, Unsupported, lift
from ..intervals import single_atom
from . import rdp_model as rm
from .common import RuleCtx, _short, split_at_loop, range_args, stored_names, returned_names

C = Rat.const
METRICS = ["r2", "rmspe", "rmsle", "rpd", "smape"]
ORDERS = ["triangle", "area", "segment"]
SIMPLIFIERS = ["rdp", "rdp_fixed", "grdp", "mp_grdp"]


def run(ctx):
    rc = RuleCtx(ctx)
    res = ctx.result
    res.level = "other"
    for k, v in {"R1": "each pushed (A, B) satisfies A >= left, B <= right, 2 <= B - A <= L - 1 for every case of the split index (interval by idiom: argmax over d[1:-1] + 1, int(L/2))",
                 "R1b": "L >= 3 for every range that can be popped: push guards > 2 / >= 3, guarded seeds; in rdp() the <= 2-point literal is on the accepting side for t > 0 (t <= 1 for R2)",
                 "R2": "exactly one retained index per step (fixed/global: reduced.append(left + index); threshold: retain XOR split; one final append of n-1); seeds [0, n-1]",
                 "R3": "ascending output: rdp() pushes the right child first (LIFO => left first); _rdp_fixed sorts before returning; _grdp sorts after every insertion",
                 "R4": "removed row == [left, number of points in the segment - 2]; rdp() and compute_removed_points() agree as linear forms",
                 "R5": "Distance dispatch total; callees resolve, take 3 positionals, return one distance per input point, never reach numpy.cross (rejects 2-vectors on numpy >= 2)"}.items():
        res.rule(k, v)
    res.rule("R6", "the simplifiers and the distance / fit helpers they call perform no float-valued store or in-place float operation on an array that inherits "
                   "the dtype of an argument: an integer-typed curve is simplified like its float copy instead of raising or being truncated")
    from . import detectors as _d
    _d.dtype_guard(rc, "R6", ["rdp", "linear_fit"])
    models = {}
    # threshold RDP: once per metric (the accept/reject literal depends on it)
    for mname in METRICS:
        m = rm.build(rc, "rdp.rdp", {"cost": Obj("enum", f"Metrics.{mname}")})
        rm.threshold_profile(rc, m, "R1", "R1b")
        models[("rdp.rdp", mname)] = m
        _r1(rc, m, f"rdp.rdp[{mname}]", lemma_metric=mname)
        _r2_threshold(rc, m, mname)
    _r3_threshold(rc, models[("rdp.rdp", "smape")])
    for q in ("rdp._rdp_fixed", "rdp._grdp"):
        for oname in ORDERS:
            bind = {"order": Obj("enum", f"Order.{oname}")}
            if q.endswith("_grdp"):
                bind["cost"] = Obj("enum", "Metrics.smape")
            m = rm.build(rc, q, bind)
            models[(q, oname)] = m
            _r1(rc, m, f"{q}[{oname}]")
            _r1b_push_guards(rc, m, f"{q}[{oname}]")
            _r2_fixed(rc, m, f"{q}[{oname}]")
    _r3_sorted(rc, models[("rdp._rdp_fixed", "segment")], models[("rdp._grdp", "segment")])
    _seeds(rc)
    # the ordering scores are computed for every child that is pushed, two-point children included: a score that is not the stated
    # one may not even be defined there (a maximum over an empty interior raises and the simplifier returns nothing)
    from . import c05 as _c05
    res.rule("R8", "the ordering helpers called by the fixed / global loops are the stated scores of the two halves (defined for every child, two-point children included)")
    from .common import borrow as _borrow8
    _borrow8(rc, "R8", _c05._x6)
    _r4(rc, models[("rdp.rdp", "smape")])
    from .common import borrow as _borrow
    _borrow(rc, "R4", lambda rc_: rm.check_result_pairing(rc_, "R4"))        # every exit of the wrappers returns a table computed for the returned reduction
    _r5(rc)
    res.analysed["termination_argument"] = ("R1 + R1b: each child is a strict sub-range with an interior point; R2: each step of the fixed/global loops "
                                            "retains index left+index in [left+1, right-2], distinct from all earlier ones because ranges only shrink around retained "
                                            "indices => at most n-2 iterations; threshold RDP visits a binary tree of strictly nested ranges with at most n-1 leaves "
                                            "=> at most 2n-3 pops")
    res.assumptions += ["t > 0 (t <= 1 for R2), n >= 2, as in the property's quantifier", "the distance callee returns a vector (one value per row)",
                        "integer arithmetic on indices"]
    res.not_decided += ["numerical meaning of the eps guard", "behaviour for NaN/inf", "that d[0] is exactly 0 in floating point (not needed once R1 holds)"]
    from .common import hidden_state as _hidden_state
    _hidden_state(rc, "R7", ['rdp.rdp', 'rdp.rdp_fixed', 'rdp.grdp', 'rdp.mp_grdp', 'rdp.min_point_rdp'], "the simplifiers")
    res.require_instances("C01 obligations", len(res.obligations), 60)


def sec_distinct(rc: RuleCtx):
    """The part of C01 that makes a simplifier's output a strictly increasing, duplicate-free index list: every child
    range is a strict sub-range with an interior point (R1, R1b) and each step retains exactly one index of it (R2).
    Borrowed by properties that consume the reduced curve (C08: a repeated point breaks every later stage)."""
    # (once per metric: the literal that keeps a range of at most two points from being split depends on it - with the wrong
    # one the split takes the arg-max of an empty interior and the simplifier raises)
    for mname in METRICS:
        m = rm.build(rc, "rdp.rdp", {"cost": Obj("enum", f"Metrics.{mname}")})
        rm.threshold_profile(rc, m, "R1", "R1b")
        _r1(rc, m, f"rdp.rdp[{mname}]", lemma_metric=mname)
        _r2_threshold(rc, m, mname)
    for q in ("rdp._rdp_fixed", "rdp._grdp"):
        for oname in ORDERS:
            bind = {"order": Obj("enum", f"Order.{oname}")}
            if q.endswith("_grdp"):
                bind["cost"] = Obj("enum", "Metrics.smape")
            m = rm.build(rc, q, bind)
            _r1(rc, m, f"{q}[{oname}]")
            _r1b_push_guards(rc, m, f"{q}[{oname}]")
            _r2_fixed(rc, m, f"{q}[{oname}]")


# --------------------------------------------------------------------------
def _domain_facts(mname=None) -> G:
    t = sym("t")
    g = compare(">", t, C(0))
    if mname == "r2":
        g = g_and(g, compare("<=", t, C(1)))
    return g


def _r1(rc: RuleCtx, m: rm.LoopModel, tag: str, lemma_metric=None):
    res = rc.res
    L = m.L
    small = canon_sign(L.sub(C(2)), OPS["<="])
    if len(m.pushes) != 2:
        res.violation("R1", m.fi.module, m.fi.name, m.loop, f"expected two child pushes per split, found {len(m.pushes)}", str(len(m.pushes)), "2",
                      construct="number of pushes")
        return
    # R1b for the threshold loop: a push cannot happen on a <= 2-point range under the domain facts
    if lemma_metric is not None:
        dom = _domain_facts(lemma_metric)
        bad = [p for p in m.pushes if g_sat(g_and(p.guard, small, dom))]
        if bad:
            res.violation("R1b", m.fi.module, m.fi.name, bad[0].node,
                          f"[{lemma_metric}] a range with <= 2 points can be split: its cost literal is not on the accepting side of t for every t > 0"
                          + (" (t <= 1)" if lemma_metric == "r2" else ""),
                          _short(bad[0].guard, 200), "split only when len(pt) >= 3", construct=f"small range split {lemma_metric}")
        else:
            res.ok("R1b", tag, "a split requires L >= 3 (the literal for <= 2 points is on the accepting side for every valid t)")
    idx_cases = rm.index_cases(m)
    if not idx_cases:
        raise AnalysisError(f"{m.qual}: no split index found")
    for (gi, idx) in idx_cases:
        iv = rm.interval_of(m, idx)
        for p in m.pushes:
            cond = g_and(p.guard, gi)
            if not g_sat(cond):
                continue
            items = p.items[-2:]
            pairs = lift(lambda a, b: Vec([a, b]), items[0], items[1])
            for gc, ab in cases_of(pairs):
                if not g_sat(g_and(cond, gc)):
                    continue
                A, B = ab.items
                if not (isinstance(A, Rat) and isinstance(B, Rat)):
                    raise AnalysisError(f"{m.qual}: pushed bounds are not numeric")
                if iv is None and rm._position_atom(idx) is not None and any(a_.kind == "fn" and a_.name == "obj" for a_ in idx.all_atoms()):
                    # a position in a vector the evaluator could not follow (defined on some paths only): not read, not wrong
                    raise AnalysisError(f"{m.qual}: the split index is a position in a value that is not defined on every path to it ({_short(idx, 100)}) - shape not recognised")
                if iv is None:
                    res.violation("R1", m.fi.module, m.fi.name, p.node,
                                  "the split index has no recognised interior interval (not argmax over d[1:-1] + 1, not int(L/2))",
                                  _short(idx), "an index with interval [1, L-2]", construct=f"split index form push{p.order}")
                    continue
                obs = rm.range_obligations(m, A, B, idx, iv, 3)
                bad = [o for o in obs if not o[1]]
                if bad:
                    res.violation("R1", m.fi.module, m.fi.name, p.node,
                                  f"{tag}: pushed range ({_short(A, 60)}, {_short(B, 60)}) is not a strict non-empty sub-range of the popped one: "
                                  + "; ".join(o[2] for o in bad) + f" [index in [{iv.lo}, {iv.hi}]: {iv.why}]",
                                  f"index = {_short(idx, 100)}", "1 <= index <= L-2", construct=f"strict shrink push{p.order} {_idx_kind(idx)}")
                else:
                    res.ok("R1", f"{tag}:push{p.order}:{_idx_kind(idx)}", f"index in [{iv.lo}, {_short(iv.hi, 40)}] ({iv.why}) => " + "; ".join(o[0] for o in obs))
                    res.sample({"loop": tag, "push": p.order, "index": _short(idx, 120), "interval": [str(iv.lo), _short(iv.hi, 80)]})


def _idx_kind(idx: Rat) -> str:
    for a in idx.all_atoms():
        if a.kind == "fn" and a.name in ("argmax", "argmin", "int", "floor"):
            return "int" if a.name == "floor" else a.name
    return "other"


def _r1b_push_guards(rc: RuleCtx, m: rm.LoopModel, tag: str):
    res = rc.res
    for p in m.pushes:
        items = p.items[-2:]
        pairs = lift(lambda a, b: Vec([a, b]), items[0], items[1])
        ok = True
        for gc, ab in cases_of(pairs):
            cond = g_and(p.guard, gc)
            if not g_sat(cond):
                continue
            A, B = ab.items
            n = B.sub(A)
            if not (g_implies(cond, canon_sign(n.sub(C(2)), OPS[">"])) or g_implies(cond, canon_sign(n.sub(C(3)), OPS[">="]))):
                ok = False
                res.violation("R1b", m.fi.module, m.fi.name, p.node,
                              f"{tag}: a child range can be pushed without an interior point (its length is not guarded by > 2 / >= 3)",
                              _short(cond, 160), "guard implies B - A > 2", construct=f"push guard push{p.order}")
        if ok:
            res.ok("R1b", f"{tag}:push{p.order}", "pushed only if the child has an interior point (length > 2)")


def _r2_threshold(rc: RuleCtx, m: rm.LoopModel, mname: str):
    res = rc.res
    tag = f"rdp.rdp[{mname}]"
    gp = [p.guard for p in m.pushes]
    if len(gp) == 2 and not g_equiv(gp[0], gp[1]):
        res.violation("R2", m.fi.module, m.fi.name, m.loop, "the two children are not pushed under the same condition", construct="push guards differ")
        return
    split = gp[0] if gp else FALSE
    red = m.appends(m.retained) if m.retained else []
    rem = m.appends(m.removed) if m.removed else []
    lo, hi = count_true([split] + [e.guard for e in red])
    ok = (lo, hi) == (1, 1) and len(red) == 1 and len(rem) == 1 and g_equiv(red[0].guard, rem[0].guard)
    if ok and isinstance(red[0].args[0], Rat) and red[0].args[0].equals(m.left):
        res.ok("R2", tag, "each pop either splits or retains `left` (with its removed row), never both, never neither")
    else:
        res.violation("R2", m.fi.module, m.fi.name, m.loop,
                      "a popped range is not handled by exactly one of {split, retain left + removed row}",
                      f"split/retain count range [{lo},{hi}], retained {[_short(e.args[0], 40) for e in red]}", "exactly one; reduced.append(left)",
                      construct=f"retain xor split {mname}")


def _r3_threshold(rc: RuleCtx, m: rm.LoopModel):
    res = rc.res
    if len(m.pushes) != 2:
        return
    first, last = m.pushes[0], m.pushes[1]
    a_first, a_last = first.items[0], last.items[0]
    ok = isinstance(a_last, Rat) and a_last.equals(m.left)
    # the first-pushed child must start to the right of the last-pushed one
    cs_ = [(g, v) for g, v in cases_of(a_first) if g_sat(g_and(first.guard, g))]
    good_first = bool(cs_) and all(isinstance(v, Rat) and not v.equals(m.left) for _g, v in cs_)
    if ok and good_first:
        res.ok("R3", "rdp.rdp", "right child pushed first, left child last: LIFO processes the left part first => retained lefts ascend")
    else:
        res.violation("R3", m.fi.module, m.fi.name, last.node,
                      "the child that starts at `left` is not the last one pushed: with a LIFO stack the retained indices come out unordered (and nothing sorts them)",
                      f"last pushed starts at {_short(a_last, 60)}", "last pushed child starts at left", construct="push order")
    # final append of n-1, exactly once, after the loop
    fi = m.fi
    ev = m.ev
    fr = Frame(ev, fi, 0)
    env = dict(m.env_pre)
    if m.retained:
        env[m.retained] = Vec([], "list")
    if m.removed:
        env[m.removed] = Vec([], "list")
    fr.block(m.post, env, TRUE)
    apps = [e for e in fr.events if e.kind == "append" and e.target == m.retained]
    # by value: with the retained list empty at the end of the loop, the returned index array is exactly [n - 1]
    by_value = False
    if len(fr.returns) == 1 and fr.returns[0][0].kind == "true":
        rv_ = fr.returns[0][1]
        first_ = rv_.items[0] if isinstance(rv_, Vec) and rv_.items else None
        by_value = isinstance(first_, Vec) and first_.kind == "list" and len(first_.items) == 1 and isinstance(first_.items[0], Rat) \
            and first_.items[0].equals(sym("n") - C(1))
    if by_value or (len(apps) == 1 and apps[0].guard.kind == "true" and isinstance(apps[0].args[0], Rat) and apps[0].args[0].equals(sym("n") - C(1))):
        res.ok("R2", "rdp.rdp:last", "exactly one reduced.append(len(points) - 1) after the loop")
    else:
        res.violation("R2", fi.module, fi.name, fi.node, "the last index n-1 is not appended exactly once after the loop",
                      str([_short(e.args[0], 40) for e in apps]), "[len(points) - 1]", construct="final index")
    seed = m.env_pre.get(m.stack)
    if isinstance(seed, Vec) and len(seed.items) == 1 and isinstance(seed.items[0], Vec) and len(seed.items[0].items) == 2 \
            and seed.items[0].items[0].is_zero() and seed.items[0].items[1].equals(sym("n")):
        res.ok("R2", "rdp.rdp:seed", "work stack seeded with the whole curve (0, n)")
    else:
        res.violation("R2", fi.module, fi.name, fi.node, "the work stack is not seeded with the whole curve (0, len(points))", str(seed), "[(0, n)]", construct="seed")


def _r2_fixed(rc: RuleCtx, m: rm.LoopModel, tag: str):
    res = rc.res
    apps = m.appends(m.retained) if m.retained else []
    lo, hi = count_true([e.guard for e in apps])
    if (lo, hi) != (1, 1):
        res.violation("R2", m.fi.module, m.fi.name, m.loop, f"{tag}: the number of indices retained per iteration ranges over [{lo}, {hi}], not exactly 1",
                      str([str(e.guard) for e in apps]), "exactly one reduced.append per iteration", construct="retained per iteration")
        return
    ok = True
    for e in apps:
        for (gi, idx) in rm.index_cases(m):
            for g, v in cases_of(e.args[0]):
                if not g_sat(g_and(e.guard, gi, g)):
                    continue
                if not (isinstance(v, Rat) and v.equals(m.left.add(idx))):
                    ok = False
                    res.violation("R2", m.fi.module, m.fi.name, e.node, f"{tag}: the retained index is not left + index", _short(v), "left + index",
                                  construct="retained index value")
    if ok:
        res.ok("R2", tag, "exactly one reduced.append(left + index) per iteration")


def _r3_sorted(rc: RuleCtx, mf: rm.LoopModel, mg: rm.LoopModel):
    res = rc.res
    # _rdp_fixed: reduced.sort() on the way to the return
    fi = mf.fi
    fr = Frame(mf.ev, fi, 0)
    env = dict(mf.env_pre)
    fr.block(mf.post, env, TRUE)
    sorts = [e for e in fr.events if e.kind == "sort" and e.target == mf.retained and e.guard.kind == "true" and _ascending(e.node)]
    rn = returned_names(mf.post)
    if sorts and rn is not None and mf.retained in rn:
        res.ok("R3", "rdp._rdp_fixed", "reduced.sort() (ascending) on every path to the return")
    else:
        res.violation("R3", fi.module, fi.name, fi.node, "the retained indices are not sorted ascending before being returned",
                      str([ast.unparse(s) for s in mf.post]), "reduced.sort(); return reduced", construct="sort before return")
    # _grdp: sort after the insertion, before the cost evaluation; returns reduced
    evs = mg.events
    pos = {id(e): k for k, e in enumerate(evs)}
    app = [e for e in evs if e.kind == "append" and e.target == mg.retained]
    srt = [e for e in evs if e.kind == "sort" and e.target == mg.retained and _ascending(e.node)]
    cst = [e for e in evs if e.kind == "call" and e.target == "evaluation.compute_global_cost"]
    ok = bool(app and srt and cst) and all(pos[id(a)] < pos[id(s)] for a in app for s in srt[:1]) and all(pos[id(srt[0])] < pos[id(c)] for c in cst)
    if ok and srt[0].guard.kind == "true":
        res.ok("R3", "rdp._grdp", "reduced.sort() after every insertion and before the global cost is evaluated")
    else:
        res.violation("R3", mg.fi.module, mg.fi.name, mg.loop, "the retained set is not sorted after each insertion (before the cost evaluation / return)",
                      str([(e.kind, e.target) for e in evs if e.target in (mg.retained, "evaluation.compute_global_cost")]),
                      "append; sort; compute_global_cost", construct="sort after insertion")


def _ascending(call: ast.Call) -> bool:
    for kw in call.keywords:
        if kw.arg == "reverse" and not (isinstance(kw.value, ast.Constant) and kw.value.value is False):
            return False
        if kw.arg == "key":
            return False
    return True


def _seeds(rc: RuleCtx, only=None):
    """Seeds of the fixed / global variants: reduced == [0, n-1]; stack == [(c, 0, n)] exactly if n > 2."""
    res = rc.res
    for name, callee in (("rdp_fixed", "rdp._rdp_fixed"), ("grdp", "rdp._grdp"), ("mp_grdp", "rdp._grdp")):
        if only is not None and name not in only:
            continue
        fi = rc.func(f"rdp.{name}")
        ev = rc.new_eval()
        pts = ev.point("points", True)
        ev.len_map = {"points": sym("n")}
        env = {"points": pts}
        for p in fi.signature.positional:
            if p != "points":
                env[p] = ev.symbol(p)
        out = ev.eval_function(fi, env)
        calls = [e for e in out.events if e.kind == "call" and e.target == callee]
        if not calls:
            raise AnalysisError(f"rdp.{name}: call of {callee} not found")
        cfi = rc.func(callee)
        pos = cfi.signature.positional
        amap = dict(zip(pos, calls[0].args))
        n = sym("n")
        anf.declare_integer(n)          # a length: `n - 1 >= 2` and `n > 2` are the same fact
        red, stk = amap.get("reduced"), amap.get("stack")
        if isinstance(red, Vec) and len(red.items) == 2 and red.items[0].is_zero() and red.items[1].equals(n - C(1)):
            res.ok("R2", f"rdp.{name}:seed", "retained set seeded with [0, n-1]")
        else:
            res.violation("R2", fi.module, fi.name, fi.node, "the retained set is not seeded with both end points [0, len(points)-1]", str(red), "[0, n-1]",
                          construct="seed reduced")
        ok = True
        any_seed = False
        # a list with one conditional element (<e if c>) is the same as {c -> [e]; not c -> []}
        from ..seqdom import Gen as _Gen
        stk_cases = []
        for g, v in cases_of(stk):
            if isinstance(v, Vec) and len(v.items) == 1 and isinstance(v.items[0], _Gen) and not v.items[0].ranged and len(v.items[0].parts) == 1 \
                    and not v.items[0].parts[0][2]:
                gc_, e_, _sp = v.items[0].parts[0]
                stk_cases += [(g_and(g, gc_), Vec([e_], "list")), (g_and(g, g_not(gc_)), Vec([], "list"))]
            else:
                stk_cases.append((g, v))
        for g, v in stk_cases:
            if not isinstance(v, Vec):
                ok = False
                continue
            if len(v.items) == 0:
                continue
            any_seed = True
            if len(v.items) != 1 or not isinstance(v.items[0], Vec) or len(v.items[0].items) != 3:
                ok = False
                continue
            _c, a, b = v.items[0].items
            if not (a.is_zero() and b.equals(n)):
                ok = False
            if not (g_implies(g, canon_sign(n - C(2), OPS[">"])) or g_implies(g, canon_sign(n - C(3), OPS[">="]))):
                ok = False
                res.violation("R1b", fi.module, fi.name, fi.node,
                              "the whole curve is pushed on the work stack without checking that it has an interior point (a 2-point curve would be split)",
                              f"seed under {g}", "seed only if len(points) > 2", construct="seed guard")
        if ok and any_seed:
            res.ok("R1b", f"rdp.{name}:seed", "work stack seeded with (cost, 0, n) only if n > 2")
            # ... and whenever n > 2: a curve with an interior point must be open to refinement
            seeded = g_or(*[g for g, v in stk_cases if isinstance(v, Vec) and len(v.items) == 1])
            if g_implies(canon_sign(n - C(2), OPS[">"]), seeded):
                res.ok("R2", f"rdp.{name}:seed-coverage", "every curve with an interior point (n > 2) starts with the whole curve on the work stack")
            else:
                res.violation("R2", fi.module, fi.name, fi.node,
                              "a curve with an interior point can start with an empty work stack: it is returned as its two end points whatever length / threshold is asked for",
                              f"seeded when {_short(seeded, 120)}", "seeded whenever len(points) > 2", construct="seed coverage")
        elif ok:
            res.violation("R2", fi.module, fi.name, fi.node, "the work stack is never seeded", str(stk), "[(0, 0, n)] if n > 2", construct="seed stack")
        elif not any(f.rule == "R1b" and f.function == fi.name for f in res.findings):
            res.violation("R2", fi.module, fi.name, fi.node, "the work stack seed is not the whole curve (cost, 0, len(points))", str(stk), "[(0, 0, n)]",
                          construct="seed stack")


def _r4(rc: RuleCtx, m: rm.LoopModel):
    res = rc.res
    rem = m.appends(m.removed) if m.removed else []
    L = m.L
    ok = False
    if len(rem) == 1 and isinstance(rem[0].args[0], Vec) and len(rem[0].args[0].items) == 2:
        a, b = rem[0].args[0].items
        if isinstance(a, Rat) and isinstance(b, Rat) and a.equals(m.left) and b.equals(L - C(2)):
            ok = True
    if ok:
        res.ok("R4", "rdp.rdp", "removed row == [left, (right - left) - 2] for the right-exclusive range")
    else:
        res.violation("R4", m.fi.module, m.fi.name, m.loop, "the removed row is not [left, number of points of the segment - 2]",
                      str([str(e.args[0]) for e in rem]), "[left, len(pt) - 2]", construct="removed row rdp")
    # compute_removed_points: evaluated whole on the sequence domain; the table is one row per consecutive retained pair
    from ..seqdom import mk_gen, var_symbol, seq_equiv, flatten
    fi = rc.func("rdp.compute_removed_points")
    ev = rc.new_eval()
    ev.summarise_loops = True
    pts = ev.point("points", True)
    red = ev.symbol("reduced", True)
    ev.len_map = {"points": sym("n"), "reduced": sym("R")}
    try:
        out = ev.eval_function(fi, {"points": pts, "reduced": red})
    except Unsupported as e:
        raise AnalysisError(f"rdp.compute_removed_points: not modelled: {e}")
    val = out.value()
    if isinstance(val, PW):
        # an early exit with an empty table for a reduction without any segment (fewer than two retained points) is the same table:
        # the row block is empty there
        rest = []
        for g_, v_ in val.cases:
            empty_ = (isinstance(v_, Vec) and not v_.items) or (isinstance(v_, Rat) and single_atom(v_) is not None and single_atom(v_).name in ("np.array", "np.empty")
                                                                 and (not single_atom(v_).args or single_atom(v_).args[0].is_zero()))
            if empty_ and (g_implies(g_, canon_sign(sym("R") - C(1), OPS["<="])) or g_implies(g_, canon_sign(sym("R") - C(2), OPS["<"]))):        # (R is an integer)
                continue
            rest.append((g_, v_))
        if len(rest) == 1:
            val = rest[0][1]
    if not (isinstance(val, Vec) and val.kind == "list"):
        raise AnalysisError(f"rdp.compute_removed_points: the table is not a summarised sequence ({_short(val, 80)}; {ev.summary_log[-1:]}) - shape not recognised")
    at = lambda x, i: anf.opaque("at", x, i, array=False)  # noqa: E731
    j = var_symbol(0)
    want = Vec(flatten([mk_gen(0, C(0), sym("R") - C(1), C(1), [(TRUE, Vec([at(red, j), at(red, j + C(1)) - at(red, j) - C(1)], "list"), False)])]), "list")
    got = Vec(flatten(val.items), "list")

    def _rows_as_lists(v):
        return v
    ok2 = seq_equiv(got, want)
    if not ok2 and len(got.items) == 1:
        # rows may be tuples or lists: compare component-wise
        from ..seqdom import Gen
        g0, w0 = got.items[0], want.items[0]
        if isinstance(g0, Gen) and g0.ranged and g0.lo.equals(w0.lo) and g0.hi.equals(w0.hi) and g0.step.equals(w0.step) and len(g0.parts) == 1 \
                and (g0.parts[0][0].kind == "true" or g_implies(canon_sign(g0.hi - g0.lo - C(1), OPS[">="]), g0.parts[0][0])) \
                and not g0.parts[0][2] and isinstance(g0.parts[0][1], Vec) and len(g0.parts[0][1].items) == 2:
            # (a condition that holds whenever the block has an iteration at all - `if len(reduced) >= 2` around the loop - conditions nothing)
            ok2 = all(isinstance(p_, Rat) and p_.equals(q_) for p_, q_ in zip(g0.parts[0][1].items, w0.parts[0][1].items))
    if ok2:
        res.ok("R4", "rdp.compute_removed_points", "one row [left, next - left - 1] per consecutive retained pair")
        # agreement with rdp(): right_exclusive = next + 1  =>  (right_e - left) - 2 == next - left - 1
        res.ok("R4", "rdp.rdp~compute_removed_points", "both tables use the linear form next_retained - left - 1")
        return
    res.violation("R4", fi.module, fi.name, fi.node, "compute_removed_points does not emit one row [left, next - left - 1] per consecutive retained pair",
                  _short(got, 300), "[reduced[j], reduced[j+1] - reduced[j] - 1] for j = 0..len(reduced)-2", construct="removed row crp")


def _r5(rc: RuleCtx):
    res = rc.res
    np = deps.import_dep("numpy")
    rejects = tuple(int(x) for x in np.__version__.split(".")[:2]) >= (2, 0)
    members = rc.repo.mod("rdp").classes.get("Distance")
    if members is None:
        raise AnalysisError("rdp.Distance not found")
    callees = set()
    for name in SIMPLIFIERS:
        fi = rc.func(f"rdp.{name}")
        for member in members.enum_members:
            ev = rc.new_eval()
            pts = ev.point("points", True)
            ev.len_map = {"points": sym("n")}
            env = {"points": pts, "distance": Obj("enum", f"Distance.{member}")}
            for p in fi.signature.positional:
                env.setdefault(p, ev.symbol(p))
            fr = Frame(ev, fi, 0)
            pre = []
            for st in fi.node.body:
                if isinstance(st, (ast.While, ast.Return)):
                    break
                pre.append(st)
            fr.block([st for st in pre if not (isinstance(st, ast.Assign) and isinstance(st.value, ast.Call)
                                               and ast.unparse(st.value.func) in ("_rdp_fixed", "_grdp"))], env, TRUE)
            cands = [v for k_, v in env.items() if isinstance(v, Obj) and v.tag == "func" and str(v.val).startswith("linear_fit.")]
            dp = cands[0] if len(cands) == 1 else None
            if isinstance(dp, Obj) and dp.tag == "func":
                callees.add(dp.val)
                res.ok("R5", f"rdp.{name}[Distance.{member}]", f"selects {dp.val}")
            else:
                res.violation("R5", fi.module, fi.name, fi.node, f"Distance.{member} does not select a distance function", str(dp),
                              "a function of linear_fit", construct=f"distance dispatch {member}")
    for q in sorted(callees):
        cfi = rc.func(q)
        msg = cfi.signature.check_call(3, [])
        if msg:
            res.violation("R5", cfi.module, cfi.name, cfi.node, f"{q} cannot be called as distance_points(pt, pt[0], pt[-1]): {msg}", construct="distance arity")
            continue
        # shape: one distance per row of the first argument
        ev = rc.new_eval()
        pos = cfi.signature.positional
        p0 = ev.point(pos[0], True)
        ev.len_map = {pos[0]: sym("N")}
        env = {pos[0]: p0, pos[1]: ev.point(pos[1]), pos[2]: ev.point(pos[2])}
        out = ev.eval_function(cfi, env)
        ok = True
        for g, v in cases_of(out.value()):
            if not (isinstance(v, Rat) and v.is_array() and ev.length_of(v).equals(sym("N"))):
                ok = False
        if ok:
            res.ok("R5", f"{q}:shape", "element-wise in its first argument: one distance per input point")
        else:
            res.violation("R5", cfi.module, cfi.name, cfi.node, f"{q} does not return one distance per input point", _short(out.value()),
                          "an element-wise expression of the rows of the first argument", construct="distance shape")
        # dependency rejection
        todo, seen = [q], set()
        n_cross = 0
        while todo:
            cur = todo.pop()
            if cur in seen:
                continue
            seen.add(cur)
            f2 = rc.func(cur)
            for call in [c for c in ast.walk(f2.node) if isinstance(c, ast.Call)]:
                r = rc.lk.resolve(f2.module, call.func)
                if r.kind == "func":
                    todo.append(r.obj.qualname)
                elif r.kind == "dep" and r.obj is getattr(np, "cross", None):
                    n_cross += 1
                    if rejects:
                        res.violation("R5", f2.module, f2.name, call,
                                      f"reachable from distance callee {q}: numpy.cross on 2-component points raises ValueError in the installed numpy {np.__version__}, so this Distance choice never returns",
                                      "np.cross(...)", "a 2-D cross product the dependency accepts", construct="np.cross on 2-vectors")
        if n_cross == 0:
            res.ok("R5", f"{q}:link", f"no numpy.cross reachable ({len(seen)} functions; numpy {np.__version__})")
