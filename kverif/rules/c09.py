"""C09 -- each single-knee detector returns the interior optimum of its stated criterion.

K1  curvature: argmax over interior points of |csd| / (1 + cfd^2)^(3/2), + 1.
K2  DFDT: argmin over interior points of |g - isodata(g)|, + 1; refinement on g[cutoff:] with
    the cutoff re-added, cutoff == ceil(knee / 2).
K3  Menger: menger_curvature of the triples {i-1, i, i+1}, i = 1..n-2, zero padding, argmax.
K4  L-method: candidates 2..n-3; length-weighted two-line error (rss / rmse, endpoint /
    least-squares lines, shared split point); minimisation; `fit` forwarded.
K5  loop variants: DFDT strict progress (proved); L-method visited-state idiom.
"""

from . import detectors as d
from .common import RuleCtx


def run(ctx):
    rc = RuleCtx(ctx)
    res = ctx.result
    res.level = "other"
    for k, v in {"K1": "curvature criterion and interior argmax", "K2": "DFDT step criterion and refinement recurrence",
                 "K3": "Menger criterion: consecutive triples, zero padding, argmax", "K4": "L-method: candidates, error definition per Fit x Cost, minimisation, fit forwarded",
                 "K5": "every refinement loop has a recognised variant (strict progress / visited state)",
                 "K-range": "every detector returns an index in [0, n-2] (interior for all but Menger)"}.items():
        res.rule(k, v)
    res.rule("K-dtype", "no detector stores a float into an array that inherits the input's dtype (integer curves would be truncated before the optimum is taken)")
    d.dtype_guard(rc, "K-dtype", ["curvature", "dfdt", "menger", "lmethod"])
    d.curvature(rc, "K-range", "K1")
    d.dfdt(rc, "K-range", "K2", "K5")
    d.menger(rc, "K-range", "K3")
    from . import c17
    from .common import borrow
    borrow(rc, "K3", c17._sec_menger)                            # the criterion itself: menger_curvature is the Menger curvature
    d.lmethod(rc, "K-range", "K4", "K5")
    res.assumptions += ["uts.gradient.cfd / csd return one value per sample; uts.thresholding.isodata returns a scalar (dependency contracts)",
                        "n >= 3 (n >= 5 for the L-method)"]
    res.not_decided += ["optimality over competing indices as a numerical fact (it follows from argmax/argmin once the criterion is the stated one)",
                        "ISODATA convergence inside the dependency"]
    from .common import hidden_state as _hidden_state
    _hidden_state(rc, "K6", ['curvature.knee', 'dfdt.knee', 'menger.knee', 'lmethod.knee', 'kneedle.knee'], "the single-knee detectors")
    res.require_instances("C09 obligations", len(res.obligations), 14)
