"""C14 -- even-point insertion returns the documented candidates, height-filtered.

A1  candidate test: normalised width > 2*tx and normalised height > ty (full x / y ranges).
A2  ceil(w / (2*tx)) points per candidate, stride int((right - left) / k), starting from left.
A3  extremes are [0, n-1] in both variants (every index that reaches filter_worst_knees is valid).
A4  union -> astype(int) -> unique -> filter_worst_knees on every path.
A5  knees (and candidates) pass through rdp.mapping(., reduced, removed) before the union.
A6  knees-as-markers variant: gaps (0, k_0), (k_{j-1}, k_j), (k_last, n-1).

The two functions are evaluated as a whole with exact loop summaries (kverif.seqdom): the list of inserted points is
a symbolic sequence (nested generator blocks with canonical loop variables), so the facts are read off the *value*
that reaches filter_worst_knees and do not depend on how the loops, temporaries and helpers are arranged.
"""

from __future__ import annotations

import ast
import itertools

from .. import AnalysisError, anf
from ..anf import Rat, sym
from ..guards import (G, TRUE, FALSE, g_and, g_not, g_or, g_equiv, g_implies, g_sat, compare, canon_sign, OPS)
from ..gvn import Frame, Obj, PW, Vec, cases_of, veq, mk_pw, Unsupported
from ..intervals import single_atom
from ..seqdom import Gen, flatten, seq_equiv, var_symbol, mk_gen, unit_step
from .common import section, RuleCtx, _short

C = Rat.const


def _at(x, i):
    return anf.opaque("at", x, i, array=False)


def _ranges(pts):
    px, py = pts.items
    dx = anf.f_abs(anf.opaque("amax", px, array=False) - anf.opaque("amin", px, array=False))
    dy = anf.f_abs(anf.opaque("amax", py, array=False) - anf.opaque("amin", py, array=False))
    return dx, dy


def _cand_guard(pts, l, r, tx, ty, px=None, py=None):
    """normalised |x_r - x_l| > 2*tx and normalised |y_r - y_l| > ty"""
    dx, dy = _ranges(pts)
    px = pts.items[0] if px is None else px
    py = pts.items[1] if py is None else py
    pdx = anf.f_abs(_at(px, r) - _at(px, l)) / dx
    pdy = anf.f_abs(_at(py, r) - _at(py, l)) / dy
    return g_and(canon_sign(pdx - C(2) * tx, OPS[">"]), canon_sign(pdy - ty, OPS[">"]))


def _inner(depth: int, pts, tx, l: Rat, r: Rat, guard: G = TRUE) -> Gen:
    """The points inserted into one candidate segment (l, r): l + j*int((r-l)/k), j = 1..k, k = ceil(w/(2*tx))."""
    dx, _dy = _ranges(pts)
    pdx = anf.f_abs(_at(pts.items[0], r) - _at(pts.items[0], l)) / dx
    k = anf.opaque("ceil", pdx / (C(2) * tx), array=False)
    inc = anf.opaque("int", (r - l) / k, array=False)
    j = var_symbol(depth)
    return mk_gen(depth, C(0), k, C(1), [(guard, l + inc * (j + C(1)), False)])


def _index_pool(g: G, px: Rat) -> list:
    """Index expressions I such that at(px, I) occurs in the guard: the endpoints a candidate test looks at."""
    pool = {}

    def walk(x: G):
        if x.kind == "sign":
            for a in x.a.all_atoms():
                if a.kind == "fn" and a.name == "at" and a.args[0].equals(px):
                    pool[a.args[1].key] = a.args[1]
        elif x.kind == "not":
            walk(x.a)
        elif x.kind in ("and", "or"):
            for y in x.a:
                walk(y)
    walk(g)
    out = []
    for I in pool.values():
        c = I.is_const()
        out.append(sym("n") + C(c) if (c is not None and c < 0) else I)       # positions counted from the end: the index itself is n - k
    return out


def _segments_of(items, what: str):
    """Decompose the inserted-point sequence into per-segment blocks: (outer range or None, guard, inner Gen)."""
    out = []
    for it in items:
        if not (isinstance(it, Gen) and it.ranged):
            raise AnalysisError(f"{what}: an inserted-point block is not a summarised loop - shape not recognised ({_short(it, 80)})")
        if len(it.parts) == 1 and it.parts[0][2] and isinstance(it.parts[0][1], Vec) and len(it.parts[0][1].items) == 1 \
                and isinstance(it.parts[0][1].items[0], Gen) and it.parts[0][1].items[0].ranged:
            inner = unit_step(it.parts[0][1].items[0])
            if len(inner.parts) != 1 or inner.parts[0][2]:
                raise AnalysisError(f"{what}: inner insertion loop emits {len(inner.parts)} values per step - shape not recognised")
            out.append(((it.lo, it.hi, it.step), g_and(it.parts[0][0], inner.parts[0][0]), inner))
        elif len(it.parts) == 1 and not it.parts[0][2]:
            out.append((None, it.parts[0][0], it))
        else:
            raise AnalysisError(f"{what}: inserted-point block with {len(it.parts)} parts - shape not recognised")
    return out


def _judge_segment(rc: RuleCtx, fi, tag: str, pts, tx, ty, guard: G, inner: Gen, depth: int, l: Rat, r: Rat, px=None, py=None, gap_rule="A6") -> bool:
    """One block against the expected candidate (l, r): A1 guard, A2 count/stride; wrong endpoints -> gap_rule."""
    res = rc.res
    want_g = _cand_guard(pts, l, r, tx, ty)
    want_inner = _inner(depth, pts, tx, l, r)
    found_inner = Gen(inner.depth, inner.lo, inner.hi, inner.step, [(TRUE, inner.parts[0][1], False)])
    g_ok = g_equiv(guard, want_g)
    i_ok = seq_equiv(found_inner, want_inner)
    if g_ok and i_ok:
        return True
    # consistent with another pair of endpoints?  then the segment itself is wrong, not the test / the insertion
    pool = _index_pool(guard, pts.items[0])
    for a, b in itertools.permutations(pool, 2):
        if (a.equals(l) and b.equals(r)):
            continue
        if g_equiv(guard, _cand_guard(pts, a, b, tx, ty)) and seq_equiv(found_inner, _inner(depth, pts, tx, a, b)):
            res.violation(gap_rule, fi.module, fi.name, fi.node, f"{tag}: the examined segment is ({_short(a, 40)}, {_short(b, 40)}) instead of ({_short(l, 40)}, {_short(r, 40)})",
                          f"({_short(a, 60)}, {_short(b, 60)})", f"({_short(l, 60)}, {_short(r, 60)})", construct=f"segment {tag}")
            return False
    if not g_ok:
        res.violation("A1", fi.module, fi.name, fi.node,
                      f"{tag}: points are inserted under a test that is not 'normalised width > 2*tx and normalised height > ty' of the segment ({_short(l, 30)}, {_short(r, 30)})",
                      _short(guard, 300), _short(want_g, 300), construct=f"candidate test {tag}")
    if not i_ok:
        cnt_ok = inner.lo.is_zero() and inner.hi.equals(want_inner.hi) and inner.step.is_const() == 1
        if not cnt_ok:
            res.violation("A2", fi.module, fi.name, fi.node, f"{tag}: the number of inserted points is not ceil(w / (2*tx)) with w the normalised width of the segment",
                          f"{inner.var} in [{_short(inner.lo, 40)}, {_short(inner.hi, 160)})", _short(want_inner.hi, 160), construct=f"point count {tag}")
        else:
            res.violation("A2", fi.module, fi.name, fi.node, f"{tag}: the inserted points are not left + j * int((right - left) / k), j = 1..k",
                          _short(inner.parts[0][1], 200), _short(want_inner.parts[0][1], 200), construct=f"stride {tag}")
    return False


def _has_int_conversion(rc: RuleCtx, fi) -> bool:
    """`.astype(int)` (or dtype=int) on the path to the result: in the function or in a package helper it calls."""
    seen, todo = set(), [fi]
    while todo:
        f = todo.pop()
        if f.qualname in seen or len(seen) > 12:
            continue
        seen.add(f.qualname)
        for c in ast.walk(f.node):
            if isinstance(c, ast.Call):
                if isinstance(c.func, ast.Attribute) and c.func.attr == "astype" and c.args and ast.unparse(c.args[0]) in ("int", "np.int64", "np.intp", "numpy.int64"):
                    return True
                if any(kw.arg == "dtype" and ast.unparse(kw.value) in ("int", "np.int64", "np.intp") for kw in c.keywords):
                    return True
                r = rc.lk.resolve(f.module, c.func)
                if r.kind == "func" and r.obj.module is f.module and r.obj.name.startswith("_"):
                    todo.append(r.obj)
    return False


def _union(rc: RuleCtx, fi, ev, val, env, label: str, tag: str, mapped_knees: bool, flag) -> Vec:
    """A3 / A4 / A5(knees) on the returned value; returns the list value of the inserted points."""
    res = rc.res
    pts = env["points"]
    n = sym("n")
    if isinstance(val, PW):
        # several exits: every one of them has to be the filtered union (A3 / A4 / A5 hold on every path)
        new = None
        for g_, v_ in val.cases:
            if not g_sat(g_):
                continue
            r_ = _union(rc, fi, ev, v_, env, f"{label}, exit under {_short(g_, 60)}", tag, mapped_knees, flag)
            new = new if new is not None else r_
        return new
    if not isinstance(val, Rat):
        raise AnalysisError(f"{fi.qualname}: expected a single return value")
    a = single_atom(val)
    if a is None or a.name != "call:postprocessing.filter_worst_knees":
        res.violation("A4", fi.module, fi.name, fi.node, f"[{label}] the result is not passed through filter_worst_knees", _short(val, 160),
                      "return filter_worst_knees(points, knees_idx)", construct=f"final filter {tag}")
        return None
    amap = dict(zip(a.extra or (), a.args))
    K = amap.get("knees")
    if not amap.get("points", C(0)).equals(ev.to_rat(pts)) or K is None:
        res.violation("A4", fi.module, fi.name, fi.node, f"[{label}] filter_worst_knees is not applied to (points, candidate indices)", _short(val, 160),
                      "filter_worst_knees(points, knees_idx)", construct=f"final filter args {tag}")
        return None
    ka = single_atom(K)
    if ka is None or ka.name != "np.unique":
        res.violation("A4", fi.module, fi.name, fi.node, f"[{label}] the candidate indices are not de-duplicated / sorted with np.unique before the filter",
                      _short(K, 160), "np.unique(knees_idx.astype(int))", construct=f"unique {tag}")
        return None
    inner = single_atom(ka.args[0])
    if inner is None or inner.name != "np.concatenate":
        res.violation("A4", fi.module, fi.name, fi.node, f"[{label}] the candidate set is not the concatenation of knees, inserted points (and extremes)",
                      _short(ka.args[0], 160), "np.concatenate((knees, new_knees[, extremes]))", construct=f"union {tag}")
        return None
    vec = single_atom(inner.args[0])
    parts = list(vec.args) if vec is not None and vec.name == "vec" else []
    if not _has_int_conversion(rc, fi):
        res.violation("A4", fi.module, fi.name, fi.node, "the union is not converted to integers (np.concatenate yields floats when a part is empty)", "",
                      "knees_idx.astype(int)", construct=f"astype {tag}")
    want_parts = 3 if flag is TRUE else 2
    if flag is TRUE and len(parts) == 2:
        # the extremes may have been appended to the list of inserted points instead of being a third part of the union:
        # the trailing plain items of that list are the extremes, the summarised blocks in front of them the inserted points
        na_ = single_atom(parts[1])
        lst_ = ev.vec_registry.get(na_.skey) if na_ is not None and na_.name == "vec" else None
        if isinstance(lst_, Vec):
            k_ = len(lst_.items)
            while k_ > 0 and isinstance(lst_.items[k_ - 1], Rat) and not lst_.items[k_ - 1].is_array():
                k_ -= 1
            if 0 < len(lst_.items) - k_ and all(not isinstance(i_, Rat) for i_ in lst_.items[:k_]):
                head_, tail_ = Vec(list(lst_.items[:k_]), "list"), Vec(list(lst_.items[k_:]), "list")
                rh_, rt_ = ev.to_rat(head_), ev.to_rat(tail_)
                parts = [parts[0], rh_, rt_]
    ok = len(parts) == want_parts
    new = None
    if ok:
        k0 = parts[0]
        if mapped_knees:
            ma = single_atom(k0)
            ok_map = ma is not None and ma.name == "call:rdp.mapping"
            if ok_map:
                mm = dict(zip(ma.extra or (), ma.args))
                ok_map = mm.get("indexes", C(0)).equals(env["knees"]) and mm.get("reduced", C(0)).equals(env["reduced"]) and \
                    mm.get("removed", C(0)).equals(ev.to_rat(env["removed"]))
            if ok_map:
                res.ok("A5", f"{tag}[{label}]", "knees enter the union as rdp.mapping(knees, reduced, removed)")
            else:
                res.violation("A5", fi.module, fi.name, fi.node, f"[{label}] the knees are not mapped from reduced space to the original curve before the union",
                              _short(k0, 160), "rdp.mapping(knees, reduced, removed)", construct=f"knees mapped {tag}")
        elif not k0.equals(env["knees"]):
            ok = False
        if flag is TRUE:
            ex = single_atom(parts[2])
            want_ex = [C(0), n - C(1)]
            ex_ok = ex is not None and ex.name == "vec" and len(ex.args) == 2 and all(p.equals(q) for p, q in zip(ex.args, want_ex))
            if ex_ok:
                res.ok("A3", f"{tag}", "extremes == [0, len(points) - 1]")
            else:
                res.violation("A3", fi.module, fi.name, fi.node,
                              "the extremes added to the output are not the first and last valid indices [0, len(points)-1] (an out-of-range index reaches filter_worst_knees: IndexError)",
                              _short(parts[2], 100), "[0, len(points) - 1]", construct=f"extremes {tag}")
        na = single_atom(parts[1])
        if na is not None and na.name == "vec":
            new = ev.vec_registry.get(na.skey)
        if new is None:
            raise AnalysisError(f"{fi.qualname}: the inserted points are not a summarised sequence ({_short(parts[1], 80)}; {ev.summary_log[-1:]}) - shape not recognised")
    if ok:
        res.ok("A4", f"{tag}[{label}]", "concatenate -> astype(int) -> unique -> filter_worst_knees")
    else:
        res.violation("A4", fi.module, fi.name, fi.node, f"[{label}] the union does not consist of the knees, the inserted points" + (" and the extremes" if flag is TRUE else ""),
                      str([_short(p, 60) for p in parts]), "knees, new_knees" + (", extremes" if flag is TRUE else ""), construct=f"union parts {tag}")
    return new


def run(ctx):
    rc = RuleCtx(ctx)
    res = ctx.result
    res.level = "other"
    for k, v in {"A1": "candidate iff |x_r - x_l| / |max x - min x| > 2*tx and |y_r - y_l| / |max y - min y| > ty",
                 "A2": "k = ceil(w/(2*tx)) points: idx = left + j*int((right-left)/k), j = 1..k",
                 "A3": "extremes == [0, len(points)-1]", "A4": "concatenate -> astype(int) -> unique -> filter_worst_knees on every path",
                 "A5": "knees and candidates are mapped with rdp.mapping(., reduced, removed) first",
                 "A6": "markers variant: gaps (0, k_0), (k_{j-1}, k_j), (k_last, n-1)"}.items():
        res.rule(k, v)
    section(rc, _even)
    section(rc, _even_knees)
    # the two opaque stages of the result: the final height filter and the reduced -> original index mapping
    from . import c13, c07
    from .common import borrow
    borrow(rc, "A4", c13._worst)
    borrow(rc, "A5", c07.mapping_contract)
    res.assumptions += ["curve with non-constant x and y (ranges > 0)", "knees / reduced ascending valid indices",
                        "summarised loops run a non-negative number of iterations"]
    res.not_decided += ["validity of idx = left + j*inc follows arithmetically from A2 (j*inc <= right-left) and is recorded, not separately decided",
                        "numerical width / height tests"]
    from .common import hidden_state as _hidden_state
    _hidden_state(rc, "A7", ['postprocessing.add_points_even', 'postprocessing.add_points_even_knees'], "even-point insertion")
    res.require_instances("C14 obligations", len(res.obligations), 14)


def _eval(rc: RuleCtx, qual: str, with_reduced: bool, flag):
    fi = rc.func(qual)
    ev = rc.new_eval()
    ev.summarise_loops = True
    ev.no_inline |= {"postprocessing.filter_worst_knees", "rdp.mapping"}
    pts = ev.point("points", True)
    knees = ev.symbol("knees", True)
    ev.len_map = {"points": sym("n"), "knees": sym("K")}
    env = {"points": pts, "knees": knees, "tx": ev.symbol("tx"), "ty": ev.symbol("ty"), "extremes": flag}
    if with_reduced:
        env["reduced"] = ev.symbol("reduced", True)
        env["removed"] = ev.point("removed", True)
        ev.len_map.update({"reduced": sym("R"), "removed": sym("M")})
    try:
        out = ev.eval_function(fi, dict(env))
    except Unsupported as e:
        raise AnalysisError(f"{qual}: not modelled: {e}")
    return fi, ev, env, out.value()


def _even(rc: RuleCtx):
    res = rc.res
    for flag, label in ((TRUE, "extremes=True"), (FALSE, "extremes=False")):
        fi, ev, env, val = _eval(rc, "postprocessing.add_points_even", True, flag)
        new = _union(rc, fi, ev, val, env, label, "add_points_even", True, flag)
        if new is None or flag is FALSE:
            continue
        pts, tx, ty, reduced = env["points"], env["tx"], env["ty"], env["reduced"]
        items = flatten(new.items)
        segs = _segments_of(items, fi.qualname)
        if len(segs) != 1 or segs[0][0] is None:
            raise AnalysisError(f"{fi.qualname}: expected one loop over the mapped candidates, found {len(segs)} block(s) - shape not recognised")
        (lo, hi, step), guard, inner = segs[0]
        # the mapped candidates: the rdp.mapping atom the inserted points are computed from
        maps = {}
        for a in inner.parts[0][1].all_atoms():
            if a.kind == "fn" and a.name == "call:rdp.mapping":
                maps[a.skey] = a
        if len(maps) != 1:
            res.violation("A5", fi.module, fi.name, fi.node, "the candidate positions (reduced space) are not mapped to the original curve before points are inserted",
                          _short(inner.parts[0][1], 160), "rdp.mapping(candidates, reduced, removed)", construct="candidates mapped")
            continue
        ma = next(iter(maps.values()))
        cmap = Rat.from_atom(ma)
        mm = dict(zip(ma.extra or (), ma.args))
        ca = single_atom(mm.get("indexes", C(0)))
        cands = ev.vec_registry.get(ca.skey) if ca is not None and ca.name == "vec" else None
        if not (mm.get("reduced", C(0)).equals(reduced) and mm.get("removed", C(0)).equals(ev.to_rat(env["removed"])) and cands is not None):
            res.violation("A5", fi.module, fi.name, fi.node, "the candidate positions (reduced space) are not mapped to the original curve before points are inserted",
                          _short(cmap, 160), "rdp.mapping(candidates, reduced, removed)", construct="candidates mapped")
            continue
        res.ok("A5", "postprocessing.add_points_even:candidates", "candidate positions are mapped with rdp.mapping(candidates, reduced, removed)")
        # A1: the candidate list
        i0 = var_symbol(0)
        prx = anf.opaque("take", pts.items[0], reduced, array=True)
        pry = anf.opaque("take", pts.items[1], reduced, array=True)
        want_g = _cand_guard(pts, i0 - C(1), i0, tx, ty, px=prx, py=pry)
        want_c = Vec(flatten([mk_gen(0, C(1), sym("R"), C(1), [(want_g, i0 - C(1), False), (want_g, i0, False)])]), "list")
        if seq_equiv(Vec(flatten(cands.items), "list"), want_c):
            res.ok("A1", "postprocessing.add_points_even", "every consecutive retained pair (i-1, i) is a candidate iff width > 2*tx and height > ty (normalised by the full ranges)")
        else:
            res.violation("A1", fi.module, fi.name, fi.node,
                          "the candidate segments are not exactly the consecutive retained pairs whose normalised width exceeds 2*tx and normalised height exceeds ty",
                          _short(cands, 400), _short(want_c, 400), construct="candidate test even")
        # A2: pairs (cmap[i], cmap[i+1]), i = 0, 2, 4, ...
        Ln = ev.length_of(cmap)
        nonempty = canon_sign(ev.length_of(cands), OPS["!="])        # a fast exit for "no candidate at all" changes nothing here
        # (the candidates come in pairs - A1 - so their number is even: stopping at Ln or at Ln - 1 visits the same positions 0, 2, ..)
        if lo.is_zero() and (hi.equals(Ln) or hi.equals(Ln - C(1))) and step.is_const() == 2 and (guard.kind == "true" or g_implies(nonempty, guard)):
            res.ok("A2", "postprocessing.add_points_even:pairs", "mapped candidates are processed as (left, right) pairs")
        else:
            res.violation("A2", fi.module, fi.name, fi.node, "the mapped candidates are not processed as consecutive (left, right) pairs",
                          f"[{_short(lo, 40)}, {_short(hi, 80)}) step {step} under {_short(guard, 80)}", "for i in range(0, len(candidates), 2): left, right = candidates[i], candidates[i+1]",
                          construct="candidate pairs")
            continue
        l, r = _at(cmap, i0), _at(cmap, i0 + C(1))
        want_inner = _inner(1, pts, tx, l, r)
        found_inner = Gen(inner.depth, inner.lo, inner.hi, inner.step, [(TRUE, inner.parts[0][1], False)])
        if seq_equiv(found_inner, want_inner):
            res.ok("A2", "add_points_even:count", "ceil(normalised width / (2*tx)) points per candidate segment")
            res.ok("A2", "add_points_even:stride", "idx starts at left; each step adds int((right - left) / k) and emits idx")
        elif not (inner.lo.is_zero() and inner.hi.equals(want_inner.hi)):
            res.violation("A2", fi.module, fi.name, fi.node, "the number of inserted points is not ceil(w / (2*tx)) with w the normalised width of the segment",
                          _short(inner.hi, 200), _short(want_inner.hi, 200), construct="point count add_points_even")
        else:
            res.violation("A2", fi.module, fi.name, fi.node, "the inserted points are not left + j * int((right - left) / k), j = 1..k",
                          _short(inner.parts[0][1], 200), _short(want_inner.parts[0][1], 200), construct="stride add_points_even")


def _even_knees(rc: RuleCtx):
    res = rc.res
    for flag, label in ((TRUE, "extremes=True"), (FALSE, "extremes=False")):
        fi, ev, env, val = _eval(rc, "postprocessing.add_points_even_knees", False, flag)
        new = _union(rc, fi, ev, val, env, label, "add_points_even_knees", False, flag)
        if new is None or flag is FALSE:
            continue
        pts, tx, ty, knees = env["points"], env["tx"], env["ty"], env["knees"]
        n = sym("n")
        segs = _segments_of(flatten(new.items), fi.qualname)
        i0 = var_symbol(0)
        want = [(None, C(0), _at(knees, C(0)), 0, "head gap (0, knees[0])"),
                ((C(0), sym("K") - C(1), C(1)), _at(knees, i0), _at(knees, i0 + C(1)), 1, "gaps between consecutive knees"),
                (None, _at(knees, C(-1)), n - C(1), 0, "tail gap (knees[-1], len(points)-1)")]
        shape = [s[0] is not None for s in segs]
        if shape != [False, True, False]:
            res.violation("A6", fi.module, fi.name, fi.node,
                          "the examined gaps are not (0, knees[0]), every (knees[j-1], knees[j]) and (knees[-1], len(points)-1), in this order",
                          f"{len(segs)} block(s): " + str(["loop" if x else "single" for x in shape]), "single, loop over j = 1..len(knees)-1, single", construct="gaps")
            continue
        all_ok = True
        for (rng, guard, inner), (wrng, l, r, depth, what) in zip(segs, want):
            if wrng is not None and not (rng[0].equals(wrng[0]) and rng[1].equals(wrng[1]) and rng[2].equals(wrng[2])):
                all_ok = False
                res.violation("A6", fi.module, fi.name, fi.node, "the gaps between consecutive knees (k_{j-1}, k_j) are not all examined",
                              f"{rng[1]} gaps (step {rng[2]})", "len(knees) - 1 gaps", construct="middle gaps")
                continue
            if not _judge_segment(rc, fi, what, pts, tx, ty, guard, inner, depth, l, r):
                all_ok = False
        if all_ok:
            res.ok("A6", fi.qualname, "gaps (0, k_0), (k_{j-1}, k_j), (k_last, n-1), each under the A1 test")
            res.ok("A1", fi.qualname, "same candidate test as add_points_even (width > 2*tx and height > ty, full-range normalisation)")
            res.ok("A2", "add_points_even_knees:count", "ceil(normalised width / (2*tx)) points per candidate segment")
            res.ok("A2", "add_points_even_knees:stride", "idx starts at left; each step adds int((right - left) / k) and emits idx")
