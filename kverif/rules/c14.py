"""C14 -- even-point insertion returns the documented candidates, height-filtered.

A1  candidate test: normalised width > 2*tx and normalised height > ty (full x / y ranges).
A2  ceil(w / (2*tx)) points per candidate, stride int((right - left) / k), starting from left.
A3  extremes are [0, n-1] in both variants (every index that reaches filter_worst_knees is valid).
A4  union -> astype(int) -> unique -> filter_worst_knees on every path.
A5  knees (and candidates) pass through rdp.mapping(., reduced, removed) before the union.
A6  knees-as-markers variant: gaps (0, k_0), (k_{j-1}, k_j), (k_last, n-1).
"""

from __future__ import annotations

import ast

from .. import AnalysisError, anf
from ..anf import Rat, sym
from ..guards import (G, TRUE, FALSE, g_and, g_not, g_or, g_equiv, g_implies, g_sat, compare, canon_sign, OPS)
from ..gvn import Frame, Obj, PW, Vec, cases_of, veq, mk_pw, Unsupported
from ..intervals import single_atom
from .common import RuleCtx, _short, range_args, stored_names

C = Rat.const


def _at(x, i):
    return anf.opaque("at", x, i, array=False)


def _top_loops(fi):
    return [st for st in fi.node.body if isinstance(st, (ast.For, ast.While))]


def _ranges(pts):
    px, py = pts.items
    dx = anf.f_abs(anf.opaque("amax", px, array=False) - anf.opaque("amin", px, array=False))
    dy = anf.f_abs(anf.opaque("amax", py, array=False) - anf.opaque("amin", py, array=False))
    return dx, dy


def _cand_guard(pts, l, r, tx, ty, px=None, py=None):
    """normalised |x_r - x_l| > 2*tx and normalised |y_r - y_l| > ty"""
    dx, dy = _ranges(pts)
    px = pts.items[0] if px is None else px
    py = pts.items[1] if py is None else py
    pdx = anf.f_abs(_at(px, r) - _at(px, l)) / dx
    pdy = anf.f_abs(_at(py, r) - _at(py, l)) / dy
    return g_and(canon_sign(pdx - C(2) * tx, OPS[">"]), canon_sign(pdy - ty, OPS[">"])), pdx


def _check_process(rc: RuleCtx, fi, loop: ast.For, env, ev, left: Rat, right: Rat, benv, tag: str):
    """A2 on the candidate-processing loop body (`benv` has left/right bound)."""
    res = rc.res
    pts = env["points"]
    tx = env["tx"]
    inner = [st for st in loop.body if isinstance(st, ast.For)]
    if len(inner) != 1:
        raise AnalysisError(f"{fi.qualname}: expected one inner insertion loop")
    k = loop.body.index(inner[0])
    fr = Frame(ev, fi, 0)
    e2 = dict(benv)
    fr.block(loop.body[:k], e2, TRUE)
    dx, _dy = _ranges(pts)
    pdx = anf.f_abs(_at(pts.items[0], right) - _at(pts.items[0], left)) / dx
    want_n = anf.opaque("int", anf.opaque("ceil", pdx / (C(2) * tx), array=False), array=False)
    ra = range_args(inner[0])
    cnt = fr.expr(ra[0], e2) if ra and len(ra) == 1 else None
    good = isinstance(cnt, Rat) and (cnt.equals(want_n) or cnt.equals(anf.opaque("ceil", pdx / (C(2) * tx), array=False)))
    if good:
        res.ok("A2", f"{tag}:count", "ceil(normalised width / (2*tx)) points per candidate segment")
    else:
        res.violation("A2", fi.module, fi.name, inner[0], "the number of inserted points is not ceil(w / (2*tx)) with w the normalised width of the segment",
                      _short(cnt, 200), _short(want_n, 200), construct=f"point count {tag}")
        return
    # stride and start
    idx_name = None
    for st in inner[0].body:
        if isinstance(st, ast.Assign) and isinstance(st.targets[0], ast.Name):
            idx_name = st.targets[0].id
    start = e2.get(idx_name)
    want_inc = anf.opaque("int", (right - left) / cnt, array=False)
    b3 = dict(e2)
    b3[idx_name] = ev.symbol(idx_name)
    lists = [n for n, v in env.items() if isinstance(v, Vec) and v.kind == "list"]
    for n in lists:
        b3[n] = ev.symbol(n + "@list")
    out = ev.eval_loop_body(fi, inner[0], b3)
    apps = [e for e in out.events if e.kind == "append"]
    new_idx = out.env.get(idx_name)
    ok = isinstance(start, Rat) and start.equals(left) and isinstance(new_idx, Rat) and new_idx.equals(sym(idx_name) + want_inc) \
        and len(apps) == 1 and apps[0].guard.kind == "true" and isinstance(apps[0].args[0], Rat) and apps[0].args[0].equals(new_idx)
    if ok:
        res.ok("A2", f"{tag}:stride", "idx starts at left; each step adds int((right - left) / k) and emits idx")
        return apps[0].target
    res.violation("A2", fi.module, fi.name, inner[0], "the inserted points are not left + j * int((right - left) / k), j = 1..k",
                  f"start {_short(start, 60)}; idx' = {_short(new_idx, 120)}; emitted {[_short(a.args[0], 80) for a in apps]}",
                  "idx = left; repeat k times: idx += int((right-left)/k); new_knees.append(idx)", construct=f"stride {tag}")
    return None


def _check_tail(rc: RuleCtx, fi, stmts, env, ev, tag: str, mapped_knees: bool):
    """A3 / A4 / A5 on the straight-line tail after the processing loop."""
    res = rc.res
    pts = env["points"]
    n = sym("n")
    for flag, label in ((TRUE, "extremes=True"), (FALSE, "extremes=False")):
        e = dict(env)
        e["extremes"] = flag
        for nm, v in list(e.items()):
            if isinstance(v, Vec) and v.kind == "list":
                e[nm] = ev.symbol(nm + "@list", True)
        fr = Frame(ev, fi, 0)
        try:
            fr.block(stmts, e, TRUE)
        except Unsupported as ex:
            raise AnalysisError(f"{fi.qualname}: tail not modelled: {ex}")
        if len(fr.returns) != 1 or not isinstance(fr.returns[0][1], Rat):
            raise AnalysisError(f"{fi.qualname}: expected a single return value")
        val = fr.returns[0][1]
        a = single_atom(val)
        if a is None or a.name != "call:postprocessing.filter_worst_knees":
            res.violation("A4", fi.module, fi.name, fi.node, f"[{label}] the result is not passed through filter_worst_knees", _short(val, 160),
                          "return filter_worst_knees(points, knees_idx)", construct=f"final filter {tag}")
            continue
        amap = dict(zip(a.extra or (), a.args))
        K = amap.get("knees")
        if not amap.get("points", C(0)).equals(ev.to_rat(pts)) or K is None:
            res.violation("A4", fi.module, fi.name, fi.node, f"[{label}] filter_worst_knees is not applied to (points, candidate indices)", _short(val, 160),
                          "filter_worst_knees(points, knees_idx)", construct=f"final filter args {tag}")
            continue
        ka = single_atom(K)
        if ka is None or ka.name != "np.unique":
            res.violation("A4", fi.module, fi.name, fi.node, f"[{label}] the candidate indices are not de-duplicated / sorted with np.unique before the filter",
                          _short(K, 160), "np.unique(knees_idx.astype(int))", construct=f"unique {tag}")
            continue
        inner = single_atom(ka.args[0])
        if inner is None or inner.name != "np.concatenate":
            res.violation("A4", fi.module, fi.name, fi.node, f"[{label}] the candidate set is not the concatenation of knees, inserted points (and extremes)",
                          _short(ka.args[0], 160), "np.concatenate((knees, new_knees[, extremes]))", construct=f"union {tag}")
            continue
        vec = single_atom(inner.args[0])
        parts = list(vec.args) if vec is not None and vec.name == "vec" else []
        # int conversion present on the path
        has_int = any(isinstance(c, ast.Call) and isinstance(c.func, ast.Attribute) and c.func.attr == "astype" and c.args and ast.unparse(c.args[0]) == "int"
                      for st in stmts for c in ast.walk(st))
        if not has_int:
            res.violation("A4", fi.module, fi.name, fi.node, "the union is not converted to integers (np.concatenate yields floats when a part is empty)", "",
                          "knees_idx.astype(int)", construct=f"astype {tag}")
        # parts: knees (mapped or raw), new_knees, extremes
        want_parts = 3 if flag is TRUE else 2
        ok = len(parts) == want_parts
        if ok:
            k0 = parts[0]
            if mapped_knees:
                ma = single_atom(k0)
                ok_map = ma is not None and ma.name == "call:rdp.mapping"
                if ok_map:
                    mm = dict(zip(ma.extra or (), ma.args))
                    ok_map = mm.get("indexes", C(0)).equals(env["knees"]) and mm.get("reduced", C(0)).equals(env["reduced"]) and \
                        mm.get("removed", C(0)).equals(ev.to_rat(env["removed"]))
                if ok_map:
                    res.ok("A5", f"{tag}[{label}]", "knees enter the union as rdp.mapping(knees, reduced, removed)")
                else:
                    res.violation("A5", fi.module, fi.name, fi.node, f"[{label}] the knees are not mapped from reduced space to the original curve before the union",
                                  _short(k0, 160), "rdp.mapping(knees, reduced, removed)", construct=f"knees mapped {tag}")
            else:
                if not k0.equals(env["knees"]):
                    ok = False
            if flag is TRUE:
                ex = single_atom(parts[2])
                want_ex = [C(0), n - C(1)]
                ex_ok = ex is not None and ex.name == "vec" and len(ex.args) == 2 and all(p.equals(q) for p, q in zip(ex.args, want_ex))
                if ex_ok:
                    res.ok("A3", f"{tag}", "extremes == [0, len(points) - 1]")
                else:
                    res.violation("A3", fi.module, fi.name, fi.node,
                                  "the extremes added to the output are not the first and last valid indices [0, len(points)-1] (an out-of-range index reaches filter_worst_knees: IndexError)",
                                  _short(parts[2], 100), "[0, len(points) - 1]", construct=f"extremes {tag}")
        if ok:
            res.ok("A4", f"{tag}[{label}]", "concatenate -> astype(int) -> unique -> filter_worst_knees")
        else:
            res.violation("A4", fi.module, fi.name, fi.node, f"[{label}] the union does not consist of the knees, the inserted points" + (" and the extremes" if flag is TRUE else ""),
                          str([_short(p, 60) for p in parts]), "knees, new_knees" + (", extremes" if flag is TRUE else ""), construct=f"union parts {tag}")


def run(ctx):
    rc = RuleCtx(ctx)
    res = ctx.result
    res.level = "other"
    for k, v in {"A1": "candidate iff |x_r - x_l| / |max x - min x| > 2*tx and |y_r - y_l| / |max y - min y| > ty",
                 "A2": "k = ceil(w/(2*tx)) points: idx = left + j*int((right-left)/k), j = 1..k",
                 "A3": "extremes == [0, len(points)-1]", "A4": "concatenate -> astype(int) -> unique -> filter_worst_knees on every path",
                 "A5": "knees and candidates are mapped with rdp.mapping(., reduced, removed) first",
                 "A6": "markers variant: gaps (0, k_0), (k_{j-1}, k_j), (k_last, n-1)"}.items():
        res.rule(k, v)
    _even(rc)
    _even_knees(rc)
    res.assumptions += ["curve with non-constant x and y (ranges > 0)", "knees / reduced ascending valid indices"]
    res.not_decided += ["validity of idx = left + j*inc follows arithmetically from A2 (j*inc <= right-left) and is recorded, not separately decided",
                        "numerical width / height tests"]
    res.require_instances("C14 obligations", len(res.obligations), 14)


def _even(rc: RuleCtx):
    res = rc.res
    fi = rc.func("postprocessing.add_points_even")
    ev = rc.new_eval()
    ev.no_inline |= {"postprocessing.filter_worst_knees"}
    pts = ev.point("points", True)
    reduced, knees = ev.symbol("reduced", True), ev.symbol("knees", True)
    removed = ev.point("removed", True)
    ev.len_map = {"points": sym("n"), "reduced": sym("R"), "knees": sym("K"), "removed": sym("M")}
    tx, ty = ev.symbol("tx"), ev.symbol("ty")
    env = {"points": pts, "reduced": reduced, "knees": knees, "removed": removed, "tx": tx, "ty": ty, "extremes": ev.symbol("extremes")}
    loops = _top_loops(fi)
    if len(loops) != 2:
        raise AnalysisError("add_points_even: expected two top-level loops")
    l1, l2 = loops
    body = fi.node.body
    k1, k2 = body.index(l1), body.index(l2)
    fr = Frame(ev, fi, 0)
    fr.block(body[:k1], env, TRUE)
    want_pr = Vec([anf.opaque("take", c, reduced, array=True) for c in pts.items], "point")
    prs = [v for v in env.values() if isinstance(v, Vec) and v.kind == "point" and veq(v, want_pr)]
    pr = prs[0] if prs else None
    if not (isinstance(pr, Vec) and veq(pr, want_pr)):
        res.violation("A1", fi.module, fi.name, fi.node, "the retained points are not points[reduced]", _short(pr), "points[reduced]", construct="points_reduced")
        return
    # loop 1: consecutive retained pairs
    ra = range_args(l1)
    lo = fr.expr(ra[0], env) if ra and len(ra) == 2 else None
    hi = fr.expr(ra[1], env) if ra and len(ra) == 2 else None
    i = ev.symbol(l1.target.id)
    benv = dict(env)
    benv[l1.target.id] = i
    cl = [n for n, v in env.items() if isinstance(v, Vec) and v.kind == "list"]
    for n in cl:
        benv[n] = ev.symbol(n + "@list")
    out = ev.eval_loop_body(fi, l1, benv)
    apps = [e for e in out.events if e.kind == "append"]
    want_g, _pdx = _cand_guard(pts, i - C(1), i, tx, ty, px=pr.items[0], py=pr.items[1])
    rng_ok = isinstance(lo, Rat) and lo.is_const() == 1 and isinstance(hi, Rat) and hi.equals(sym("R"))
    vals = [(e.guard, e.args[0]) for e in apps]
    pair_ok = len(apps) == 2 and all(g_equiv(g, want_g) for g, _v in vals) and isinstance(vals[0][1], Rat) and vals[0][1].equals(i - C(1)) \
        and isinstance(vals[1][1], Rat) and vals[1][1].equals(i) and apps[0].target == apps[1].target
    if rng_ok and pair_ok:
        res.ok("A1", "postprocessing.add_points_even", "every consecutive retained pair (i-1, i) is a candidate iff width > 2*tx and height > ty (normalised by the full ranges)")
    else:
        res.violation("A1", fi.module, fi.name, l1, "the candidate segments are not exactly the consecutive retained pairs whose normalised width exceeds 2*tx and normalised height exceeds ty",
                      f"range {ast.unparse(l1.iter)}; " + str([(str(g)[:120], _short(v, 40)) for g, v in vals]), str(want_g)[:200], construct="candidate test even")
    cand_name = apps[0].target if apps else None
    # between the loops: candidates mapped
    e2 = dict(env)
    if cand_name:
        e2[cand_name] = ev.symbol(cand_name, True)
        ev.len_map[cand_name] = sym("Cn")
    fr2 = Frame(ev, fi, 0)
    fr2.block(body[k1 + 1:k2], e2, TRUE)
    cm = e2.get(cand_name)
    ma = single_atom(cm) if isinstance(cm, Rat) else None
    ok_map = ma is not None and ma.name == "call:rdp.mapping"
    if ok_map:
        mm = dict(zip(ma.extra or (), ma.args))
        ok_map = mm.get("reduced", C(0)).equals(reduced) and mm.get("removed", C(0)).equals(ev.to_rat(removed)) and mm.get("indexes", C(0)).equals(sym(cand_name, True))
    if ok_map:
        res.ok("A5", "postprocessing.add_points_even:candidates", "candidate positions are mapped with rdp.mapping(candidates, reduced, removed)")
    else:
        res.violation("A5", fi.module, fi.name, fi.node, "the candidate positions (reduced space) are not mapped to the original curve before points are inserted", _short(cm, 160),
                      "rdp.mapping(candidates, reduced, removed)", construct="candidates mapped")
    # loop 2: pairs (candidates[i], candidates[i+1]), step 2
    cands = ev.symbol("cmap", True)
    e3 = dict(e2)
    e3[cand_name] = cands
    ra = range_args(l2)
    step_ok = ra is not None and len(ra) == 3 and ast.unparse(ra[0]) == "0" and ast.unparse(ra[2]) == "2"
    j = ev.symbol(l2.target.id)
    e3[l2.target.id] = j
    fr3 = Frame(ev, fi, 0)
    inner = [st for st in l2.body if isinstance(st, ast.For)]
    e4 = dict(e3)
    fr3.block(l2.body[:l2.body.index(inner[0])] if inner else [], e4, TRUE)
    lefts = [v for v in e4.values() if isinstance(v, Rat) and v.equals(_at(cands, j))]
    rights = [v for v in e4.values() if isinstance(v, Rat) and v.equals(_at(cands, j + C(1)))]
    left, right = (lefts[0] if lefts else None), (rights[0] if rights else None)
    if step_ok and isinstance(left, Rat) and isinstance(right, Rat):
        res.ok("A2", "postprocessing.add_points_even:pairs", "mapped candidates are processed as (left, right) pairs")
        _check_process(rc, fi, l2, e3, ev, left, right, e3, "add_points_even")
    else:
        res.violation("A2", fi.module, fi.name, l2, "the mapped candidates are not processed as consecutive (left, right) pairs", ast.unparse(l2.iter),
                      "for i in range(0, len(candidates), 2): left, right = candidates[i], candidates[i+1]", construct="candidate pairs")
    _check_tail(rc, fi, body[k2 + 1:], e2, ev, "add_points_even", mapped_knees=True)


def _even_knees(rc: RuleCtx):
    res = rc.res
    fi = rc.func("postprocessing.add_points_even_knees")
    ev = rc.new_eval()
    ev.no_inline |= {"postprocessing.filter_worst_knees"}
    pts = ev.point("points", True)
    knees = ev.symbol("knees", True)
    ev.len_map = {"points": sym("n"), "knees": sym("K")}
    tx, ty = ev.symbol("tx"), ev.symbol("ty")
    env = {"points": pts, "knees": knees, "tx": tx, "ty": ty, "extremes": ev.symbol("extremes")}
    loops = _top_loops(fi)
    if len(loops) != 2:
        raise AnalysisError("add_points_even_knees: expected two top-level loops")
    l1, l2 = loops
    body = fi.node.body
    k1, k2 = body.index(l1), body.index(l2)
    n = sym("n")
    # head gap (0, knees[0])
    fr = Frame(ev, fi, 0)
    e1 = dict(env)
    fr.block(body[:k1], e1, TRUE)
    head = [e for e in fr.events if e.kind == "append"]
    g0, _ = _cand_guard(pts, C(0), _at(knees, C(0)), tx, ty)
    gaps_ok = True
    if not (len(head) == 1 and g_equiv(head[0].guard, g0) and veq(head[0].args[0], Vec([C(0), _at(knees, C(0))]))):
        gaps_ok = False
        res.violation("A6", fi.module, fi.name, fi.node, "the gap between the curve start and the first knee (0, knees[0]) is not examined with the candidate test",
                      str([(str(e.guard)[:100], _short(e.args[0], 60)) for e in head]), "(0, knees[0]) iff width > 2*tx and height > ty", construct="head gap")
    # middle gaps
    ra = range_args(l1)
    lo = fr.expr(ra[0], e1) if ra and len(ra) == 2 else None
    hi = fr.expr(ra[1], e1) if ra and len(ra) == 2 else None
    i = ev.symbol(l1.target.id)
    benv = dict(e1)
    benv[l1.target.id] = i
    for nm, v in list(benv.items()):
        if isinstance(v, Vec) and v.kind == "list":
            benv[nm] = ev.symbol(nm + "@list")
    out = ev.eval_loop_body(fi, l1, benv)
    apps = [e for e in out.events if e.kind == "append"]
    gm, _ = _cand_guard(pts, _at(knees, i - C(1)), _at(knees, i), tx, ty)
    if not (isinstance(lo, Rat) and lo.is_const() == 1 and isinstance(hi, Rat) and hi.equals(sym("K")) and len(apps) == 1
            and g_equiv(apps[0].guard, gm) and veq(apps[0].args[0], Vec([_at(knees, i - C(1)), _at(knees, i)]))):
        gaps_ok = False
        res.violation("A6", fi.module, fi.name, l1, "the gaps between consecutive knees (k_{j-1}, k_j) are not all examined with the candidate test",
                      f"{ast.unparse(l1.iter)}; " + str([(str(e.guard)[:100], _short(e.args[0], 60)) for e in apps]), "(knees[i-1], knees[i]) for i in 1..len(knees)-1",
                      construct="middle gaps")
    # tail gap (knees[-1], n-1)
    fr2 = Frame(ev, fi, 0)
    e2 = dict(e1)
    for nm, v in list(e2.items()):
        if isinstance(v, Vec) and v.kind == "list":
            e2[nm] = ev.symbol(nm + "@list")
    fr2.block(body[k1 + 1:k2], e2, TRUE)
    tail = [e for e in fr2.events if e.kind == "append"]
    gt, _ = _cand_guard(pts, _at(knees, C(-1)), n - C(1), tx, ty)
    if not (len(tail) == 1 and g_equiv(tail[0].guard, gt) and veq(tail[0].args[0], Vec([_at(knees, C(-1)), n - C(1)]))):
        gaps_ok = False
        res.violation("A6", fi.module, fi.name, fi.node, "the gap between the last knee and the curve end (knees[-1], len(points)-1) is not examined with the candidate test",
                      str([(str(e.guard)[:100], _short(e.args[0], 60)) for e in tail]), "(knees[-1], len(points)-1)", construct="tail gap")
    if gaps_ok:
        res.ok("A6", fi.qualname, "gaps (0, k_0), (k_{j-1}, k_j), (k_last, n-1), each under the A1 test")
        res.ok("A1", fi.qualname, "same candidate test as add_points_even (width > 2*tx and height > ty, full-range normalisation)")
    # processing loop: for left, right in candidates
    if not (isinstance(l2.target, ast.Tuple) and len(l2.target.elts) == 2):
        res.violation("A2", fi.module, fi.name, l2, "candidates are not processed as (left, right) pairs", ast.unparse(l2.target), "for left, right in candidates", construct="candidate pairs knees")
    else:
        e3 = dict(e2)
        left, right = ev.symbol("left"), ev.symbol("right")
        e3[l2.target.elts[0].id] = left
        e3[l2.target.elts[1].id] = right
        _check_process(rc, fi, l2, e3, ev, left, right, e3, "add_points_even_knees")
    _check_tail(rc, fi, body[k2 + 1:], e2, ev, "add_points_even_knees", mapped_knees=False)
