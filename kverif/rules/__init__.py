"""One module per property.  Each exposes ``run(ctx)`` where ctx is a
``kverif.engine.Context``; the function records obligations / findings on
``ctx.result``."""

import importlib

PROPERTIES = ["C01", "C02", "C04", "C05", "C06", "C07", "C08", "C09", "C10", "C11", "C12", "C13",
              "C14", "C15", "C16", "C17", "C18", "C19", "C20"]


def load(prop: str):
    return importlib.import_module(f"kverif.rules.{prop.lower()}")
