"""C07 -- reduced-space indices map back to exactly the original indices.

P1  mapping(): for each queried position i (in input order) value = reduced[i]; rows of the
    removed table are consumed while row.left < value (strictly), accumulating row.count in a
    running sum that is carried across queries; the result i + count is emitted once per query.
P2  sorted=False => rows permuted by argsort of the left column; sorted=True => table used as is.
P3  the dropped-count of rdp() and of compute_removed_points() are the same linear form
    next_retained - left - 1 (one row per retained segment).
"""

from __future__ import annotations

import ast

from .. import AnalysisError, anf
from ..anf import Rat, sym
from ..guards import (G, TRUE, FALSE, g_and, g_not, g_or, g_equiv, g_implies, g_sat, compare, canon_sign, OPS, count_true)
from ..gvn import Frame, Obj, PW, Vec, cases_of, veq, Unsupported
from . import rdp_model as rm
from .c01 import _r4
from .common import RuleCtx, _short, split_at_loop, stored_names, sign_set_name, returned_names

C = Rat.const


def _at(x, i):
    return anf.opaque("at", x, i, array=False)


def run(ctx):
    rc = RuleCtx(ctx)
    res = ctx.result
    res.level = "other"
    res.rule("P1", "mapping: value = reduced[i]; consume rows while j < len(rows) and rows[j].left < value (strict); count += rows[j].count; j += 1; "
                   "j and count start at 0 and are carried across queries; emit int(i + count) once per query, in query order")
    res.rule("P2", "sorted=False: rows = removed[argsort(removed[:, 0])]; sorted=True: rows = removed")
    res.rule("P3", "removed rows of rdp() and compute_removed_points() are [left, next_retained - left - 1]")
    res.rule("P4", "mapping and compute_removed_points never write into their arguments (alias analysis): the same table gives the same answer on every call")
    _pure(rc)
    res.rule("P5", "every (reduced, removed) pair returned by rdp_fixed / grdp / mp_grdp / min_point_rdp belongs together: removed is computed for that very reduced")
    from . import rdp_model as _rm
    _rm.check_result_pairing(rc, "P5")
    mapping_contract(rc)
    res.rule("P7", "the reduction handed to mapping is strictly increasing and duplicate-free: every simplifier loop only pushes ranges with an interior point and "
                   "retains one new interior index per step (compute_removed_points and mapping assume it: a repeated index yields a row [k, -1])")
    from . import c01 as _c01
    from .common import borrow as _borrow
    _borrow(rc, "P7", _c01.sec_distinct)
    # ---- P3 ------------------------------------------------------------------------
    m = rm.build(rc, "rdp.rdp", {"cost": Obj("enum", "Metrics.smape")})
    rm.threshold_profile(rc, m, "P7", "P7")
    before = len(res.findings)
    _r4(rc, m)
    for f in res.findings[before:]:
        f.rule = "P3"
    for o in res.obligations:
        if o.rule == "R4":
            o.rule = "P3"
    res.assumptions += ["the inductive step from P1-P3 to mapping(I) == reduced[I] is a paper argument over these facts",
                        "positions ascending; removed rows cover consecutive retained pairs"]
    res.not_decided += ["mapping(I) == reduced[I] as a behavioural equality on concrete reductions"]
    from .common import hidden_state as _hidden_state
    _hidden_state(rc, "P6", ['rdp.mapping', 'rdp.compute_removed_points'], "index mapping")
    res.require_instances("C07 obligations", len(res.obligations), 9)



def mapping_contract(rc: RuleCtx):
    """P1 / P2: the lookup itself (also borrowed by properties that treat rdp.mapping as an opaque stage)."""
    res = rc.res
    fi = rc.func("rdp.mapping")
    mod = fi.module
    ev = rc.new_eval()
    removed = ev.point("removed", True)       # two columns: (left index, dropped count)
    reduced = ev.symbol("reduced", True)
    indexes = ev.symbol("indexes", True)
    ev.len_map = {"removed": sym("M"), "reduced": sym("R"), "indexes": sym("Q")}
    pre, loop, post = split_at_loop(fi, kind=(ast.For,))
    # ---- P2 ------------------------------------------------------------------------
    for flag, label in ((TRUE, "sorted=True"), (FALSE, "sorted=False")):
        env = {"indexes": indexes, "reduced": reduced, "removed": removed, "sorted": flag}
        fr = Frame(ev, fi, 0)
        try:
            fr.block(pre, env, TRUE)
        except Unsupported as e:
            raise AnalysisError(f"rdp.mapping: prologue not modelled: {e}")
        rows = env.get("sorted_removed")
        if rows is None:
            cands = [v for k, v in env.items() if k not in ("indexes", "reduced", "removed", "sorted") and isinstance(v, Vec) and v.kind == "point"]
            rows = cands[0] if cands else None
        if rows is None:
            raise AnalysisError(f"rdp.mapping[{label}]: no two-column table in front of the scan (the rows it walks are not identified) - shape not recognised")
        if flag is TRUE:
            good = rows is not None and veq(rows, removed)
            want = "removed"
        else:
            order = anf.opaque("np.argsort", removed.items[0], array=True)
            want_v = Vec([anf.opaque("take", c, order, array=True) for c in removed.items], "point")
            good = rows is not None and veq(rows, want_v)
            want = "removed[np.argsort(removed[:, 0])]"
        if good:
            res.ok("P2", f"rdp.mapping[{label}]", f"rows == {want}")
        else:
            res.violation("P2", mod, fi.name, fi.node, f"{label}: the removed table used by the mapping is not {want}", _short(rows), want,
                          construct=f"rows {label}")
    # ---- P1 ------------------------------------------------------------------------
    env = {"indexes": indexes, "reduced": reduced, "removed": removed, "sorted": TRUE}
    fr = Frame(ev, fi, 0)
    fr.block(pre, env, TRUE)
    rows = removed
    inits = {k: v for k, v in env.items() if isinstance(v, Rat) and v.is_zero()}
    outl = [k for k, v in env.items() if isinstance(v, Vec) and v.kind == "list" and not v.items]
    if len(outl) != 1:
        raise AnalysisError("rdp.mapping: cannot identify the output list")
    L = outl[0]
    # by value: the loop visits the *argument* itself (not a sorted / de-duplicated / filtered copy of it)
    try:
        itv = fr.expr(loop.iter, env)
    except Unsupported:
        itv = None
    if not (isinstance(itv, Rat) and itv.equals(indexes) and isinstance(loop.target, ast.Name)):
        res.violation("P1", mod, fi.name, loop, "the queries are not visited one by one in input order: the loop does not run over the given positions themselves "
                      "(a re-ordered or de-duplicated copy answers a different list - one value per queried position is required)",
                      _short(itv, 120) if itv is not None else ast.unparse(loop.iter), "for i in indexes", construct="query loop")
        return
    ivar = loop.target.id
    inner = [st for st in loop.body if isinstance(st, ast.While)]
    if len(inner) != 1:
        raise AnalysisError("rdp.mapping: expected one inner while loop")
    # one value per queried position: a `continue` at the level of the query loop skips a query
    skips = [n_ for st_ in loop.body if st_ is not inner[0] for n_ in ast.walk(st_) if isinstance(n_, ast.Continue)]
    if skips:
        raise AnalysisError(f"rdp.mapping: the query loop can skip a query (`continue`, line {skips[0].lineno}) - shape not recognised")
    k = loop.body.index(inner[0])
    from .common import normalise_while
    w = normalise_while(fi, inner[0])
    i = ev.symbol(ivar)
    carried = [n for n in stored_names(w) if n in inits]
    numeric_carried = [n for n in stored_names(w) if isinstance(env.get(n), Rat)]
    if len(carried) != 2 and len(numeric_carried) != 2:
        # not "a cursor and a sum, one of them wrongly initialised" but another algorithm altogether
        raise AnalysisError(f"rdp.mapping: the consuming loop carries {numeric_carried or 'no numeric state'} - expected a row cursor and a running sum; shape not recognised")
    if len(carried) != 2:
        res.violation("P1", mod, fi.name, fi.node, "the row cursor and the running sum are not both initialised to 0 before the first query",
                      str(sorted(inits)), "j = 0; count = 0", construct="carried init")
        return
    # are they reset inside the outer loop (before the while)?  they must not be
    reset = [n for st in loop.body[:k] for n in stored_names(st) if n in carried]
    if reset:
        res.violation("P1", mod, fi.name, loop, f"{reset} is reset for every query: the sum no longer covers all segments that start before the queried point",
                      str(reset), "carried across queries", construct="carried reset")
    benv = dict(env)
    benv[ivar] = i
    for n in carried:
        benv[n] = ev.symbol(n)
    fr2 = Frame(ev, fi, 0)
    fr2.block(loop.body[:k], benv, TRUE)
    value = benv.get("value")
    want_value = _at(reduced, i)
    # inner loop test
    test = fr2.cond(w.test, benv)
    # identify cursor (compared with len(rows)) and sum
    cur = None
    for n in carried:
        if g_implies(test, canon_sign(sym(n) - sym("M"), OPS["<"])):
            cur = n
    if cur is None:
        res.violation("P1", mod, fi.name, w, "the row cursor is not bounded by the number of rows", str(test), "j < len(rows)", construct="cursor bound")
        return
    acc = [n for n in carried if n != cur][0]
    j = sym(cur)
    left_j, cnt_j = _at(rows.items[0], j), _at(rows.items[1], j)
    # the value compared must be reduced[i]
    vv = value if isinstance(value, Rat) else None
    want_test = g_and(canon_sign(j - sym("M"), OPS["<"]), canon_sign(left_j - want_value, OPS["<"]))
    if g_equiv(test, want_test):
        res.ok("P1", "rdp.mapping:consume", "rows consumed while j < len(rows) and rows[j].left < reduced[i] (strictly)")
    else:
        msg = "rows are not consumed exactly while they start strictly before the queried point reduced[i]"
        alt = g_and(canon_sign(j - sym("M"), OPS["<"]), canon_sign(left_j - want_value, OPS["<="]))
        if g_equiv(test, alt):
            msg += " (comparator <=: the segment that starts AT the queried point is counted too)"
        res.violation("P1", mod, fi.name, w, msg, str(test), str(want_test), construct="consume guard")
    benv2 = dict(benv)
    out = ev.eval_loop_body(fi, w, benv2)
    new_j, new_acc = out.env.get(cur), out.env.get(acc)
    if isinstance(new_j, Rat) and new_j.equals(j + C(1)) and isinstance(new_acc, Rat) and new_acc.equals(sym(acc) + cnt_j):
        res.ok("P1", "rdp.mapping:accumulate", f"{acc} += rows[{cur}].count; {cur} += 1 on every consumed row")
    else:
        res.violation("P1", mod, fi.name, w, "a consumed row does not add its dropped-point count to the running sum and advance the cursor by one",
                      f"{cur}' = {_short(new_j, 60)}, {acc}' = {_short(new_acc, 80)}", f"{cur} + 1, {acc} + rows[{cur}].count", construct="accumulate")
    # emission
    fr3 = Frame(ev, fi, 0)
    benv3 = dict(benv)
    benv3[L] = ev.symbol(L + "@list")
    fr3.block(loop.body[k + 1:], benv3, TRUE)
    apps = [e for e in fr3.events if e.kind == "append" and e.target == L]
    want_emit = anf.opaque("int", i + sym(acc), array=False)
    pre_apps = [e for e in fr2.events if e.kind == "append" and e.target == L]
    if len(apps) == 1 and not pre_apps and apps[0].guard.kind == "true" and isinstance(apps[0].args[0], Rat) and (
            apps[0].args[0].equals(want_emit) or apps[0].args[0].equals(i + sym(acc))):
        res.ok("P1", "rdp.mapping:emit", "exactly one int(i + count) per query, in query order")
    else:
        res.violation("P1", mod, fi.name, loop, "the mapped index is not i + (running sum of dropped points), emitted once per query",
                      str([_short(e.args[0], 80) for e in apps]), "rv.append(int(i + count))", construct="emit")
    # return
    rn = returned_names(post)
    if rn is not None and L in rn:
        res.ok("P1", "rdp.mapping:return", "returns the emitted list as an array")
    else:
        res.violation("P1", mod, fi.name, fi.node, "the emitted list is not what is returned", construct="mapping return")


def _pure(rc: RuleCtx):
    """P4: a lookup that rewrites the table it reads (e.g. an in-place cumulative sum on `removed` when sorted=True
    makes rows the caller's own array) answers differently the second time it is asked."""
    from ..mutation import MutationAnalysis
    res = rc.res
    ma = MutationAnalysis(rc.ctx.repo, rc.ctx.linker)
    for q in ("rdp.mapping", "rdp.compute_removed_points"):
        fi = rc.func(q)
        evs = [e for e in ma.events.get(q, []) if e.kind == "write"]
        if not evs:
            res.ok("P4", q, f"tracked parameters {ma.tracked_params.get(q, [])}: no write on any alias")
        for e in evs:
            res.violation("P4", fi.module, fi.name, e.node,
                          f"{q} writes into its argument '{e.param}' ({e.how}): a second call with the same table no longer returns the original indices",
                          ast.unparse(e.node)[:120] if hasattr(e.node, "lineno") else "", "no write on a value that may alias a parameter",
                          construct=f"writes {e.param}")
