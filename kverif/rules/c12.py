"""C12 -- cluster filtering keeps one best-ranked knee per cluster.

Q1  clusters 0..max inclusive are visited once each, in ascending order.
Q2  left / linear / right modes: exactly one append per cluster on every path.
Q3  the appended element is members[argmax(rank(r))], members = knees[clusters == i],
    r = smooth_ranking(points, members, method); a single-member cluster yields its member;
    smooth_ranking == fit * weights, weights = |peak - y_k| normalised by their sum when
    non-zero, fit from lf.r2 on the side(s) the mode selects.
Q4  hull mode: at most one append per cluster; a multi-member cluster with no hull index in
    its span yields none; a single member is kept iff it is a hull index.
Q5  corner variant: members[argmax(rank_corners_triangle(points, members))], one per cluster.
Q6  provenance: every emitted value is an element of the knees argument.
Q7  the hull path links (graham_scan_lower and everything it uses resolve).
"""

from __future__ import annotations

import ast

from .. import AnalysisError, anf
from ..anf import Rat, sym
from ..guards import (G, TRUE, FALSE, g_and, g_not, g_or, g_equiv, g_implies, g_sat, compare, canon_sign, OPS, count_true)
from ..gvn import Frame, Obj, PW, Vec, cases_of, veq, mk_pw, Unsupported
from ..intervals import single_atom
from .common import section, RuleCtx, _short, locate_loop, range_args, stored_names, split_at_loop

C = Rat.const
MODES = ["left", "linear", "right", "hull"]


def _at(x, i):
    return anf.opaque("at", x, i, array=False)


def is_element_of(v, knees: Rat) -> bool:
    """v is knees[...][...]: an element read from the knees argument (possibly through a mask / take)."""
    if not isinstance(v, Rat):
        return False
    a = single_atom(v)
    if a is None or a.name != "at":
        return False
    base = a.args[0]
    if base.equals(knees):
        return True
    b = single_atom(base)
    return b is not None and b.name in ("mask", "take", "slice") and b.args[0].equals(knees)


def _setup(rc: RuleCtx, qual: str, method):
    fi = rc.func(qual)
    ev = rc.new_eval()
    ev.no_inline |= {"knee_ranking.rank", "knee_ranking.smooth_ranking", "knee_ranking.distance_to_similarity", "convex_hull.graham_scan_lower",
                     "postprocessing.rank_corners_triangle"}
    pts = ev.point("points", True)
    knees = ev.symbol("knees", True)
    ev.len_map = {"points": sym("n"), "knees": sym("K")}
    env = {"points": pts, "knees": knees, "clustering": ev.symbol("clustering"), "t": ev.symbol("t")}
    if method is not None:
        env["method"] = method
    pre, loop, post, conds = locate_loop(fi, kind=(ast.For,))
    fr = Frame(ev, fi, 0)
    try:
        fr.block([st for st in pre if not (isinstance(st, ast.If) and any(isinstance(x, ast.Return) for x in ast.walk(st)))], env, TRUE)
    except Unsupported as e:
        raise AnalysisError(f"{qual}: pre-loop code not modelled: {e}")
    return fi, ev, env, loop, post, fr


def run(ctx):
    rc = RuleCtx(ctx)
    res = ctx.result
    res.level = "other"
    for k, v in {"Q1": "for i in range(0, clusters.max() + 1)", "Q2": "non-hull modes: the append guard is true on every path",
                 "Q3": "emitted == members[argmax(rank(smooth_ranking(points, members, method)))] (multi-member) / members[0] (single); smooth_ranking == fit * normalised weights",
                 "Q4": "hull mode: <= 1 append per cluster; none when the span holds no hull point; single member iff in hull",
                 "Q5": "corner variant: members[argmax(rank_corners_triangle(points, members))], one append per cluster",
                 "Q6": "emitted values are elements of the knees argument", "Q7": "hull path links"}.items():
        res.rule(k, v)
    from .common import borrow
    from .common import hidden_state
    hidden_state(rc, "Q8", ["postprocessing.filter_clusters", "postprocessing.filter_clusters_corners"], "cluster filtering")
    from .c13 import check_short_input
    def _all_singletons(ev_, args_, part) -> bool:
        # every cluster has one member (max label + 1 == number of knees): outside hull mode every knee is its cluster's representative
        kp = Vec([anf.opaque("take", c, args_["knees"], array=True) for c in args_["points"].items], "point")
        lab = anf.opaque("slot:clustering", ev_.to_rat(kp), ev_.to_rat(args_["t"]), array=True)
        return g_implies(part, canon_sign(anf.opaque("amax", lab, array=False) + C(1) - sym("K"), OPS["=="]))
    for mname_, allow_ in (("linear", _all_singletons), ("hull", None)):
        check_short_input(rc, "Q2" if mname_ != "hull" else "Q4", rc.func("postprocessing.filter_clusters"),
                          extra_args=lambda e, m_=mname_: {"clustering": e.symbol("clustering"), "t": e.symbol("t"), "method": Obj("enum", f"ClusterRanking.{m_}")},
                          allow=allow_, label=f"[{mname_}]")
    for mode in MODES:
        section(rc, _filter_clusters, mode)
    section(rc, _corners)
    section(rc, _corner_score)
    res.rule("Q-dtype", "no ranking / filtering function stores a float score into an array that inherits the dtype of its argument (integer curves would truncate the scores)")
    from . import detectors as _d
    _d.dtype_guard(rc, "Q-dtype", ["knee_ranking", "postprocessing"])
    section(rc, _smooth_ranking)
    from . import c16, c17
    from .common import borrow
    borrow(rc, "Q3", c16._best_fit)                              # lf.r2: the fit quality the score multiplies
    borrow(rc, "Q2", c17._sec_rank)                              # rank(): the permutation the arg-max is taken over
    section(rc, _q7)
    res.assumptions += ["cluster labels are non-decreasing contiguous runs 0..max (C11-L1) - with a foreign clustering callable the order clause is an assumption",
                        "argmax of rank returns a member attaining the maximal score (argsort is a permutation)"]
    res.not_decided += ["numerical values of the scores", "which of several tied members is returned"]
    res.require_instances("C12 obligations", len(res.obligations), 16)


def _filter_clusters(rc: RuleCtx, mode: str):
    res = rc.res
    fi, ev, env, loop, post, fr = _setup(rc, "postprocessing.filter_clusters", Obj("enum", f"ClusterRanking.{mode}"))
    tag = f"postprocessing.filter_clusters[{mode}]"
    knees, pts = env["knees"], env["points"]
    cl_ = [v for v in env.values() if isinstance(v, Rat) and single_atom(v) is not None and single_atom(v).name.startswith("slot:")]
    clusters = cl_[0] if len(cl_) == 1 else None
    kp = Vec([anf.opaque("take", c, knees, array=True) for c in pts.items], "point")
    want_cl = anf.opaque("slot:clustering", ev.to_rat(kp), ev.to_rat(env["t"]), array=True)
    if clusters is None:
        raise AnalysisError(f"filter_clusters[{mode}]: no call of the clustering argument in front of the cluster loop ({len(cl_)} candidates) - shape not recognised")
    if not (isinstance(clusters, Rat) and clusters.equals(want_cl)):
        res.violation("Q1", fi.module, fi.name, fi.node, "the cluster labels are not clustering(points[knees], t)", _short(clusters), "clustering(points[knees], t)",
                      construct="cluster labels")
        return
    # Q1
    ra = range_args(loop)
    lo = fr.expr(ra[0], env) if ra and len(ra) == 2 else (C(0) if ra and len(ra) == 1 else None)
    hi = fr.expr(ra[-1], env) if ra else None
    if isinstance(lo, Rat) and lo.is_zero() and isinstance(hi, Rat) and hi.equals(anf.opaque("amax", clusters, array=False) + C(1)):
        if mode == "linear":
            res.ok("Q1", "postprocessing.filter_clusters", "clusters 0..max(labels) visited once each, ascending")
    elif not ra:
        raise AnalysisError(f"filter_clusters[{mode}]: the clusters are not visited by a loop over range(0, clusters.max() + 1) ({ast.unparse(loop.iter)[:60]}) - shape not recognised")
    else:
        res.violation("Q1", fi.module, fi.name, loop, "the clusters 0..max(labels) are not all visited exactly once", ast.unparse(loop.iter), "range(0, clusters.max() + 1)",
                      construct="cluster range")
        return
    i = ev.symbol(loop.target.id)
    benv = dict(env)
    benv[loop.target.id] = i
    outs = [n for n, v in env.items() if isinstance(v, Vec) and v.kind == "list"]
    if len(outs) != 1:
        raise AnalysisError("filter_clusters: cannot identify the output list")
    L = outs[0]
    benv[L] = ev.symbol(L + "@list")
    from .common import carry
    carry(ev, loop, env, benv)
    try:
        out = ev.eval_loop_body(fi, loop, benv)
    except Unsupported as e:
        raise AnalysisError(f"filter_clusters[{mode}]: loop body not modelled: {e}")
    apps = [e for e in out.events if e.kind == "append" and e.target == L and e.in_loop == 0]
    members = anf.opaque("mask", knees, anf.opaque("bool", extra=repr(compare("==", clusters, i).key)), array=True)
    nmem = ev.length_of(members)
    multi = canon_sign(nmem - C(1), OPS[">"])
    from .common import unread_helper
    uh = unread_helper(*[e.guard for e in apps], *[v for e in apps for g, v in cases_of(e.args[0]) if not is_element_of(v, knees)])
    if uh:
        raise AnalysisError(f"filter_clusters[{mode}]: what is appended, or when, is decided by {uh}, a private helper whose body could not be read at this call - shape not recognised")
    lo_n, hi_n = count_true([e.guard for e in apps])
    if hi_n > 1:
        res.violation("Q2" if mode != "hull" else "Q4", fi.module, fi.name, loop, f"[{mode}] up to {hi_n} knees are emitted for one cluster", str([str(e.guard)[:80] for e in apps]),
                      "at most one append per cluster", construct=f"appends per cluster {mode}")
        return
    # Q6 provenance
    prov = True
    for e in apps:
        for g, v in cases_of(e.args[0]):
            if g_sat(g_and(g, e.guard)) and not is_element_of(v, knees):
                prov = False
                res.violation("Q6", fi.module, fi.name, e.node, f"[{mode}] a value that is not an element of the knees argument is emitted", _short(v, 120),
                              "knees[clusters == i][...]", construct=f"provenance {mode}")
    if prov and mode == "linear":
        res.ok("Q6", "postprocessing.filter_clusters", "every emitted value is knees[clusters == i][idx]")
    if mode != "hull":
        if (lo_n, hi_n) == (1, 1):
            res.ok("Q2", tag, "exactly one knee emitted per cluster on every path")
        else:
            res.violation("Q2", fi.module, fi.name, loop, f"[{mode}] a cluster can end up with no representative (appends per cluster in [{lo_n}, {hi_n}])",
                          str([str(e.guard)[:100] for e in apps]), "exactly one append per cluster", construct=f"one per cluster {mode}")
        # Q3
        r = anf.opaque("call:knee_ranking.smooth_ranking", ev.to_rat(pts), members, ev.to_rat(Obj("enum", f"ClusterRanking.{mode}")), array=True, extra=("points", "knees", "t"))
        ranked = anf.opaque("call:knee_ranking.rank", r, array=True, extra=("array",))
        best_multi = _at(members, anf.opaque("argmax", ranked, array=False))
        best_single = _at(members, C(0))
        ok = True
        for e in apps:
            for g, v in cases_of(e.args[0]):
                for cond, want, what in ((multi, best_multi, "multi-member"), (g_not(multi), best_single, "single-member")):
                    gg = g_and(g, e.guard, cond)
                    if not g_sat(gg):
                        continue
                    if not (isinstance(v, Rat) and v.equals(want)):
                        ok = False
                        res.violation("Q3", fi.module, fi.name, e.node,
                                      f"[{mode}] the representative of a {what} cluster is not " + ("the member with the maximal rank of smooth_ranking(points, members, method)"
                                                                                                   if what == "multi-member" else "its only member"),
                                      _short(v, 200), _short(want, 200), construct=f"representative {what} {mode}")
        if ok:
            res.ok("Q3", tag, "members[argmax(rank(smooth_ranking(points, members, method)))] / members[0]")
    else:
        res.ok("Q4", tag, f"at most one knee per cluster (appends per cluster in [{lo_n}, {hi_n}])")
        # single member: kept iff in hull
        hl_ = [v for v in env.values() if isinstance(v, Rat) and single_atom(v) is not None and single_atom(v).name.startswith("call:convex_hull.")]
        hull = hl_[0] if len(hl_) == 1 else None
        if not isinstance(hull, Rat):
            raise AnalysisError("filter_clusters[hull]: hull not computed before the loop")
        ha = single_atom(hull)
        if ha is None or ha.name != "call:convex_hull.graham_scan_lower" or not ha.args[0].equals(ev.to_rat(pts)):
            res.violation("Q4", fi.module, fi.name, fi.node, "hull mode does not rank against the lower convex hull of the curve", _short(hull), "ch.graham_scan_lower(points)",
                          construct="hull source")
        single = g_not(multi)
        from ..gvn import vkey
        inhull = G("atom", ("in", vkey(_at(members, C(0))), vkey(hull)))
        g_app = g_or(*[e.guard for e in apps]) if apps else FALSE
        if g_equiv(g_and(g_app, single), g_and(single, inhull)):
            res.ok("Q4", f"{tag}:single", "a single-member cluster is represented iff its member is a lower-hull index")
        else:
            res.violation("Q4", fi.module, fi.name, loop, "[hull] a single-member cluster is not kept exactly when its member is a lower-hull index",
                          _short(g_and(g_app, single), 200), _short(g_and(single, inhull), 200), construct="hull single member")
        # multi-member with an empty span: nothing emitted
        a_, b_ = _at(members, C(0)), _at(members, C(-1))
        span = g_and(compare(">=", hull, a_), compare("<=", hull, b_))
        hwc = anf.opaque("mask", hull, anf.opaque("bool", extra=repr(span.key)), array=True)
        nh = ev.length_of(hwc)
        empty = g_and(g_not(canon_sign(nh - C(1), OPS[">"])), g_not(canon_sign(nh - C(1), OPS["=="])))
        if not g_sat(g_and(g_app, multi, empty)):
            res.ok("Q4", f"{tag}:empty-span", "a multi-member cluster whose index span contains no hull point is not represented")
        else:
            res.violation("Q4", fi.module, fi.name, loop, "[hull] a multi-member cluster whose span [first, last] contains no lower-hull index can still be represented",
                          _short(g_and(g_app, multi, empty), 200), "no append", construct="hull empty span")


def _single_emission_loop(fi) -> bool:
    """The function has the direct form the loop readers take apart: one loop, no comprehension, the list it fills returned."""
    n = 0
    for x in ast.walk(fi.node):
        if isinstance(x, (ast.For, ast.While)):
            n += 1
        if isinstance(x, (ast.ListComp, ast.GeneratorExp, ast.SetComp, ast.DictComp)):
            return False
    return n == 1


def _corners_by_value(rc: RuleCtx):
    """The corner variant decided on the array it returns (loops summarised, helpers read through): its length is the number of
    clusters and its element at position j is members_j[argmax(rank_corners_triangle(points, members_j))]."""
    from .. import elem
    res = rc.res
    fi = rc.func("postprocessing.filter_clusters_corners")
    ev = rc.new_eval()
    ev.no_inline |= {"postprocessing.rank_corners_triangle"}
    ev.summarise_loops = True
    pts = ev.point("points", True)
    knees = ev.symbol("knees", True)
    ev.len_map = {"points": sym("n"), "knees": sym("K")}
    args = {"points": pts, "knees": knees, "clustering": ev.symbol("clustering"), "t": ev.symbol("t")}
    try:
        out = ev.eval_function(fi, args)
        val = out.value()
    except Unsupported as e:
        raise AnalysisError(f"{fi.qualname}: not a single emission loop, and not read by value either: {e}")
    from .common import stray_stores, unread_helper
    if stray_stores(out):
        raise AnalysisError(f"{fi.qualname}: the result is filled by stores the evaluation does not turn into values ({stray_stores(out)}) - shape not recognised")
    kp = Vec([anf.opaque("take", c, knees, array=True) for c in pts.items], "point")
    clusters = anf.opaque("slot:clustering", ev.to_rat(kp), ev.to_rat(args["t"]), array=True)
    j = sym("j")
    anf.declare_integer(j)
    cases = [(g_, v_) for g_, v_ in cases_of(val) if g_sat(g_)]
    # early exits that return the input itself are the short-input clause (Q2 / C13), not the selection
    cases = [(g_, v_) for g_, v_ in cases if not (isinstance(v_, Rat) and v_.equals(knees))]
    if len(cases) != 1:
        raise AnalysisError(f"{fi.qualname}: the returned array depends on a condition ({len(cases)} cases) - shape not recognised")
    val = cases[0][1]
    uh = unread_helper(val)
    if uh:
        raise AnalysisError(f"{fi.qualname}: the returned array depends on {uh}, a private helper whose body could not be read - shape not recognised")
    from ..seqdom import Gen, flatten, var_symbol
    if isinstance(val, Vec) and val.kind == "list":
        blocks = flatten(val.items)
        if len(blocks) == 1 and isinstance(blocks[0], Gen) and blocks[0].ranged:
            j = var_symbol(blocks[0].depth)      # conditions kept as text inside a mask mention the block's own variable
    try:
        got, ln = elem.element_of_value(ev, val, j)
    except elem.NoElement as e:
        raise AnalysisError(f"{fi.qualname}: no element view of the returned array: {e}")
    members = anf.opaque("mask", knees, anf.opaque("bool", extra=repr(compare("==", clusters, j).key)), array=True)
    ranks = anf.opaque("call:postprocessing.rank_corners_triangle", ev.to_rat(pts), members, array=True, extra=("points", "knees"))
    want = _at(members, anf.opaque("argmax", ranks, array=False))
    want_len = anf.opaque("amax", clusters, array=False) + C(1)
    if not (isinstance(ln, Rat) and ln.equals(want_len)):
        res.violation("Q5", fi.module, fi.name, fi.node, "corner variant: the clusters 0..max(labels) are not all represented once", _short(ln), _short(want_len),
                      construct="corner cluster range")
        return
    if isinstance(got, Rat) and got.equals(want):
        res.ok("Q5", fi.qualname, "by value: element j of the result is members_j[argmax(rank_corners_triangle(points, members_j))], one per cluster")
        res.ok("Q6", fi.qualname, "emitted value is an element of the knees argument")
    else:
        res.violation("Q5", fi.module, fi.name, fi.node, "corner variant: a cluster is not represented by exactly the member maximising the corner-triangle score",
                      _short(got, 200), _short(want, 200), construct="corner representative")


def _corners(rc: RuleCtx):
    res = rc.res
    if not _single_emission_loop(rc.func("postprocessing.filter_clusters_corners")):
        return _corners_by_value(rc)
    fi, ev, env, loop, post, fr = _setup(rc, "postprocessing.filter_clusters_corners", None)
    knees, pts = env["knees"], env["points"]
    cl_ = [v for v in env.values() if isinstance(v, Rat) and single_atom(v) is not None and single_atom(v).name.startswith("slot:")]
    clusters = cl_[0] if len(cl_) == 1 else None
    ra = range_args(loop)
    lo = fr.expr(ra[0], env) if ra and len(ra) == 2 else (C(0) if ra and len(ra) == 1 else None)
    hi = fr.expr(ra[-1], env) if ra else None
    if clusters is None or not ra:
        # the labels are computed, or the clusters listed, somewhere else (a helper, np.split, a comprehension): by value
        return _corners_by_value(rc)
    if not (isinstance(clusters, Rat) and isinstance(lo, Rat) and lo.is_zero() and isinstance(hi, Rat) and hi.equals(anf.opaque("amax", clusters, array=False) + C(1))):
        res.violation("Q5", fi.module, fi.name, loop, "corner variant: the clusters 0..max(labels) are not all visited once", ast.unparse(loop.iter), "range(0, clusters.max()+1)",
                      construct="corner cluster range")
        return
    i = ev.symbol(loop.target.id)
    benv = dict(env)
    benv[loop.target.id] = i
    L = [n for n, v in env.items() if isinstance(v, Vec) and v.kind == "list"][0]
    benv[L] = ev.symbol(L + "@list")
    from .common import carry
    carry(ev, loop, env, benv)
    out = ev.eval_loop_body(fi, loop, benv)
    apps = [e for e in out.events if e.kind == "append" and e.target == L]
    members = anf.opaque("mask", knees, anf.opaque("bool", extra=repr(compare("==", clusters, i).key)), array=True)
    ranks = anf.opaque("call:postprocessing.rank_corners_triangle", ev.to_rat(pts), members, array=True, extra=("points", "knees"))
    want = _at(members, anf.opaque("argmax", ranks, array=False))
    if len(apps) == 1 and apps[0].guard.kind == "true" and isinstance(apps[0].args[0], Rat) and apps[0].args[0].equals(want):
        res.ok("Q5", fi.qualname, "one append per cluster: members[argmax(rank_corners_triangle(points, members))]")
        res.ok("Q6", fi.qualname, "emitted value is an element of the knees argument")
    else:
        res.violation("Q5", fi.module, fi.name, loop, "corner variant: a cluster is not represented by exactly the member maximising the corner-triangle score",
                      str([(str(e.guard)[:60], _short(e.args[0], 160)) for e in apps]), _short(want, 200), construct="corner representative")


def _corner_score(rc: RuleCtx):
    """The corner-triangle score, one per knee: 1/2 * (x[k] - x[k-1]) * (y[k] - y[k+1]) - the horizontal step into the
    knee times the vertical drop after it.  Decided by value on the element view of the returned array, so a
    per-knee loop and element-wise array arithmetic are the same thing."""
    from .. import elem
    from .common import judge
    res = rc.res
    fi = rc.func("postprocessing.rank_corners_triangle")
    ev = rc.new_eval()
    ev.summarise_loops = True
    pts = ev.point("points", True)
    knees = ev.symbol("knees", True)
    ev.len_map = {"points": sym("n"), "knees": sym("K")}
    try:
        out = ev.eval_function(fi, {"points": pts, "knees": knees})
        val = out.value()
    except Unsupported as e:
        raise AnalysisError(f"{fi.qualname}: not modelled: {e}")
    from .common import stray_stores
    if stray_stores(out):
        raise AnalysisError(f"{fi.qualname}: the score array is filled by stores the evaluation does not turn into values ({stray_stores(out)}) - shape not recognised")
    j = sym("j")
    anf.declare_integer(j)
    if isinstance(val, PW):
        # an early exit with an empty array when there is no knee at all is the same array (no score to compute)
        rest = []
        for g_, v_ in val.cases:
            a_ = single_atom(v_) if isinstance(v_, Rat) else None
            empty_ = (isinstance(v_, Vec) and not v_.items) or (a_ is not None and a_.name in ("np.array", "np.empty", "np.zeros") and (not a_.args or a_.args[0].is_zero()))
            if empty_ and (g_implies(g_, canon_sign(sym("K"), OPS["=="])) or g_implies(g_, canon_sign(sym("K") - C(1), OPS["<"]))):
                continue
            rest.append((g_, v_))
        if len(rest) == 1:
            val = rest[0][1]
    if isinstance(val, PW):
        raise AnalysisError(f"{fi.qualname}: the score array depends on a condition - shape not recognised")
    try:
        got, ln = elem.element_of_value(ev, val, j)
    except elem.NoElement as e:
        raise AnalysisError(f"{fi.qualname}: {e}")
    x, y = pts.items
    kj = _at(knees, j)
    want = C(1) / C(2) * (_at(x, kj) - _at(x, kj - C(1))) * (_at(y, kj) - _at(y, kj + C(1)))
    if not ln.equals(sym("K")):
        res.violation("Q5", fi.module, fi.name, fi.node, "the corner-triangle scores are not one per knee", f"{_short(ln, 80)} scores", "len(knees) scores",
                      construct="corner score count")
        return
    verdict, why = judge(got, want)
    if verdict == "equal":
        res.ok("Q5", fi.qualname, "score[j] == 1/2 * (x[k_j] - x[k_j - 1]) * (y[k_j] - y[k_j + 1]), one score per knee")
    elif verdict == "inconclusive":
        raise AnalysisError(f"INCONCLUSIVE Q5 {fi.qualname}: {why}")
    else:
        res.violation("Q5", fi.module, fi.name, fi.node, "the corner-triangle score of a knee is not half the step into the knee times the drop after it",
                      _short(got, 220), _short(want, 220), construct="corner score")


def _smooth_ranking(rc: RuleCtx):
    """fit x weight: weights |peak - y_k| normalised by their sum when non-zero; fit from lf.r2 per mode."""
    res = rc.res
    fi = rc.func("knee_ranking.smooth_ranking")
    for mode in ("left", "linear", "right"):
        ev = rc.new_eval()
        ev.no_inline |= {"linear_fit.r2"}
        pts = ev.point("points", True)
        knees = ev.symbol("knees", True)
        ev.len_map = {"points": sym("n"), "knees": sym("K")}
        env = {"points": pts, "knees": knees, "t": Obj("enum", f"ClusterRanking.{mode}")}
        pre, loop, post = split_at_loop(fi, kind=(ast.For,))
        fr = Frame(ev, fi, 0)
        fr.block(pre, env, TRUE)
        x, y = pts.items
        from .common import bind_loop
        b_ = bind_loop(ev, fr, loop, env)
        if b_ is None:
            raise AnalysisError("knee_ranking.smooth_ranking: loop header has no recognised shape")
        i = b_.idx
        benv = dict(env)
        benv.update(b_.bindings)
        for n, v in list(benv.items()):
            if isinstance(v, Vec) and v.kind == "list":
                benv[n] = ev.symbol(n + "@list")
        from .common import carry
        carry(ev, loop, env, benv)
        out = ev.eval_loop_body(fi, loop, benv)
        app_events = [e for e in out.events if e.kind == "append"]
        # a float array preallocated with np.zeros(len(knees)) and filled at the loop position collects the same values
        from ..gvn import Event as _Ev
        def _prealloc(v_):
            # np.zeros(len(knees)) (modelled as 0) or np.empty(len(knees)[, dtype=float]): one float slot per knee
            if isinstance(v_, Rat) and v_.is_zero():
                return True
            a_ = single_atom(v_) if isinstance(v_, Rat) else None
            return a_ is not None and a_.name in ("np.empty", "np.zeros") and len(a_.args) >= 1 and a_.args[0].equals(sym("K"))
        for e_ in out.events:
            if e_.kind == "store" and len(e_.args) == 2 and isinstance(e_.args[0], Rat) and e_.args[0].equals(b_.idx) and b_.lo.is_zero() \
                    and _prealloc(env.get(e_.target)):
                app_events.append(_Ev(e_.guard, "append", e_.target, (e_.args[1],), e_.node))
        # values read through a hoisted column (heights = y[knees]; heights[i]) are the same elements: y[knees][i] == y[knees[i]]
        from .. import elem as _elem
        app_events = [_Ev(e_.guard, e_.kind, e_.target, tuple(_elem.simplify(a_) if isinstance(a_, Rat) else a_ for a_ in e_.args), e_.node) for e_ in app_events]
        ki = _at(knees, i)
        j = _at(knees, C(0))
        klast = _at(knees, C(-1))

        def r2(lo, hi):
            xs = anf.opaque("slice", x, lo, hi, array=True)
            ys = anf.opaque("slice", y, lo, hi, array=True)
            return anf.opaque("call:linear_fit.r2", xs, ys, array=True, extra=("x", "y"))
        left = r2(j, ki + C(1))
        right = r2(ki, klast)
        want_fit = {"left": left, "right": right, "linear": (left + right) / C(2)}[mode]
        peak = anf.opaque("amax", anf.opaque("take", y, knees, array=True), array=False)
        want_w = anf.f_abs(peak - _at(y, ki))
        # roles: the list that receives the R2 fit and the list that receives the height weight
        fit_e = [e for e in app_events if isinstance(e.args[0], Rat) and any(a.name == "call:linear_fit.r2" for a in e.args[0].all_atoms())]
        w_e = [e for e in app_events if e not in fit_e]
        ok = len(fit_e) == 1 and len(w_e) == 1 and fit_e[0].args[0].equals(want_fit) and isinstance(w_e[0].args[0], Rat) and w_e[0].args[0].equals(want_w) \
            and fit_e[0].guard.kind == "true" and w_e[0].guard.kind == "true"
        vec_w = None
        if not w_e and len(fit_e) == 1:
            # the weights computed for all knees at once, before the loop: |peak - y[knees]|
            want_w_all = anf.f_abs(peak - anf.opaque("take", y, knees, array=True))
            for nme_, v_ in env.items():
                if isinstance(v_, Rat) and v_.is_array() and v_.equals(want_w_all):
                    vec_w = nme_
            if vec_w is not None:
                ok = fit_e[0].args[0].equals(want_fit) and fit_e[0].guard.kind == "true"
        if not fit_e and not w_e:
            raise AnalysisError(f"knee_ranking.smooth_ranking[{mode}]: the per-knee fit and weight are not collected by appends - shape not recognised")
        apps = {"fit": fit_e[0] if fit_e else None, "weights": w_e[0] if w_e else None}
        fname_, wname_ = (fit_e[0].target if fit_e else "fit"), (w_e[0].target if w_e else (vec_w or "weights"))
        rng_ok = b_.visits(0, sym("K"))
        # tail: weights normalised by their sum when non-zero; rankings = fit * weights
        ev.len_map.update({"fit!": sym("K"), "weights!": sym("K")})
        fr2 = Frame(ev, fi, 0)
        F, W = ev.symbol("fit!", True), ev.symbol("weights!", True)
        penv = {fname_: F, wname_: W}
        fr2.block(post, penv, TRUE)
        val = mk_pw(fr2.returns)
        from .common import account_returns
        account_returns(fi)         # (the value returned after the loop is compared with the reference just below)
        S = anf.f_sum(W, sym("K"))
        nz = canon_sign(S, OPS["!="])
        want = mk_pw([(nz, F * W / S), (g_not(nz), F * W)])
        tail_ok = veq(val, want)
        if ok and rng_ok and tail_ok:
            res.ok("Q3", f"knee_ranking.smooth_ranking[{mode}]", "score == fit(mode) * |peak - y_k| / sum(weights) (un-normalised when the sum is 0)")
        else:
            res.violation("Q3", fi.module, fi.name, fi.node,
                          f"[{mode}] the ranking score is not (R2 fit of the side(s) selected by the mode) x (relative height |peak - y_k| / sum)",
                          f"fit {_short(apps['fit'].args[0], 120) if apps['fit'] else None}; weight {_short(apps['weights'].args[0], 80) if apps['weights'] else None}; final {_short(val, 120)}",
                          f"fit {_short(want_fit, 120)}; weight {_short(want_w, 80)}; final {_short(want, 120)}", construct=f"smooth ranking {mode}")


def _q7(rc: RuleCtx):
    res = rc.res
    mod = rc.repo.mod("convex_hull")
    fi = rc.func("convex_hull.graham_scan_lower")
    errs = []
    todo, seen = [fi], set()
    while todo:
        f = todo.pop()
        if f.qualname in seen:
            continue
        seen.add(f.qualname)
        for node in ast.walk(f.node):
            if isinstance(node, (ast.Name, ast.Attribute)) and isinstance(getattr(node, "ctx", None), ast.Load):
                r = rc.lk.resolve(f.module, node)
                if r.kind == "error" and (r.at is node or r.at is None):
                    errs.append((f, node, r))
                elif r.kind == "func":
                    todo.append(r.obj)
    if errs:
        for f, node, r in errs:
            res.violation("Q7", f.module, f.name, node, f"hull ranking cannot run: {r.extra}: {r.msg}", ast.unparse(node), "a name that resolves")
    else:
        res.ok("Q7", "convex_hull.graham_scan_lower", f"{len(seen)} function(s) reachable from the hull ranking resolve")
