"""C19 -- knee-evaluation scores obey their accounting identities.

S1  per expected point exactly one of tp += 1 / fn += 1; tp += 1 co-occurs with
    used.append(idx) under `idx not in used`            => TP + FN = |E|, TP <= |K|
S2  fp == max(|K| - tp, 0), tn == n - (tp + fp + fn)    => entries sum to n (identity)
S3  match test |x_k - x_e| / |max x - min x| {<=,<} t at the argmin
S4  accuracy / f1score / mcc formulas on the [[tp, fp], [fn, tn]] layout cm() returns
S5  rmse == sqrt(mse(same arguments))
S6  mae / mse / rmspe: nearest neighbour by Euclidean argmin, error terms, divisor 2*len(a)
S7  the Strategy -> (a, b) decision tables of mae / mse / rmspe agree and are the stated ones
"""

from __future__ import annotations

import ast
from fractions import Fraction

from .. import AnalysisError, anf
from ..anf import Rat, sym
from ..guards import (G, TRUE, FALSE, g_and, g_not, g_or, g_equiv, g_implies, g_sat, g_disjoint, compare, canon_sign, OPS,
                      count_true, g_vars)
from ..gvn import Frame, Obj, PW, Vec, cases_of, veq, mk_pw, Unsupported, vkey
from .common import section, RuleCtx, _short, split_at_loop, stored_names, sign_set_name
from ..intervals import single_atom

C = Rat.const


def run(ctx):
    rc = RuleCtx(ctx)
    res = ctx.result
    res.level = "proof"
    for k, v in {"S1": "exactly one of tp += 1 / fn += 1 per expected point; tp += 1 iff a not-yet-used knee is claimed",
                 "S2": "fp == max(len(knees) - tp, 0); tn == len(points) - (tp + fp + fn); matrix layout [[tp, fp], [fn, tn]]",
                 "S3": "match test: |x_knee - x_expected| / |max x - min x| at the argmin, comparator in {<=, <} against t",
                 "S4": "accuracy == (tp+tn)/(tp+tn+fp+fn); f1 == 2tp/(2tp+fp+fn); mcc == (tp*tn - fp*fn)/sqrt((tp+fp)(tp+fn)(tn+fp)(tn+fn))",
                 "S5": "rmse == sqrt(mse(points, knees, expected, s))",
                 "S6": "nearest neighbour = argmin of Euclidean distance; mae sums |p-q|, mse (p-q)^2, rmspe (p-q)/(p+eps); divisor 2*len(a)",
                 "S7": "Strategy tables: knees -> (K,E); expected -> (E,K); best -> shorter side iterates; worst -> longer side iterates; identical in mae/mse/rmspe"}.items():
        res.rule(k, v)
    res.rule("S-dtype", "no score function stores a per-point error into an array that inherits the dtype of one of its arguments (integer knees / expected points would truncate it)")
    from . import detectors as _d
    _d.dtype_guard(rc, "S-dtype", ["evaluation"])
    section(rc, _cm)
    section(rc, _scores)
    section(rc, _errors)
    res.assumptions += ["real-number reading", "numpy reductions per kverif.npmodel", "argmin returns an index of the minimum"]
    res.not_decided += ["ranges [0,1] / [-1,1] (corollaries of S1-S4)", "greedy-order semantics beyond S1/S3"]
    from .common import hidden_state as _hidden_state
    _hidden_state(rc, "S8", ['evaluation.cm', 'evaluation.mae', 'evaluation.mse', 'evaluation.rmse', 'evaluation.rmspe', 'evaluation.accuracy', 'evaluation.f1score', 'evaluation.mcc'], "the evaluation scores")
    res.require_instances("C19 obligations", len(res.obligations), 20)


# --------------------------------------------------------------------------
def _cm(rc: RuleCtx):
    res = rc.res
    fi = rc.func("evaluation.cm")
    mod = fi.module
    ev = rc.new_eval()
    pts = ev.point("points", True)
    exp = ev.point("expected", True)
    knees = ev.symbol("knees", True)
    t = ev.symbol("t")
    ev.len_map = {"points": sym("n"), "knees": sym("K"), "expected": sym("E")}
    pre, loop, post = split_at_loop(fi)
    fr = Frame(ev, fi, 0)
    env = {"points": pts, "expected": exp, "knees": knees, "t": t}
    try:
        fr.block(pre, env, TRUE)
    except Unsupported as e:
        raise AnalysisError(f"evaluation.cm: pre-loop code not modelled: {e}")
    if not isinstance(loop, ast.For):
        raise AnalysisError("evaluation.cm: matching loop is not a for loop")
    # loop iterates the expected points once each
    it = fr.expr(loop.iter, env)
    if isinstance(it, Vec) and veq(it, exp):
        res.ok("S1", "evaluation.cm:iter", "one iteration per expected point, in order")
    else:
        res.violation("S1", mod, fi.name, loop, "the matching loop does not iterate over the expected points", ast.unparse(loop.iter),
                      "expected", construct="cm loop iter")
        return
    counters = [n for n in stored_names(ast.Module(body=loop.body, type_ignores=[])) if isinstance(env.get(n), Rat) and env[n].is_zero()]
    benv = dict(env)
    tgt = loop.target
    names = [e.id for e in (tgt.elts if isinstance(tgt, ast.Tuple) else [tgt])]
    ex = ev.symbol("e.x")
    benv[names[0]] = ex
    for n in names[1:]:
        benv[n] = ev.symbol("e.y")
    lists = [n for n, v in env.items() if isinstance(v, Vec) and v.kind == "list" and not v.items]
    for n in counters:
        benv[n] = ev.symbol(n)
    for n in lists:
        benv[n] = ev.symbol(n + "@list")
    from .common import carry
    carry(ev, loop, env, benv)
    out = ev.eval_loop_body(fi, loop, benv)
    if out.breaks or out.returns:
        raise AnalysisError("evaluation.cm: break / return inside the matching loop")
    augs = [e for e in out.events if e.kind == "aug"]
    # identify tp / fn by the returned matrix layout (post-loop)
    penv = dict(out.env)
    for n in counters:
        penv[n] = ev.symbol(n)       # totals after the loop
    for k, v in env.items():
        penv.setdefault(k, v)
    fr2 = Frame(ev, fi, 0)
    fr2.block(post, penv, TRUE)
    if len(fr2.returns) != 1:
        raise AnalysisError("evaluation.cm: expected exactly one return")
    m = fr2.returns[0][1]
    if not (isinstance(m, Vec) and len(m.items) == 2 and all(isinstance(r, Vec) and len(r.items) == 2 for r in m.items)):
        raise AnalysisError("evaluation.cm: returned value is not a 2x2 matrix display")
    (v_tp, v_fp), (v_fn, v_tn) = m.items[0].items, m.items[1].items
    # the two loop counters: how each zero-initialised counter changes over one iteration (any equivalent spelling
    # of `c += 1`)
    inc = {}
    for cname in counters:
        new = out.env.get(cname)
        for g, v in cases_of(new):
            if not isinstance(v, Rat):
                continue
            d = v.sub(sym(cname)).is_const()
            if d == 1:
                inc.setdefault(cname, []).append(g)
            elif d != 0 and g_sat(g):
                res.violation("S1", mod, fi.name, loop, f"counter {cname} changes by {v.sub(sym(cname))} in one iteration instead of 0 or 1",
                              construct="cm counter update")
    tp_names = [n for n in inc if isinstance(v_tp, Rat) and v_tp.equals(sym(n))]
    fn_names = [n for n in inc if isinstance(v_fn, Rat) and v_fn.equals(sym(n))]
    derived_fn = len(tp_names) == 1 and not fn_names and set(inc) == {tp_names[0]} and isinstance(v_fn, Rat) and v_fn.equals(sym("E") - sym(tp_names[0]))
    if derived_fn:
        # fn is not counted but computed as len(expected) - tp after the loop: TP + FN = |E| by construction
        pass
    elif len(tp_names) != 1 or len(fn_names) != 1 or set(inc) != {tp_names[0], fn_names[0]}:
        res.violation("S1", mod, fi.name, loop,
                      "the matrix entries [0][0] and [1][0] are not the two counters incremented in the matching loop",
                      f"counters {sorted(inc)}, matrix {m}", "[[tp, fp], [fn, tn]] with tp, fn counted in the loop", construct="cm counters")
        return
    tp = tp_names[0]
    g_tp = g_or(*inc[tp])
    if derived_fn:
        fn, g_fn = None, g_not(g_tp)
        lo, hi = count_true(inc[tp])
        if hi <= 1:
            res.ok("S1", "evaluation.cm:one-count", f"tp is incremented at most once per expected point ({g_tp}); fn = |E| - tp => TP + FN = |E|")
        else:
            res.violation("S1", mod, fi.name, loop, f"per expected point tp can be incremented {hi} times", f"tp when {g_tp}", "at most one tp += 1", construct="cm one count")
        lo, hi = 1, 1
    else:
        fn = fn_names[0]
        g_fn = g_or(*inc[fn])
        lo, hi = count_true(inc[tp] + inc[fn])
    if derived_fn:
        pass
    elif (lo, hi) == (1, 1):
        res.ok("S1", "evaluation.cm:one-count", f"guards {g_tp} / {g_fn} partition every iteration => TP + FN = |E|")
    else:
        res.violation("S1", mod, fi.name, loop, f"per expected point the number of tp/fn increments ranges over [{lo}, {hi}], not exactly 1",
                      f"tp when {g_tp}; fn when {g_fn}", "exactly one of tp += 1 / fn += 1", construct="cm one count")
    # tp co-occurs with used.append(idx) under idx not in used
    apps = [e for e in out.events if e.kind in ("append", "add")]          # the claimed knees: a list or a set
    used_ok = False
    used_notin = None
    for e in apps:
        idx = e.args[0]
        live_ = [v_ for g_, v_ in cases_of(idx) if g_sat(g_and(g_, e.guard))]
        if len(live_) == 1:
            idx = live_[0]              # (a value-or-None helper result: the value on the paths where the claim happens)
        if g_equiv(e.guard, g_tp) and isinstance(idx, Rat):
            notin = g_not(G("atom", ("in", idx.key, vkey(benv[e.target])))) if e.target in benv else None
            if notin is not None and g_implies(g_tp, notin):
                used_ok = True
                used_idx = idx
                used_notin = notin
    if not used_ok:
        # the claimed knees kept as one flag per knee: `used = np.zeros(K, dtype=bool)`, tested by `used[idx]`, claimed by `used[idx] = True`
        fr_ = Frame(ev, fi, 0)
        for e in out.events:
            if e.kind != "store" or len(e.args) != 2 or e.target not in env:
                continue
            idx, val_ = e.args
            init = env[e.target]
            if not (isinstance(init, Rat) and init.is_zero() and isinstance(idx, Rat) and fr_.truth(val_).kind == "true"):
                continue
            try:
                flag = fr_.truth(fr_._sub_value(benv[e.target], idx))
            except Unsupported:
                continue
            resets = [o for o in out.events if o.target == e.target and o is not e and o.kind not in ("load",)]
            if g_equiv(e.guard, g_tp) and g_implies(g_tp, g_not(flag)) and not resets:
                used_ok = True
                used_idx = idx
                used_notin = g_not(flag)
    used_idx_raw = used_idx if used_ok else None
    if used_ok and used_idx is not None:
        # claimed by curve index knees[j] instead of by position j: the same claim for a knee list without repeated entries
        a_ = single_atom(used_idx)
        if a_ is not None and a_.name == "at" and len(a_.args) == 2 and a_.args[0].equals(knees):
            used_idx = a_.args[1]
            if "the knee indices are distinct (a knee claimed by its curve index is a knee claimed by its position)" not in res.assumptions:
                res.assumptions.append("the knee indices are distinct (a knee claimed by its curve index is a knee claimed by its position)")
    if used_ok:
        res.ok("S1", "evaluation.cm:one-to-one", "tp += 1 only for a knee not in the used list, which then receives it => TP <= |K|")
    else:
        res.violation("S1", mod, fi.name, loop, "a true positive is not tied to claiming a not-yet-used knee (append of the matched index under `idx not in used`)",
                      str([(str(e.guard), str(e.args)) for e in apps]), "used.append(idx) iff tp += 1, guarded by idx not in used", construct="cm used list")
        used_idx = None
    # S3 match test
    px = pts.items[0]
    kx = anf.opaque("take", px, knees, array=True)
    dx = anf.f_abs(anf.opaque("amax", px, array=False) - anf.opaque("amin", px, array=False))
    D = anf.f_abs(kx - ex) / dx
    am = anf.opaque("argmin", D, array=False)
    d_at = anf.opaque("at", D, am, array=False)
    signs = _sign_fact(g_tp, d_at - t)
    if signs is None and used_idx is not None:
        # the same quantity read at the code's own (equivalent) argmin expression
        signs = _sign_fact(g_tp, anf.opaque("at", D, used_idx, array=False) - t)
    if used_idx is not None and not _same_argmin(used_idx, D):
        res.violation("S3", mod, fi.name, loop, "the claimed knee is not the argmin of the normalised x distance", _short(used_idx), _short(am),
                      construct="cm argmin")
    elif signs is None:
        res.violation("S3", mod, fi.name, loop,
                      "the match test does not compare |x_knee - x_expected| / |max x - min x| at the nearest knee against t",
                      str(g_tp), f"sign({_short(d_at - t, 80)}) in {{<=}} or {{<}}", construct="cm match quantity")
    elif signs in (OPS["<="], OPS["<"]):
        res.ok("S3", "evaluation.cm:match", f"nearest knee within t: comparator {sign_set_name(signs)}")
        res.sample({"function": "evaluation.cm", "tp_guard": str(g_tp)})
        # ... and nothing else decides a match: tp exactly when the nearest knee is within t and not yet claimed
        within = [q_ for q_ in (d_at - t, (anf.opaque("at", D, used_idx_raw, array=False) - t) if used_idx_raw is not None else None)
                  if q_ is not None and _sign_fact(g_tp, q_) is not None]
        extra = used_ok and used_notin is not None and within and not g_equiv(g_tp, g_and(canon_sign(within[0], signs), used_notin))
        if extra and used_ok:
            res.violation("S1", mod, fi.name, loop,
                          "a true positive needs more than 'the nearest knee is within t and not yet claimed': an expected point with a free knee in reach can be counted as a miss",
                          _short(g_tp, 300), "tp iff distance <= t and the knee is not yet used", construct="cm extra condition")
        elif used_ok:
            res.ok("S1", "evaluation.cm:exact", "tp exactly when the nearest knee is within t and not yet claimed (no further condition)")
    else:
        res.violation("S3", mod, fi.name, loop, f"match comparator accepts signs {sign_set_name(signs)}; 'within t' needs <= or <",
                      sign_set_name(signs), "<= or <", construct="cm match comparator")
    # S2 identities
    K, n = sym("K"), sym("n")
    want_fp = anf.f_minmax("max", [K - sym(tp), C(0)])
    ok2 = True
    if not (isinstance(v_fp, Rat) and v_fp.equals(want_fp)):
        ok2 = False
        res.violation("S2", mod, fi.name, fi.node, "fp is not max(len(knees) - tp, 0)", _short(v_fp), _short(want_fp), construct="cm fp")
    if not (isinstance(v_tn, Rat) and all(isinstance(x, Rat) for x in (v_tp, v_fp, v_fn)) and (v_tp + v_fp + v_fn + v_tn).equals(n)):
        ok2 = False
        res.violation("S2", mod, fi.name, fi.node, "tp + fp + fn + tn is not len(points)", _short(v_tn), "len(points) - (tp + fp + fn)",
                      construct="cm tn")
    if ok2:
        res.ok("S2", "evaluation.cm", "fp == max(|K| - tp, 0); tp + fp + fn + tn == len(points) (identity)")


def _same_argmin(idx: Rat, D: Rat) -> bool:
    """idx is argmin(X) with X a positive scalar multiple of D (same minimiser)."""
    ats = idx.atoms()
    if len(ats) != 1 or not idx.equals(Rat.from_atom(ats[0])) or ats[0].name != "argmin":
        return False
    X = ats[0].args[0]
    if X.equals(D):
        return True
    if D.is_zero():
        return False
    q = X.div(D)
    return (not q.is_array()) and q.is_nonneg() and not q.is_zero()


def _sign_fact(g: G, quantity: Rat):
    """The sign set that `g` requires of `quantity`, when g is a conjunction containing such a fact."""
    want = canon_sign(quantity, OPS["<"])
    if want.kind != "sign":
        return None
    flip = not want.a.equals(quantity)
    items = g.a if g.kind == "and" else (g,)
    for x in items:
        if x.kind == "sign" and x.a.equals(want.a):
            return frozenset(-s for s in x.b) if flip else x.b
    return None


# --------------------------------------------------------------------------
def _divisors_nonzero(rc: RuleCtx, fi, name: str, divisions, counts, facts):
    """The normal form of a quotient cancels common factors (2PR/(P+R) with P = tp/(tp+fp), R = tp/(tp+fn) *is*
    2tp/(2tp+fp+fn) as a rational function) - but the code divides by P+R, which is 0 for tp = 0.  Every divisor the code
    evaluates must be non-zero on the whole domain: proved when (numerator of the divisor) - (a quantity known to be >= 1)
    has only non-negative terms in the counts; refuted by a small table of counts on which the divisor vanishes."""
    import itertools
    from ..seqdom import g_subst
    res = rc.res
    added = [k for k in counts if k not in anf.NONNEG_SYMS]
    anf.NONNEG_SYMS.update(added)
    try:
        _divisors_nonzero_(rc, fi, name, divisions, counts, facts)
    finally:
        for k in added:
            anf.NONNEG_SYMS.discard(k)


def _divisors_nonzero_(rc: RuleCtx, fi, name: str, divisions, counts, facts):
    import itertools
    from ..seqdom import g_subst
    res = rc.res
    for guard, d, node in divisions:
        if d.is_const() is not None and not d.is_zero():
            continue
        if set(d.symbols()) - set(counts):
            raise AnalysisError(f"evaluation.{name}: a divisor mentions something other than the four counts ({_short(d, 80)}) - shape not recognised")
        num = Rat(dict(d.num))
        den = Rat(dict(d.den))
        if not d.is_zero() and den.sub(C(0)).is_nonneg() and any(num.sub(f.mul(den)).is_nonneg() or num.sub(f).is_nonneg() for f in facts) and guard.kind == "true":
            res.ok("S4", f"evaluation.{name}:divisor", f"the divisor {_short(d, 60)} is >= 1 on the domain (non-empty K and E)")
            continue
        witness = None
        for vals in itertools.product((0, 1, 2), repeat=4):
            m = {k: C(v) for k, v in zip(counts, vals)}
            if any((f.subst(m).is_const() or 0) < 1 for f in facts):
                continue
            gg = g_subst(guard, m)
            if gg.kind == "false" or not g_sat(gg):
                continue
            try:
                dv = d.subst(m)
            except ZeroDivisionError:
                continue            # an inner division fails first: reported for that division
            if dv.is_zero():
                witness = dict(zip(counts, vals))
                break
        if witness is not None:
            res.violation("S4", fi.module, fi.name, node, f"{name} divides by {_short(d, 80)}, which is 0 for the confusion matrix {witness} (K and E non-empty): the score is "
                          "NaN / a ZeroDivisionError instead of a value in [0, 1]", _short(d, 120), "a divisor that is positive whenever K and E are non-empty",
                          construct=f"{name} divisor")
        elif guard.kind == "true" and not d.is_zero():
            raise AnalysisError(f"INCONCLUSIVE S4 evaluation.{name}: cannot prove the divisor {_short(d, 80)} non-zero on the domain")
        else:
            res.ok("S4", f"evaluation.{name}:divisor", f"the divisor {_short(d, 60)} is evaluated only where it is non-zero (no count table with non-empty K and E reaches it at 0)")


def _expect_score(rc: RuleCtx, fi, got, want: Rat, what: str, counts, facts):
    """expect_equal, with one more way for a special-cased path to agree with the formula: a case taken under `E == 0`
    agrees when (numerator of E) = (numerator of the difference) * q with q >= 1 on the domain - then E == 0 forces the
    difference to 0 (`if precision + recall == 0: return 0.0`: tp * (2tp + fp + fn) == 0 forces 2tp == 0)."""
    from ..guards import _unit_conjuncts
    from .common import judge
    cases = []
    added = [k for k in counts if k not in anf.NONNEG_SYMS]
    anf.NONNEG_SYMS.update(added)
    under = g_and(*[canon_sign(f, OPS[">"]) for f in facts])          # K and E are not empty
    try:
        for g, v in cases_of(got):
            if not g_sat(g_and(g, under)):
                continue
            if isinstance(v, Rat) and judge(v, want)[0] == "differs":
                diff = v.sub(want)
                D = Rat(dict(diff.num))
                all_forced = True
                for disj in (g.a if g.kind == "or" else (g,)):
                    if not g_sat(g_and(disj, under)):
                        continue
                    forced = False
                    for x in _unit_conjuncts(g_and(disj, under)):
                        if x.kind == "sign" and x.b == OPS["=="]:
                            P = Rat(dict(x.a.num))
                            try:
                                q = P.div(D)
                            except ZeroDivisionError:
                                continue
                            if q.den == {(): 1} and any(qq.sub(f).is_nonneg() or qq.mul(C(2)).sub(f).is_nonneg() for f in facts for qq in (q, q.neg())):
                                forced = True
                                break
                    all_forced = all_forced and forced
                if all_forced:
                    v = want
            cases.append((g, v))
    finally:
        for k in added:
            anf.NONNEG_SYMS.discard(k)
    rc.expect_equal("S4", fi, mk_pw(cases), want, what, under=under)


def _scores(rc: RuleCtx):
    res = rc.res
    ev = rc.new_eval()
    tp, fp, fn, tn = (ev.symbol(n) for n in ("tp", "fp", "fn", "tn"))
    cm = Vec([Vec([tp, fp]), Vec([fn, tn])])
    refs = {
        "accuracy": (tp + tn) / (tp + tn + fp + fn),
        "f1score": C(2) * tp / (C(2) * tp + fp + fn),
        "mcc": (tp * tn - fp * fn) / anf.f_sqrt((tp + fp) * (tp + fn) * (tn + fp) * (tn + fn)),
    }
    counts = {"tp": tp, "fp": fp, "fn": fn, "tn": tn}
    # the domain of the statement: entries are counts, E is not empty (tp + fn >= 1), K is not empty (tp + fp >= 1)
    facts = [tp + fn, tp + fp]
    ev.record_divisions = True
    for name, want in refs.items():
        ev.divisions = []
        fi, out = rc.eval_fn(f"evaluation.{name}", {"cm": cm})
        _expect_score(rc, fi, out.value(), want, f"{name}([[tp, fp], [fn, tn]])", counts, facts)
        if name != "mcc":        # (MCC is only claimed where its denominator is non-zero)
            _divisors_nonzero(rc, fi, name, ev.divisions, counts, facts)
    # S5
    ev = rc.new_eval()
    ev.no_inline.add("evaluation.mse")          # the claim is about the call, whatever mse looks like inside
    pts, exp = ev.point("points", True), ev.point("expected", True)
    knees, s = ev.symbol("knees", True), ev.symbol("s")
    fi, out = rc.eval_fn("evaluation.rmse", {"points": pts, "knees": knees, "expected": exp, "s": s})
    val = out.value()
    ok = False
    if isinstance(val, Rat):
        calls = [a for a in val.all_atoms() if a.kind == "fn" and a.name == "call:evaluation.mse"]
        if len(calls) == 1 and val.equals(anf.f_sqrt(Rat.from_atom(calls[0]))):
            c = calls[0]
            names = list(c.extra or ())
            want_args = {"points": ev.to_rat(pts), "knees": knees, "expected": ev.to_rat(exp), "s": s}
            if sorted(names) == sorted(want_args) and all(c.args[names.index(k)].equals(v) for k, v in want_args.items()):
                ok = True
    if ok:
        res.ok("S5", "evaluation.rmse", "sqrt(mse(points, knees, expected, s))")
    else:
        res.violation("S5", fi.module, fi.name, fi.node, "rmse is not the square root of mse on the same arguments", _short(val),
                      "sqrt(mse(points, knees, expected, s))", construct="rmse")


# --------------------------------------------------------------------------
STRATEGIES = ["knees", "expected", "best", "worst"]


def _errors(rc: RuleCtx):
    res = rc.res
    tables = {}
    for name in ("mae", "mse", "rmspe"):
        fi = rc.func(f"evaluation.{name}")
        mod = fi.module
        pre, loop, post = split_at_loop(fi)
        table = {}
        ev = None
        for sname in STRATEGIES:
            ev = rc.new_eval()
            pts, exp = ev.point("points", True), ev.point("expected", True)
            knees = ev.symbol("knees", True)
            ev.len_map = {"expected": sym("E"), "points": sym("n"), "knees": sym("K")}
            env = {"points": pts, "knees": knees, "expected": exp, "s": Obj("enum", f"Strategy.{sname}"), "eps": ev.symbol("eps")}
            fr = Frame(ev, fi, 0)
            try:
                fr.block(pre, env, TRUE)
            except Unsupported as e:
                raise AnalysisError(f"evaluation.{name}: pre-loop code not modelled: {e}")
            # "they vanish only when E is exactly the knee points": a zero returned in front of the matching under a *tolerance* test
            # (np.allclose / np.isclose) is returned for sets that are close but not equal
            for g_, v_ in fr.returns:
                if g_sat(g_) and isinstance(v_, Rat) and v_.is_zero() and ("allclose" in repr(g_.key) or "isclose" in repr(g_.key)) and sname == STRATEGIES[0]:
                    res.violation("S6", mod, fi.name, fi.node,
                                  f"{name} returns 0 in front of the matching under a tolerance test (np.allclose / np.isclose): it vanishes for expected points that are near the knee points, not only for the knee points themselves",
                                  _short(g_, 120), "an exact comparison, or no shortcut", construct=f"{name} tolerance shortcut")
            it_node = loop.iter
            if not isinstance(it_node, ast.Name):
                nm_ = sorted({n.id for n in ast.walk(it_node) if isinstance(n, ast.Name) and n.id not in ("range", "len", "enumerate", "zip")})
                if len(nm_) == 1:
                    it_node = ast.Name(id=nm_[0], ctx=ast.Load())          # for k in range(len(a)) / enumerate(a): the side is `a`
                    ast.copy_location(it_node, loop.iter)
                    fi.module.node_scope[id(it_node)] = fi.scope
                    from ..model import keep as _keep
                    _keep(it_node)
            it = fr.expr(it_node, env)
            # which local is `b` (the searched side): the other point set used in the body
            ktake = Vec([anf.opaque("take", c, knees, array=True) for c in pts.items], "point")
            env["knee_points!"] = ktake
            # len(points[knees]) is |K|
            table[sname] = (it, env)
        # decision table: iterated side per strategy
        E_len, K_len = sym("E"), sym("K")

        def side(v, env):
            exp_v = env["expected"]
            kp = env["knee_points!"]
            out = []
            for g, x in cases_of(v):
                if veq(x, exp_v):
                    out.append((g, "E"))
                elif veq(x, kp):
                    out.append((g, "K"))
                else:
                    out.append((g, "?"))
            return out
        row = {}
        for sname, (it, env) in table.items():
            ev_local = it
            sides = side(it, env)
            # searched side = the local used as `b`: find the body name bound to the other set
            row[sname] = sides
        tables[name] = {k: sorted(((str(g), s) for g, s in v), key=lambda t: (t[1], t[0])) for k, v in row.items()}      # (the order of the branches is immaterial)
        # required table
        lk = anf.opaque("len", anf.opaque("take", table["best"][1]["points"].items[0], table["best"][1]["knees"], array=True), array=False)

        def expect(sname, sides):
            if sname == "knees":
                return sides == [(TRUE, "K")] or [s for _g, s in sides] == ["K"]
            if sname == "expected":
                return [s for _g, s in sides] == ["E"]
            # best: E iterates iff len(E) <= len(K); worst: E iterates iff len(E) >= len(K)
            want_sign = OPS["<="] if sname == "best" else OPS[">="]
            if len(sides) != 2:
                return False
            for g, sd in sides:
                if g.kind != "sign":
                    return False
                # quantity must be len(E) - len(K_points)
                q = g.a
                syms = q.symbols()
                if "E" not in syms:
                    return False
                eg = canon_sign(sym("E") - _len_of_kp(q), want_sign)
                if sd == "E" and not g_equiv(g, eg):
                    return False
                if sd == "K" and not g_equiv(g, g_not(eg)):
                    return False
            return {sd for _g, sd in sides} == {"E", "K"}
        good = True
        if all(sd == "?" for sides in row.values() for _g, sd in sides):
            raise AnalysisError(f"evaluation.{name}: the iterated side could not be identified for any strategy - shape not recognised")
        for sname, sides in row.items():
            if not expect(sname, sides):
                good = False
                res.violation("S7", mod, fi.name, fi.node, f"Strategy.{sname}: the iterated side is {[(str(g), s) for g, s in sides]}",
                              str([(str(g), s) for g, s in sides]),
                              {"knees": "knee points", "expected": "expected points", "best": "expected iff len(expected) <= len(knees)",
                               "worst": "expected iff len(expected) >= len(knees)"}[sname], construct=f"{name} strategy {sname}")
        if good:
            res.ok("S7", f"evaluation.{name}", "knees->K, expected->E, best->shorter side, worst->longer side")
        # the searched side must be the other set: check inside the body with a/b symbolic
        _error_body(rc, name, fi, loop, post, table)
    if len({repr(sorted(t.items())) for t in tables.values()}) == 1:
        res.ok("S7", "evaluation.mae/mse/rmspe", "the three Strategy tables are identical")
        res.sample({"strategy_table": tables["mae"]})
    else:
        fi = rc.func("evaluation.mae")
        res.violation("S7", fi.module, "mae/mse/rmspe", fi.node, "the Strategy decision tables of mae, mse and rmspe differ",
                      str(tables), "identical tables", construct="strategy tables agree")


def _len_of_kp(q: Rat) -> Rat:
    """The non-E part of a quantity of the form  +-(E - X)."""
    E = sym("E")
    a = q - E
    if "E" not in a.symbols():
        return a.neg()
    b = q + E
    return b


def _error_body(rc: RuleCtx, name: str, fi, loop, post, table):
    res = rc.res
    mod = fi.module
    ev = rc.new_eval()
    A, B = ev.point("a", True), ev.point("b", True)
    ev.len_map = {"a": sym("La"), "b": sym("Lb")}
    p = ev.point("p")
    eps = ev.symbol("eps")
    pre, _l, _p = split_at_loop(fi)
    # the iterated side and the current point, whatever the loop header looks like (for p in a / for k in range(len(a)): p = a[k] / enumerate)
    a_name = p_name = None
    if isinstance(loop.iter, ast.Name) and isinstance(loop.target, ast.Name):
        a_name, p_name = loop.iter.id, loop.target.id
        header_bind = None
    else:
        names_in_iter = [n.id for n in ast.walk(loop.iter) if isinstance(n, ast.Name) and n.id not in ("range", "len", "enumerate", "zip")]
        if len(set(names_in_iter)) != 1:
            raise AnalysisError(f"evaluation.{name}: the matching loop does not run over one point set")
        a_name = names_in_iter[0]
        header_bind = True
    # the searched side: under Strategy.knees the iterated side is the knee points, so the searched side is the local
    # (other than the iterated one) that holds the expected points; cross-checked under Strategy.expected
    env_k, env_e = table["knees"][1], table["expected"][1]
    cand = [n for n, v in env_k.items() if n not in (a_name, "expected", "points", "knee_points!") and isinstance(v, Vec) and v.kind == "point"
            and veq(v, env_k["expected"]) and isinstance(env_e.get(n), Vec) and veq(env_e[n], env_e["knee_points!"])]
    if len(cand) != 1:
        raise AnalysisError(f"evaluation.{name}: cannot identify the searched side of the nearest-neighbour matching")
    b_name = cand[0]
    # roles: the scalar accumulator (initialised to 0 before the loop) and the list of per-coordinate errors
    fr0 = Frame(ev, fi, 0)
    env0 = {"points": ev.point("points", True), "knees": ev.symbol("knees", True), "expected": ev.point("expected", True),
            "s": Obj("enum", "Strategy.expected"), "eps": eps}
    fr0.block(pre, env0, TRUE)
    acc_names = [n for n, v in env0.items() if isinstance(v, Rat) and v.is_zero()]
    list_names = [n for n, v in env0.items() if isinstance(v, Vec) and v.kind == "list" and not v.items]
    if header_bind:
        from .common import bind_loop
        frh = Frame(ev, fi, 0)
        hb = bind_loop(ev, frh, loop, {a_name: A, b_name: B, "eps": eps})
        if hb is None or not (hb.lo.is_zero() and hb.hi.equals(sym("La"))):
            raise AnalysisError(f"evaluation.{name}: the matching loop does not visit every point of the iterated side once")
        benv = {a_name: A, b_name: B, "eps": eps}
        benv.update(hb.bindings)
        # the current point: bound by the header or by the first statement of the body (p = a[k])
        p = Vec([anf.opaque("at", A.items[0], hb.idx, array=False), anf.opaque("at", A.items[1], hb.idx, array=False)], "point")
    else:
        benv = {a_name: A, b_name: B, p_name: p, "eps": eps}
    for n in acc_names:
        benv[n] = ev.symbol("error")
    for n in list_names:
        benv[n] = ev.symbol("errors@list")
    acc = acc_names[0] if len(acc_names) == 1 else "error"
    lst = list_names[0] if len(list_names) == 1 else "errors"
    out = ev.eval_loop_body(fi, loop, benv)
    bx, by = B.items
    dist = anf.f_sqrt((bx - p.items[0]) * (bx - p.items[0]) + (by - p.items[1]) * (by - p.items[1]))
    idx = anf.opaque("argmin", dist, array=False)
    qx, qy = anf.opaque("at", bx, idx, array=False), anf.opaque("at", by, idx, array=False)
    if name == "mae":
        want_term = anf.f_abs(p.items[0] - qx) + anf.f_abs(p.items[1] - qy)
    elif name == "mse":
        want_term = (p.items[0] - qx) * (p.items[0] - qx) + (p.items[1] - qy) * (p.items[1] - qy)
    else:
        want_term = None
    list_form = False
    acc_v = out.env.get(acc)
    acc_changes = isinstance(acc_v, Rat) and "error" in acc_v.symbols() and not acc_v.equals(sym("error"))
    if name in ("mae", "mse") and not acc_changes:
        # the per-point terms are collected in a list and added up afterwards (same additions, same order)
        apps_ = [e for e in out.events if e.kind == "append" and e.guard.kind == "true"]
        if not apps_ and header_bind:
            # ... or stored at the loop position of a float array preallocated with np.zeros(len(a))
            from ..gvn import Event as _Ev
            for e_ in out.events:
                if e_.kind == "store" and len(e_.args) == 2 and isinstance(e_.args[0], Rat) and e_.guard.kind == "true" and e_.target in acc_names \
                        and any(isinstance(v_, Rat) and v_.equals(e_.args[0]) for v_ in hb.bindings.values()):
                    apps_.append(_Ev(e_.guard, "append", e_.target, (e_.args[1],), e_.node))
                    list_names = [e_.target]
                    lst = e_.target
        if len(apps_) == 1 and isinstance(apps_[0].args[0], Rat) and len(list_names) == 1:
            list_form = True
            if apps_[0].args[0].equals(want_term):
                res.ok("S6", f"evaluation.{name}:term", f"one term {_short(want_term, 100)} per point, at the Euclidean argmin")
            else:
                res.violation("S6", mod, fi.name, loop, f"the per-point error term of {name} is not the stated one at the Euclidean nearest neighbour",
                              _short(apps_[0].args[0], 200), _short(want_term), construct=f"{name} error term")
            fr = Frame(ev, fi, 0)
            T_ = ev.symbol("terms", True)
            ev.len_map["terms"] = sym("La")
            penv = {a_name: A, b_name: B, lst: T_}
            fr.block(post, penv, TRUE)
            val = mk_pw(fr.returns)
            from .common import account_returns
            account_returns(fi)            # (the value returned after the loop is compared with the reference just below)
            want = anf.f_sum(T_, sym("La")) / (C(2) * sym("La"))
            if isinstance(val, Rat) and val.equals(want):
                res.ok("S6", f"evaluation.{name}:divisor", "sum(terms) / (2 * len(a))")
                res.ok("S6", f"evaluation.{name}:init", "the sum starts at 0")
            else:
                res.violation("S6", mod, fi.name, fi.node, f"{name} does not divide the accumulated error by 2 * len(a)", _short(val), _short(want),
                              construct=f"{name} divisor")
    if list_form:
        pass
    elif name in ("mae", "mse"):
        new_acc = out.env.get(acc)
        if isinstance(new_acc, Rat) and new_acc.sub(sym("error")).equals(want_term):
            res.ok("S6", f"evaluation.{name}:term", f"error += {_short(want_term, 100)} at the Euclidean argmin")
        else:
            res.violation("S6", mod, fi.name, loop, f"the per-point error term of {name} is not the stated one at the Euclidean nearest neighbour",
                          _short(new_acc.sub(sym("error")) if isinstance(new_acc, Rat) else new_acc, 200), _short(want_term), construct=f"{name} error term")
        # final division
        fr = Frame(ev, fi, 0)
        penv = {a_name: A, b_name: B, acc: ev.symbol("error")}
        fr.block(post, penv, TRUE)
        val = mk_pw(fr.returns)
        from .common import account_returns
        account_returns(fi)            # (the value returned after the loop is compared with the reference just below)
        want = sym("error") / (C(2) * sym("La"))
        if isinstance(val, Rat) and val.equals(want):
            res.ok("S6", f"evaluation.{name}:divisor", "error / (2 * len(a))")
        else:
            res.violation("S6", mod, fi.name, fi.node, f"{name} does not divide the accumulated error by 2 * len(a)", _short(val), _short(want),
                          construct=f"{name} divisor")
        # error starts at 0
        if len(acc_names) == 1:
            res.ok("S6", f"evaluation.{name}:init", "error starts at 0")
        else:
            res.violation("S6", mod, fi.name, fi.node, "the accumulated error does not start at 0", str(acc_names), "0", construct=f"{name} init")
    else:
        # the two relative errors of a point are collected either flat (extend) or as one row per point (append): the root mean square
        # over all collected values is the same
        exts = [e for e in out.events if e.kind == "extend" or (e.kind == "append" and isinstance(e.args[0], Vec) and len(e.args[0].items) == 2)]
        want_vec = Vec([(p.items[0] - qx) / (p.items[0] + eps), (p.items[1] - qy) / (p.items[1] + eps)], "point")
        if len(exts) == 1 and exts[0].guard.kind == "true" and veq(exts[0].args[0], want_vec):
            res.ok("S6", "evaluation.rmspe:term", "errors.extend((p - q)/(p + eps)) at the Euclidean argmin")
        else:
            res.violation("S6", mod, fi.name, loop, "the per-point relative error of rmspe is not (p - q)/(p + eps) at the Euclidean nearest neighbour",
                          str([_short(e.args[0]) for e in exts]), _short(want_vec), construct="rmspe error term")
        fr = Frame(ev, fi, 0)
        E_ = ev.symbol("errors", True)
        ev.len_map["errors"] = sym("Le")
        penv = {lst: E_}
        fr.block(post, penv, TRUE)
        val = mk_pw(fr.returns)
        from .common import account_returns
        account_returns(fi)            # (the value returned after the loop is compared with the reference just below)
        want = anf.f_sqrt(anf.f_sum(E_ * E_, sym("Le")) / sym("Le"))
        if isinstance(val, Rat) and val.equals(want):
            res.ok("S6", "evaluation.rmspe:final", "sqrt(mean(errors^2))")
        else:
            res.violation("S6", mod, fi.name, fi.node, "rmspe is not the root mean square of the collected relative errors", _short(val), _short(want),
                          construct="rmspe final")
