"""C04 -- threshold RDP keeps a segment only if it fits, splits only where it must.

T1  split iff the endpoint-line cost is on the rejecting side of t: r < t for R2, r >= t otherwise;
    retained iff not split.
T2  r == compute_cost_coef(pt, linear_fit_points(pt), cost) on exactly the popped range; the
    Metrics dispatch table is total and each entry is the homonymous metric on (y, m*x + b).
T3  split index == argmax of the selected distance to the chord pt[0]-pt[-1], restricted to the
    interior (offset == slice start).
T4  children are {(left, left+index+1), (left+index, right)}: they share the split point.
"""

from __future__ import annotations

import ast
from fractions import Fraction

from .. import AnalysisError, anf
from ..anf import Rat, sym
from ..guards import (G, TRUE, FALSE, g_and, g_not, g_or, g_equiv, g_implies, g_sat, compare, canon_sign, OPS)
from ..gvn import Frame, Obj, PW, Vec, cases_of, veq, Unsupported
from ..intervals import single_atom, split_const
from ..ref import ref
from . import rdp_model as rm
from .c16 import METRIC_REFS, R2_CLASSIC, TSS
from .common import RuleCtx, _short, judge, sign_set_name

C = Rat.const
METRICS = ["r2", "rmspe", "rmsle", "rpd", "smape"]


def popped_points(m: rm.LoopModel) -> Vec:
    pts = m.env_pre["points"]
    return Vec([anf.opaque("slice", c, m.left, m.right, array=True) for c in pts.items], "point")


def chord_args(m: rm.LoopModel):
    pts = m.env_pre["points"]
    at = lambda x, i: anf.opaque("at", x, i, array=False)  # noqa: E731
    first = Vec([at(c, m.left) for c in pts.items], "point")
    last = Vec([at(c, m.right - C(1)) for c in pts.items], "point")
    return first, last


def check_split_index(rc: RuleCtx, rule: str, m: rm.LoopModel, tag: str, allow_middle: bool) -> bool:
    """T3 / X8-shape: the (non-degenerate) split index is argmax(D[lo:hi]) + lo with D = distance_points(pt, pt[0], pt[-1])."""
    res = rc.res
    ev = m.ev
    pt = popped_points(m)
    first, last = chord_args(m)
    want_args = [ev.to_rat(pt), ev.to_rat(first), ev.to_rat(last)]
    ok = True
    seen = 0
    for g, idx in rm.index_cases(m):
        rest, c = split_const(idx)
        a = single_atom(rest)
        if a is not None and a.name in ("int", "floor") and allow_middle:
            # zero-distance guard: the middle index is acceptable only when *every* distance is below machine epsilon
            # (rounding noise) - under any looser test a segment with a genuine farthest point is split in the middle
            D = anf.opaque("slot:distance_points", *want_args, array=True)
            cands = [x_ for x_ in g.a] if g.kind == "and" else [g]
            noise_ok = False
            for x_ in cands:
                if x_.kind == "sign" and x_.b == OPS["<"]:
                    for at_ in x_.a.all_atoms():
                        if at_.kind == "fn" and at_.name.startswith("slot:") and len(at_.args) == 3 and all(p.equals(q) for p, q in zip(at_.args, want_args)):
                            rest_ = x_.a.sub(Rat.from_atom(at_))
                            ra_ = rest_.neg().atoms()
                            if len(ra_) == 1 and "finfo" in ra_[0].name and "eps" in ra_[0].name and rest_.neg().equals(Rat.from_atom(ra_[0])):
                                noise_ok = True
            if not noise_ok:
                ok = False
                res.violation(rule, m.fi.module, m.fi.name, m.loop,
                              f"{tag}: the middle index is used under a condition other than 'every distance to the chord is below machine epsilon': a segment whose "
                              "distances are small but not rounding noise is no longer split at its farthest point", _short(g, 200),
                              "np.all(d < np.finfo(float).eps)", construct=f"zero-distance guard {tag.split('[')[0]}")
            continue
        seen += 1
        good = False
        why = "not an argmax of the distance vector"
        sp = rm.scanned_positions(m, idx)
        if sp is not None and sp[4] == "argmax":
            base, p_lo, p_hi, maps_back, _nm, _rev = sp
            ba = single_atom(base)
            if not (ba is not None and ba.name.startswith("slot:") and len(ba.args) == 3 and all(p.equals(q) for p, q in zip(ba.args, want_args))):
                why = "the distances are not distance_points(pt, pt[0], pt[-1]) of the popped range"
            elif not maps_back:
                why = "the position found in the scanned view is not mapped back to its position in the distance vector (offset differs from the view start)"
            elif not (p_lo.equals(C(1)) and p_hi.equals(m.L.sub(C(2)))):
                why = f"the scan covers positions {p_lo}..{p_hi}, not exactly the interior points 1..L-2"
            else:
                good = True
        if not good:
            ok = False
            res.violation(rule, m.fi.module, m.fi.name, m.loop, f"{tag}: the split point is not the farthest interior point from the chord: {why}",
                          _short(idx, 200), "argmax(distance_points(pt, pt[0], pt[-1])[1:-1]) + 1", construct=f"split index {tag.split('[')[0]}")
    if ok and seen:
        res.ok(rule, f"{tag}:split", "index == argmax over the interior of distance_points(pt, pt[0], pt[-1]) + slice start")
    elif ok:
        res.error(f"{rule}: no argmax-based split index found in {tag}")
    return ok


def check_children(rc: RuleCtx, rule: str, m: rm.LoopModel, tag: str) -> bool:
    res = rc.res
    ok = True
    for g, idx in rm.index_cases(m):
        want = [(m.left, m.left + idx + C(1)), (m.left + idx, m.right)]
        got = []
        for p in m.pushes:
            if not g_sat(g_and(p.guard, g)):
                continue
            a, b = p.items[-2], p.items[-1]
            for ga, va in cases_of(a):
                for gb, vb in cases_of(b):
                    if g_sat(g_and(p.guard, g, ga, gb)):
                        got.append((va, vb))
        for w in want:
            if not any(isinstance(x[0], Rat) and isinstance(x[1], Rat) and x[0].equals(w[0]) and x[1].equals(w[1]) for x in got):
                # a child may legitimately be suppressed by its push guard (no interior point); only report wrong shapes
                shapes_ok = all(any(isinstance(x[0], Rat) and x[0].equals(ww[0]) and x[1].equals(ww[1]) for ww in want) for x in got)
                if not shapes_ok or not got:
                    ok = False
                    res.violation(rule, m.fi.module, m.fi.name, m.loop,
                                  f"{tag}: the children of a split are not (left, left+index+1) and (left+index, right) - they must share the split point",
                                  str([(str(x[0])[:60], str(x[1])[:60]) for x in got]), "(left, left+index+1), (left+index, right)",
                                  construct=f"children {tag.split('[')[0]}")
                    break
        if not ok:
            break
    if ok:
        res.ok(rule, f"{tag}:children", "children (left, left+index+1) and (left+index, right) share the split point")
    return ok


def run(ctx):
    rc = RuleCtx(ctx)
    res = ctx.result
    res.level = "other"
    for k, v in {"T1": "split iff sign(r - t) in {-} for R2 and in {0,+} for the error metrics; retained iff not split",
                 "T2": "r is compute_cost_coef(pt, linear_fit_points(pt), cost) on the popped range; dispatch table total (5/5) and each entry == the metric on (y, m*x+b)",
                 "T3": "index == argmax over the interior of distance_points(pt, pt[0], pt[-1]) (+ slice start); the distance callee is the one selected by `distance`",
                 "T4": "pushes == {(left, left+index+1), (left+index, right)}"}.items():
        res.rule(k, v)
    for mname in METRICS:
        m = rm.build(rc, "rdp.rdp", {"cost": Obj("enum", f"Metrics.{mname}")})
        rm.threshold_profile(rc, m, "T4", "T4")
        tag = f"rdp.rdp[{mname}]"
        ev = m.ev
        pt = popped_points(m)
        coef = anf.opaque("call:linear_fit.linear_fit_points", ev.to_rat(pt), array=True, extra=("points",))
        r = anf.opaque("call:rdp.compute_cost_coef", ev.to_rat(pt), coef, ev.to_rat(Obj("enum", f"Metrics.{mname}")), array=True, extra=("pt", "coef", "cost"))
        big = canon_sign(m.L - C(2), OPS[">"])
        split = m.pushes[0].guard if m.pushes else FALSE
        want_signs = OPS["<"] if mname == "r2" else OPS[">="]
        want = g_and(big, canon_sign(r - sym("t"), want_signs))
        got = g_and(big, split)
        if g_equiv(got, want):
            res.ok("T1", tag, f"on ranges with interior points: split iff cost {sign_set_name(want_signs)} t")
            res.ok("T2", f"{tag}:cost", "cost == compute_cost_coef(points[left:right], linear_fit_points(points[left:right]), cost)")
        else:
            # same quantity, different comparator?
            msg = f"[{mname}] the split condition is not 'cost {sign_set_name(want_signs)} t' on the popped range's endpoint-line cost"
            res.violation("T1", m.fi.module, m.fi.name, m.loop, msg, _short(got, 300), _short(want, 300), construct=f"accept/reject {mname}")
        if mname == "smape":
            # ("no interior point is farther beyond rounding noise": a middle index chosen when *every* distance is below machine
            # epsilon - the guard of the fixed / global variants, shared through a helper - is within the statement)
            check_split_index(rc, "T3", m, "rdp.rdp", allow_middle=True)
            check_children(rc, "T4", m, "rdp.rdp")
    rm.check_distance_dispatch(rc, "T3", "rdp.rdp")
    # the helpers the rules above treat as opaque: the two distance primitives the split maximises and the endpoint fit the cost is measured against
    from . import c17, c16
    from .common import borrow
    borrow(rc, "T3", c17._sec_shortest, c17._sec_perp)
    borrow(rc, "T2", lambda rc_: c16.helper_contracts(rc_, "T2", ("linear_fit_points",)))
    _dispatch_table(rc)


def _dispatch_table(rc: RuleCtx):
    res = rc.res
    fi = rc.func("rdp.compute_cost_coef")
    members = rc.repo.mod("metrics").classes["Metrics"].enum_members
    if sorted(members) != sorted(METRICS):
        res.error(f"T2: metrics.Metrics has members {members}; the rule table knows {METRICS}")
    for mname in members:
        ev = rc.new_eval()
        pts = ev.point("pt", True)
        ev.len_map = {"pt": sym("N")}
        b_, m_ = ev.symbol("b"), ev.symbol("m")
        try:
            out = ev.eval_function(fi, {"pt": pts, "coef": Vec([b_, m_]), "cost": Obj("enum", f"Metrics.{mname}")})
        except Unsupported as e:
            raise AnalysisError(f"rdp.compute_cost_coef: not modelled: {e}")
        val = out.value()
        envr = {"y": pts.items[1], "y_hat": pts.items[0] * m_ + b_, "eps": C(Fraction(1e-16))}
        if isinstance(val, Obj) or (isinstance(val, Rat) and any(a.name == "item" and "dict" in str(a) for a in val.atoms())):
            res.violation("T2", fi.module, fi.name, fi.node, f"Metrics.{mname} has no entry in the cost dispatch table (KeyError)", str(val),
                          "one entry per Metrics member", construct=f"dispatch {mname}")
            continue
        if mname == "r2":
            want = ref(R2_CLASSIC, envr)
            tss0 = canon_sign(ref(TSS, envr), OPS["=="])
            ok = True
            for g, v in cases_of(val):
                if g_implies(g, tss0) and g.kind != "true":
                    continue
                if not (isinstance(v, Rat) and v.equals(want)):
                    ok = False
            if ok:
                res.ok("T2", f"rdp.compute_cost_coef[{mname}]", "== 1 - rss/tss of (y, m*x+b)")
            else:
                res.violation("T2", fi.module, fi.name, fi.node, "Metrics.r2 is not dispatched to the R2 of the endpoint line", _short(val), _short(want),
                              construct="dispatch r2")
        else:
            want = ref(METRIC_REFS[mname], envr)
            rc.expect_equal("T2", fi, val, want, f"compute_cost_coef[{mname}] == metrics.{mname}(y, m*x+b)")
    rc.res.not_decided += ["'beyond rounding noise' clause", "the numeric cost values themselves"]
    rc.res.assumptions += ["t > 0; the cost literal for <= 2 points is handled under C01-R1b"]
    from .common import hidden_state as _hidden_state
    _hidden_state(rc, "T6", ['rdp.rdp', 'rdp.compute_cost_coef'], "threshold RDP")
    rc.res.require_instances("C04 obligations", len(rc.res.obligations), 15)
